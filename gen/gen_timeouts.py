"""Gen_Timeouts.v — facts about the per-call timeout plumbing of the current source tree (fail-closed).

Read with `ast` from the files themselves (no import needed):
  * which methods of the generic / network drivers and of the channels accept timeout_ops,
    read_duration or read_timeout, and the defaults of those parameters;
  * which of them are decorated with @timeout_modifier;
  * every place where such a method hands timeout_ops to another one: by keyword or not
    (timeout_modifier only looks at kwargs);
  * for each of the six places that swap a timeout value (the two `decorate` closures of
    timeout_modifier, _read_until_prompt_or_time and read_callback, sync and asyncio): how many
    assignments set the value, how many of those are covered by a try whose `finally` restores it,
    how many restores sit in a `finally`, how many outside;
  * for the same six places, WHERE the value that is put back lives: a restore `X.timeout_* = name` counts as
    "from the frame" when `name` is bound in that very function's own scope by `name = Y.timeout_*` and is not
    declared nonlocal / global there (a local of the wrapper CALL: one per call, also for a coroutine); every
    other restore in a `finally` (an attribute such as self._saved / cls.slot, a free variable of an
    enclosing function, a global, a call) counts as "from elsewhere": such a slot is shared by every
    connection that runs the same decorated method, and overlapping calls restore each other's value
    (coq/model/TimeoutOverlap.v);
  * the thread based timeout of the sync stack (decorators._multiprocessing_timeout): which functions of
    scrapli/decorators.py start a thread / an executor at all, and whether the one executor is left in a
    way that JOINS its worker before the ScrapliTimeout can reach the caller (`with ThreadPoolExecutor(..)`
    or shutdown() / shutdown(wait=True) in a `finally` around everything that can raise, and no
    shutdown(wait=<anything else>) anywhere): the worker's restore of timeout_transport then
    happens-before the end of the call."""
import ast
import os
import sys

TIMEOUT_PARAMS = ("timeout_ops", "read_duration", "read_timeout")
ATTRS = ("timeout_ops", "timeout_transport")

CLASSES = [
    ("scrapli/driver/generic/sync_driver.py", "GenericDriver"),
    ("scrapli/driver/generic/async_driver.py", "AsyncGenericDriver"),
    ("scrapli/driver/network/sync_driver.py", "NetworkDriver"),
    ("scrapli/driver/network/async_driver.py", "AsyncNetworkDriver"),
    ("scrapli/channel/sync_channel.py", "Channel"),
    ("scrapli/channel/async_channel.py", "AsyncChannel"),
]

SWAP_SITES = [
    ("scrapli/decorators.py", None, "timeout_modifier", "decorate"),      # both closures
    ("scrapli/channel/sync_channel.py", "Channel", "_read_until_prompt_or_time", None),
    ("scrapli/channel/async_channel.py", "AsyncChannel", "_read_until_prompt_or_time", None),
    ("scrapli/driver/generic/sync_driver.py", "GenericDriver", "read_callback", None),
    ("scrapli/driver/generic/async_driver.py", "AsyncGenericDriver", "read_callback", None),
]

FUNC = (ast.FunctionDef, ast.AsyncFunctionDef)


def repo():
    return os.environ.get("VERIF_REPO", "/repo")


def parse(rel):
    with open(os.path.join(repo(), rel)) as f:
        return ast.parse(f.read(), rel)


def find_class(tree, name):
    for n in tree.body:
        if isinstance(n, ast.ClassDef) and n.name == name:
            return n
    raise ValueError("class %s not found" % name)


def ms(node, what):
    """default value in milliseconds (None stays None)"""
    if isinstance(node, ast.Constant) and node.value is None:
        return None
    if isinstance(node, ast.UnaryOp) and isinstance(node.op, ast.USub) and isinstance(node.operand, ast.Constant):
        v = -node.operand.value
    elif isinstance(node, ast.Constant) and isinstance(node.value, (int, float)) and not isinstance(node.value, bool):
        v = node.value
    else:
        raise ValueError("unexpected default for %s: %s" % (what, ast.dump(node)))
    m = round(v * 1000)
    if abs(m - v * 1000) > 1e-9:
        raise ValueError("default of %s is not a whole number of milliseconds: %r" % (what, v))
    return int(m)


def params_with_defaults(fn):
    a = fn.args
    pos = a.posonlyargs + a.args
    out = {}
    for arg, d in zip(pos[len(pos) - len(a.defaults):], a.defaults):
        out[arg.arg] = d
    for arg, d in zip(a.kwonlyargs, a.kw_defaults):
        out[arg.arg] = d
    for arg in pos + a.kwonlyargs:
        out.setdefault(arg.arg, None)
    return out


def decorated_with(fn, name):
    for d in fn.decorator_list:
        if isinstance(d, ast.Name) and d.id == name:
            return True
        if isinstance(d, ast.Attribute) and d.attr == name:
            return True
    return False


def is_timeout_attr(node):
    return isinstance(node, ast.Attribute) and node.attr in ATTRS


def blocks_of(node):
    """every statement list inside node (not descending into nested function definitions)"""
    for field in ("body", "orelse", "finalbody"):
        b = getattr(node, field, None)
        if isinstance(b, list) and b and isinstance(b[0], ast.stmt):
            yield field, b
    for h in getattr(node, "handlers", []) or []:
        yield "handler", h.body


def analyse_swaps(fn):
    """(sets, guarded sets, restores in a finally, restores elsewhere) for one function body"""
    saved = set()
    for n in ast.walk(fn):
        if isinstance(n, ast.Assign) and len(n.targets) == 1 and isinstance(n.targets[0], ast.Name) and is_timeout_attr(n.value):
            saved.add(n.targets[0].id)
    res = {"sets": 0, "guarded": 0, "rin": 0, "rout": 0}

    def restoring_try(t):
        return isinstance(t, ast.Try) and any(
            isinstance(s, ast.Assign) and is_timeout_attr(s.targets[0]) and isinstance(s.value, ast.Name) and s.value.id in saved
            for s in t.finalbody)

    def walk(stmts, in_finally, guarded):
        for i, s in enumerate(stmts):
            if isinstance(s, FUNC) or isinstance(s, ast.ClassDef):
                continue
            if isinstance(s, ast.Assign) and len(s.targets) == 1 and is_timeout_attr(s.targets[0]):
                if isinstance(s.value, ast.Name) and s.value.id in saved:
                    res["rin" if in_finally else "rout"] += 1
                else:
                    res["sets"] += 1
                    g = guarded
                    # `self.timeout_transport = x` is the driver's property setter: it assigns and may then raise
                    # (transports with _set_timeout, closed), so it has to be inside the try itself
                    tgt = s.targets[0]
                    setter = isinstance(tgt.value, ast.Name) and tgt.value.id == "self"
                    if not g and not setter:
                        # followed, in the same block, by a restoring try with only plain assignments in between
                        for nxt in stmts[i + 1:]:
                            if restoring_try(nxt):
                                g = True
                                break
                            if not (isinstance(nxt, ast.Assign) and not is_timeout_attr(nxt.targets[0])):
                                break
                    res["guarded"] += int(g)
            if isinstance(s, ast.Try):
                walk(s.body, in_finally, guarded or restoring_try(s))
                for h in s.handlers:
                    walk(h.body, in_finally, guarded or restoring_try(s))
                walk(s.orelse, in_finally, guarded or restoring_try(s))
                walk(s.finalbody, True, guarded)
            else:
                for _, b in blocks_of(s):
                    walk(b, in_finally, guarded)

    walk(fn.body, False, False)
    return res


def own_nodes(fn):
    """nodes of fn's own scope: not descending into nested function / class / lambda bodies"""
    out = []
    todo = list(fn.body)
    while todo:
        n = todo.pop()
        out.append(n)
        if isinstance(n, FUNC + (ast.ClassDef, ast.Lambda)):
            continue
        for ch in ast.iter_child_nodes(n):
            if isinstance(ch, FUNC + (ast.ClassDef, ast.Lambda)):
                out.append(ch)
                continue
            todo.append(ch)
    return out


def analyse_saved(fn):
    """(restores whose value is a local of this function's frame, restores from anywhere else)"""
    own = own_nodes(fn)
    escaping = set()
    for n in own:
        if isinstance(n, (ast.Nonlocal, ast.Global)):
            escaping.update(n.names)
    params = {a.arg for a in fn.args.posonlyargs + fn.args.args + fn.args.kwonlyargs}
    bound = {}
    for n in own:
        if isinstance(n, ast.Name) and isinstance(n.ctx, ast.Store):
            bound[n.id] = bound.get(n.id, 0) + 1
    saved = set()
    for n in own:
        if (isinstance(n, ast.Assign) and len(n.targets) == 1 and isinstance(n.targets[0], ast.Name) and is_timeout_attr(n.value)
                and n.targets[0].id not in escaping and n.targets[0].id not in params and bound.get(n.targets[0].id) == 1):
            saved.add(n.targets[0].id)
    res = {"frame": 0, "elsewhere": 0}

    def walk(stmts, in_finally):
        for s in stmts:
            if isinstance(s, FUNC) or isinstance(s, ast.ClassDef):
                continue
            if isinstance(s, (ast.Assign, ast.AugAssign, ast.AnnAssign)):
                targets = s.targets if isinstance(s, ast.Assign) else [s.target]
                if any(is_timeout_attr(t) for t in targets):
                    v = s.value
                    from_frame = isinstance(s, ast.Assign) and isinstance(v, ast.Name) and v.id in saved
                    if from_frame:
                        res["frame"] += 1
                    elif in_finally:
                        res["elsewhere"] += 1
            if isinstance(s, ast.Try):
                walk(s.body, in_finally)
                for h in s.handlers:
                    walk(h.body, in_finally)
                walk(s.orelse, in_finally)
                walk(s.finalbody, True)
            else:
                for _, b in blocks_of(s):
                    walk(b, in_finally)

    walk(fn.body, False)
    return res


SPAWNERS = ("ThreadPoolExecutor", "ProcessPoolExecutor", "Thread", "Process", "Timer", "start_new_thread",
            "run_in_executor", "to_thread")
POOL_FUNC = "_multiprocessing_timeout"


def call_name(n):
    f = n.func
    return f.id if isinstance(f, ast.Name) else (f.attr if isinstance(f, ast.Attribute) else None)


def _waits(call):
    """pool.shutdown(...) that waits for the worker: wait absent or the constant True, nothing else passed"""
    if len(call.args) > 1 or any(k.arg not in ("wait",) for k in call.keywords):
        return False
    vals = list(call.args) + [k.value for k in call.keywords]
    return all(isinstance(v, ast.Constant) and v.value is True for v in vals)


def analyse_pool(tree):
    """(joins, why, functions that start threads) for scrapli/decorators.py"""
    sites = []
    for fn in ast.walk(tree):
        if isinstance(fn, FUNC):
            own = [n for st in fn.body for n in ast.walk(st)]
            if any(isinstance(n, ast.Call) and call_name(n) in SPAWNERS for n in own):
                inner = {id(n) for st in fn.body for g in ast.walk(st) if isinstance(g, FUNC) for n in ast.walk(g)}
                if any(isinstance(n, ast.Call) and call_name(n) in SPAWNERS and id(n) not in inner for n in own):
                    sites.append(fn.name)
    fns = [f for f in tree.body if isinstance(f, FUNC) and f.name == POOL_FUNC]
    if len(fns) != 1:
        return False, "%s not found" % POOL_FUNC, sorted(sites)
    fn = fns[0]
    nodes = list(ast.walk(fn))
    creations = [n for n in nodes if isinstance(n, ast.Call) and call_name(n) in SPAWNERS]
    if len(creations) != 1 or call_name(creations[0]) != "ThreadPoolExecutor":
        return False, "expected exactly one ThreadPoolExecutor(...)", sorted(sites)
    creation = creations[0]
    # everything that may raise towards the caller or hand a result back
    leaving = [n for n in nodes if isinstance(n, (ast.Raise, ast.Return))
               or (isinstance(n, ast.Call) and call_name(n) in ("_handle_timeout", "submit", "wait", "result"))]
    shutdowns = [n for n in nodes if isinstance(n, ast.Call) and call_name(n) == "shutdown"]
    if any(not _waits(c) for c in shutdowns):
        return False, "shutdown() that does not wait for the worker", sorted(sites)
    name = None
    region = None
    for n in nodes:
        if isinstance(n, ast.With) and len(n.items) == 1 and n.items[0].context_expr is creation:
            v = n.items[0].optional_vars
            name = v.id if isinstance(v, ast.Name) else None
            region = n.body
    if region is None:
        # pool = ThreadPoolExecutor(..) ; try: ... finally: pool.shutdown()
        for blockname, stmts in [(None, fn.body)]:
            for i, s in enumerate(stmts):
                if isinstance(s, ast.Assign) and s.value is creation and len(s.targets) == 1 and isinstance(s.targets[0], ast.Name):
                    name = s.targets[0].id
                    nxt = stmts[i + 1] if i + 1 < len(stmts) else None
                    if isinstance(nxt, ast.Try) and any(
                            isinstance(x, ast.Expr) and isinstance(x.value, ast.Call) and call_name(x.value) == "shutdown"
                            and isinstance(x.value.func, ast.Attribute) and isinstance(x.value.func.value, ast.Name)
                            and x.value.func.value.id == name for x in nxt.finalbody):
                        region = nxt.body
                        if len(stmts) > i + 2:
                            return False, "statements after the try that shuts the executor down", sorted(sites)
    if region is None:
        return False, "the executor is neither a context manager nor shut down in a finally", sorted(sites)
    inside = {id(n) for st in region for n in ast.walk(st)}
    if any(id(n) not in inside for n in leaving):
        return False, "a raise / return / wait outside the region whose exit joins the worker", sorted(sites)
    stores = [n for n in nodes if isinstance(n, ast.Name) and n.id == name and isinstance(n.ctx, ast.Store)]
    if name is None or len(stores) != 1:
        return False, "the executor has no name of its own / the name is rebound", sorted(sites)
    return True, "", sorted(sites)


def coq_str(s):
    if '"' in s or "\\" in s:
        raise ValueError("unexpected character in identifier %r" % s)
    return '"%s"' % s


def coq_z(n):
    return "(%d)%%Z" % n


def generate(outdir):
    trees = {}
    methods = []        # (class, method, param)
    decorated = []      # (class, method)
    defaults = []       # (class, method, param, default ms or None)
    handovers = []      # (class, caller, callee, by keyword)
    unused = []         # (class, method): has timeout_ops, neither decorated nor handing it on
    fns = {}
    for rel, cname in CLASSES:
        tree = trees.setdefault(rel, parse(rel))
        cls = find_class(tree, cname)
        for fn in cls.body:
            if not isinstance(fn, FUNC) or fn.name == "__init__":   # the constructor configures, it is not a call
                continue
            fns[(cname, fn.name)] = fn
            pd = params_with_defaults(fn)
            for p in TIMEOUT_PARAMS:
                if p in pd:
                    methods.append((cname, fn.name, p))
                    if pd[p] is None:
                        raise ValueError("%s.%s: %s has no default" % (cname, fn.name, p))
                    defaults.append((cname, fn.name, p, ms(pd[p], "%s.%s(%s)" % (cname, fn.name, p))))
            if decorated_with(fn, "timeout_modifier"):
                decorated.append((cname, fn.name))
    with_ops = {(c, m) for c, m, p in methods if p == "timeout_ops"}
    names_with_ops = {m for _, m in with_ops}
    for (cname, mname) in sorted(with_ops):
        fn = fns[(cname, mname)]
        n_hand = 0
        for n in ast.walk(fn):
            if isinstance(n, ast.Call) and isinstance(n.func, ast.Attribute) and n.func.attr in names_with_ops:
                recv = n.func.value
                is_self = isinstance(recv, ast.Name) and recv.id == "self"
                is_super = isinstance(recv, ast.Call) and isinstance(recv.func, ast.Name) and recv.func.id == "super"
                if not (is_self or is_super):
                    continue
                by_kw = any(k.arg == "timeout_ops" and isinstance(k.value, ast.Name) and k.value.id == "timeout_ops" for k in n.keywords)
                handovers.append((cname, mname, n.func.attr, by_kw))
                n_hand += 1
        if n_hand == 0 and (cname, mname) not in decorated:
            unused.append((cname, mname))
    # the constant used when read_duration is None
    none_defaults = []
    for rel, cname in CLASSES[4:]:
        fn = fns[(cname, "_read_until_prompt_or_time")]
        found = None
        for n in ast.walk(fn):
            if (isinstance(n, ast.If) and isinstance(n.test, ast.Compare) and isinstance(n.test.left, ast.Name)
                    and n.test.left.id == "read_duration" and isinstance(n.test.ops[0], ast.Is)
                    and len(n.body) == 1 and isinstance(n.body[0], ast.Assign)):
                found = ms(n.body[0].value, "read_duration when None")
        if found is None:
            raise ValueError("%s._read_until_prompt_or_time: no default for read_duration=None" % cname)
        none_defaults.append((cname, found))
    # ReadCallback.next_timeout default
    bt = parse("scrapli/driver/generic/base_driver.py")
    rc = find_class(bt, "ReadCallback")
    init = [f for f in rc.body if isinstance(f, FUNC) and f.name == "__init__"][0]
    next_timeout = ms(params_with_defaults(init)["next_timeout"], "ReadCallback.next_timeout")
    # swap sites
    sites = []
    saved_sites = []
    for rel, cname, fname, inner in SWAP_SITES:
        tree = trees.setdefault(rel, parse(rel))
        if cname is None:
            outer = [f for f in tree.body if isinstance(f, FUNC) and f.name == fname]
            if len(outer) != 1:
                raise ValueError("%s not found" % fname)
            inners = [n for n in ast.walk(outer[0]) if isinstance(n, FUNC) and n.name == inner]
            if len(inners) != 2:
                raise ValueError("%s: expected a sync and an async %s, found %d" % (fname, inner, len(inners)))
            for f in inners:
                kind = "async" if isinstance(f, ast.AsyncFunctionDef) else "sync"
                sites.append(("%s.%s.%s" % (fname, inner, kind), analyse_swaps(f)))
                saved_sites.append(("%s.%s.%s" % (fname, inner, kind), analyse_saved(f)))
        else:
            sites.append(("%s.%s" % (cname, fname), analyse_swaps(fns[(cname, fname)])))
            saved_sites.append(("%s.%s" % (cname, fname), analyse_saved(fns[(cname, fname)])))
    saved_local = bool(saved_sites) and all(r["frame"] >= 1 and r["elsewhere"] == 0 for _, r in saved_sites)
    # any other function of the scanned classes that assigns a timeout attribute is a swap site we do not know
    known = {(c, f) for _, c, f, _ in SWAP_SITES if c}
    others = []
    for (cname, mname), fn in sorted(fns.items()):
        if (cname, mname) in known:
            continue
        for n in ast.walk(fn):
            if isinstance(n, ast.Assign) and any(is_timeout_attr(t) for t in n.targets):
                others.append("%s.%s" % (cname, mname))
                break

    pool_joins, pool_why, thread_sites = analyse_pool(trees.setdefault("scrapli/decorators.py", parse("scrapli/decorators.py")))

    lines = ["(* generated from the source tree by gen/gen_timeouts.py — do not edit *)",
             "From Coq Require Import ZArith List String Bool.", "Import ListNotations.", "Open Scope string_scope.", ""]
    lines.append("Definition gen_timeout_methods : list (string * string * string) := [")
    lines.append(";\n".join("  (%s, %s, %s)" % tuple(coq_str(x) for x in m) for m in sorted(methods)))
    lines.append("].\n")
    lines.append("Definition gen_decorated : list (string * string) := [")
    lines.append(";\n".join("  (%s, %s)" % (coq_str(c), coq_str(m)) for c, m in sorted(decorated)))
    lines.append("].\n")
    lines.append("Definition gen_defaults : list (string * string * string * option Z) := [")
    lines.append(";\n".join("  (%s, %s, %s, %s)" % (coq_str(c), coq_str(m), coq_str(p), "None" if d is None else "Some " + coq_z(d))
                            for c, m, p, d in sorted(defaults, key=lambda x: x[:3])))
    lines.append("].\n")
    lines.append("Definition gen_handovers : list (string * string * string * bool) := [")
    lines.append(";\n".join("  (%s, %s, %s, %s)" % (coq_str(c), coq_str(a), coq_str(b), "true" if k else "false")
                            for c, a, b, k in sorted(handovers)))
    lines.append("].\n")
    lines.append("Definition gen_timeout_ops_unused : list (string * string) := [%s].\n" % "; ".join(
        "(%s, %s)" % (coq_str(c), coq_str(m)) for c, m in sorted(unused)))
    lines.append("Definition gen_read_duration_when_none : list (string * Z) := [%s].\n" % "; ".join(
        "(%s, %s)" % (coq_str(c), coq_z(d)) for c, d in none_defaults))
    lines.append("Definition gen_next_timeout_default : Z := %s.\n" % coq_z(next_timeout))
    lines.append("(* site, assignments that set a timeout, of those covered by a try whose finally restores, restores in a finally, restores elsewhere *)")
    lines.append("Definition gen_swap_sites : list (string * (nat * nat * nat * nat)) := [")
    lines.append(";\n".join("  (%s, (%d, %d, %d, %d)%%nat)" % (coq_str(n), r["sets"], r["guarded"], r["rin"], r["rout"]) for n, r in sites))
    lines.append("].\n")
    lines.append("(* site, restores whose value is a local of the function's own frame, restores (in a finally) from anywhere else *)")
    lines.append("Definition gen_saved_in_frame : list (string * (nat * nat)) := [")
    lines.append(";\n".join("  (%s, (%d, %d)%%nat)" % (coq_str(n), r["frame"], r["elsewhere"]) for n, r in saved_sites))
    lines.append("].\n")
    lines.append("(* every swap site keeps the value it puts back in a local of the call's frame *)")
    lines.append("Definition gen_saved_local : bool := %s.\n" % ("true" if saved_local else "false"))
    lines.append("Definition gen_other_swap_sites : list string := [%s].\n" % "; ".join(coq_str(x) for x in others))
    lines.append("(* the thread based timeout: leaving the executor joins the worker; the functions of decorators.py that start threads *)")
    lines.append("Definition gen_pool_joins : bool := %s.\n" % ("true" if pool_joins else "false"))
    lines.append("Definition gen_thread_sites : list string := [%s].\n" % "; ".join(coq_str(x) for x in thread_sites))
    text = "\n".join(lines)
    path = os.path.join(outdir, "Gen_Timeouts.v")
    if not os.path.exists(path) or open(path).read() != text:
        open(path, "w").write(text)
    info = {"methods": len(methods), "decorated": ["%s.%s" % d for d in sorted(decorated)],
            "handovers": len(handovers), "handovers_not_by_keyword": ["%s.%s->%s" % h[:3] for h in handovers if not h[3]],
            "swap_sites": {n: r for n, r in sites}, "saved_in_frame": {n: r for n, r in saved_sites}, "saved_local": saved_local,
            "other_swap_sites": others,
            "next_timeout_default_ms": next_timeout, "read_duration_when_none_ms": dict(none_defaults),
            "pool_joins": pool_joins, "pool_joins_why_not": pool_why, "thread_sites": thread_sites}
    return path, info


if __name__ == "__main__":
    p, i = generate(sys.argv[1])
    print(open(p).read())
    print(i)
