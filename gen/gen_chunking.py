"""Gen_Chunking.v — what C02's model and theorems take from the CURRENT source tree (fail-closed):

* gen_ansi      ANSI_ESCAPE_PATTERN translated with CPython's own parser (gen/regex.py)
* gen_partial   ANSI_ESCAPE_PARTIAL_PATTERN without its final \\Z; gen_hb its hold-back bound
* structure of ANSI_ESCAPE_OR_PARTIAL_PATTERN: exactly  <ANSI_ESCAPE_PATTERN> | (?P<partial><PARTIAL>)
* BaseChannelArgs defaults: search depth, return char, prompt / login / password / passphrase patterns
  as the channel compiles them (flags read from the compiled objects of a constructed channel)
"""
import os
import re
import re._constants as C
import re._parser as _parser
import sys

from gen import regex as rx


def _norm(parsed):
    """parse tree with group numbers erased (they shift when a pattern is embedded in another)"""
    out = []
    for op, av in parsed:
        if op is C.SUBPATTERN:
            _, add, dele, p = av
            out.append(("SUB", add, dele, _norm(p)))
        elif op is C.BRANCH:
            out.append(("BR", [_norm(b) for b in av[1]]))
        elif op in (C.MAX_REPEAT, C.MIN_REPEAT):
            out.append((str(op), int(av[0]), str(av[1]), _norm(av[2])))
        elif op is C.IN:
            out.append(("IN", repr(av)))
        else:
            out.append((str(op), repr(av)))
    return out


def _bounds(node, acc):
    k = node[0]
    if k == "rep":
        if node[3] is not None and node[3] > 1:
            acc.append(node[3])
        _bounds(node[1], acc)
    elif k in ("cat", "alt"):
        for it in node[1]:
            _bounds(it, acc)
    return acc


def coq_bytes(b):
    return "[" + ";".join(str(x) for x in b) + "]"


def generate(outdir):
    import scrapli.channel.base_channel as bc
    from scrapli.channel.base_channel import BaseChannelArgs
    from scrapli.channel.sync_channel import Channel

    lines = ["(* generated from the source tree by gen/gen_chunking.py — do not edit *)",
             "From Verif Require Import Bytes Regex.", ""]
    info = {}
    ansi = bc.ANSI_ESCAPE_PATTERN
    if not isinstance(ansi.pattern, bytes) or ansi.flags & ~re.X:
        raise rx.Unsupported("ANSI_ESCAPE_PATTERN: unexpected type / flags %r" % (ansi.flags,))
    t_ansi, _ = rx.translate(ansi.pattern, ansi.flags)
    lines.append("Definition gen_ansi : re := %s." % t_ansi)

    part = getattr(bc, "ANSI_ESCAPE_PARTIAL_PATTERN", None)
    comb = getattr(bc, "ANSI_ESCAPE_OR_PARTIAL_PATTERN", None)
    if part is None or comb is None:
        raise rx.Unsupported("hold-back patterns missing (ANSI_ESCAPE_PARTIAL_PATTERN / ANSI_ESCAPE_OR_PARTIAL_PATTERN)")
    if part.flags & ~0 or not part.pattern.endswith(rb"\Z"):
        raise rx.Unsupported("ANSI_ESCAPE_PARTIAL_PATTERN: flags %r / no final \\Z" % (part.flags,))
    body = part.pattern[:-2]
    pp, pb = _parser.parse(part.pattern, part.flags), _parser.parse(body, part.flags)
    if _norm(pp) != _norm(pb) + [(str(C.AT), repr(C.AT_END_STRING))]:
        raise rx.Unsupported("ANSI_ESCAPE_PARTIAL_PATTERN is not <body>\\Z")
    t_part, n_part = rx.translate(body, part.flags)
    lines.append("Definition gen_partial : re := %s." % t_part)
    bounds = sorted(set(_bounds(n_part, [])))
    if len(bounds) != 1 or not (1 <= bounds[0] <= 1024):
        raise rx.Unsupported("hold-back bounds %r" % (bounds,))
    lines.append("Definition gen_hb : nat := %d%%nat." % bounds[0])
    info["hold_back_bound"] = bounds[0]
    # the combined pattern: <ANSI> | (?P<partial> <PARTIAL>), verbose flag only
    if comb.flags & ~re.X:
        raise rx.Unsupported("ANSI_ESCAPE_OR_PARTIAL_PATTERN flags %r" % (comb.flags,))
    pc = _parser.parse(comb.pattern, comb.flags)
    want = [("BR", [_norm(_parser.parse(ansi.pattern, ansi.flags)),
                    [("SUB", 0, 0, _norm(_parser.parse(part.pattern, part.flags)))]])]
    if _norm(pc) != want or list(comb.groupindex) != ["partial"]:
        raise rx.Unsupported("ANSI_ESCAPE_OR_PARTIAL_PATTERN is not <ANSI_ESCAPE_PATTERN>|(?P<partial><PARTIAL>)")

    args = BaseChannelArgs()
    if not isinstance(args.comms_prompt_search_depth, int) or not (1 <= args.comms_prompt_search_depth <= 100000):
        raise rx.Unsupported("search depth %r" % (args.comms_prompt_search_depth,))
    lines.append("Definition gen_depth : nat := %d%%nat." % args.comms_prompt_search_depth)
    ret = args.comms_return_char.encode()
    lines.append("Definition gen_ret : bytes := %s." % coq_bytes(ret))
    lines.append("Definition gen_rough_default : bool := %s." % ("true" if args.comms_roughly_match_inputs else "false"))

    class _T:
        class _A:
            host, port, logging_uid = "h", 23, ""
        _base_transport_args = _A()
    ch = Channel(transport=_T(), base_channel_args=args)
    pats = {"prompt": ch._get_prompt_pattern(class_pattern=args.comms_prompt_pattern),
            "login": ch.auth_telnet_login_pattern, "password": ch.auth_password_pattern,
            "passphrase": ch.auth_passphrase_pattern}
    for name, cp in pats.items():
        t, _ = rx.translate(cp.pattern, cp.flags & ~re.U if isinstance(cp.pattern, bytes) else cp.flags)
        lines.append("Definition gen_%s : re := %s." % (name, t))
        info[name] = cp.pattern.decode("latin-1")
    text = "\n".join(lines) + "\n"
    path = os.path.join(outdir, "Gen_Chunking.v")
    if not os.path.exists(path) or open(path).read() != text:
        open(path, "w").write(text)
    info["ansi"] = ansi.pattern.decode("latin-1")
    info["partial"] = part.pattern.decode("latin-1")
    return path, info


if __name__ == "__main__":
    print(generate(sys.argv[1]))
