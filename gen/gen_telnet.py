"""Gen_Telnet.v — Telnet constants and limits of the current source tree (fail-closed)."""
import os
import sys


def generate(outdir):
    from scrapli.transport.base import telnet_common as tc
    from scrapli.transport.base.base_transport import BaseTransportArgs
    from scrapli.transport.plugins.asynctelnet.transport import AsynctelnetTransport
    from scrapli.transport.plugins.asynctelnet.transport import PluginTransportArgs as APA
    from scrapli.transport.plugins.telnet.transport import PluginTransportArgs as SPA
    from scrapli.transport.plugins.telnet.transport import TelnetTransport

    def one(b):
        if not (isinstance(b, bytes) and len(b) == 1):
            raise ValueError("telnet constant is not a single byte: %r" % (b,))
        return b[0]

    bta = BaseTransportArgs(transport_options={}, host="h", port=23, timeout_socket=1, timeout_transport=1)
    s = TelnetTransport(bta, SPA())
    a = AsynctelnetTransport(bta, APA())
    lines = ["(* generated from /repo by gen/gen_telnet.py — do not edit *)",
             "From Coq Require Import NArith.", "Open Scope N_scope."]
    for name, val in [("IAC", tc.IAC), ("DONT", tc.DONT), ("DO", tc.DO), ("WONT", tc.WONT),
                      ("WILL", tc.WILL), ("SGA", tc.SUPPRESS_GO_AHEAD), ("NULL", tc.NULL)]:
        lines.append("Definition gen_%s : N := %d." % (name, one(val)))
    for name, obj in [("sync", s), ("async", a)]:
        lim = obj._control_char_sent_limit
        if not isinstance(lim, int) or lim < 0 or lim > 1000:
            raise ValueError("unexpected limit %r" % (lim,))
        lines.append("Definition gen_limit_%s : nat := %d%%nat." % (name, lim))
    text = "\n".join(lines) + "\n"
    path = os.path.join(outdir, "Gen_Telnet.v")
    if not os.path.exists(path) or open(path).read() != text:
        open(path, "w").write(text)
    return path, {"limit_sync": s._control_char_sent_limit, "limit_async": a._control_char_sent_limit}


if __name__ == "__main__":
    print(generate(sys.argv[1]))
