"""Gen_Log.v — the data of scrapli/logging.py and the structure of Channel.read / BaseChannel.write in the
current source tree: format strings (parsed with string.Formatter), the integer literals of formatMessage,
the header record, the read prefixes, the hot-path log templates, the statement sequence of read(), the
call sites of transport.read, defaults of enable_basic_logging / get_instance_logger / BaseChannelArgs.
Fail-closed: anything the translator does not understand raises."""
import ast
import inspect
import os
import re
import string
import sys
import tempfile

FIELDS = {"message_id": "FId", "asctime": "FTime", "levelname": "FLevel", "target": "FTarget",
          "module": "FModule", "funcName": "FFunc", "lineno": "FLineno", "message": "FMessage"}


def cstr(s):
    if not isinstance(s, str):
        raise ValueError("not a str: %r" % (s,))
    return "[" + ";".join(str(ord(c)) for c in s) + "]"


def pieces(fmt):
    out = []
    for lit, name, spec, conv in string.Formatter().parse(fmt):
        if lit:
            out.append("Lit %s" % cstr(lit))
        if name is None:
            continue
        if conv is not None or name not in FIELDS:
            raise ValueError("unexpected replacement field %r in %r" % (name, fmt))
        m = re.fullmatch(r"( ?<(\d+))?", spec or "")
        if not m:
            raise ValueError("unexpected format spec %r in %r" % (spec, fmt))
        out.append("Fld %s %d" % (FIELDS[name], int(m.group(2) or 0)))
    return "[" + "; ".join(out) + "]"


def _func(tree, cls, name):
    for node in ast.walk(tree):
        if isinstance(node, ast.ClassDef) and node.name == cls:
            for f in node.body:
                if isinstance(f, (ast.FunctionDef, ast.AsyncFunctionDef)) and f.name == name:
                    return f
    raise ValueError("%s.%s not found" % (cls, name))


def _body_wo_doc(f):
    body = list(f.body)
    if body and isinstance(body[0], ast.Expr) and isinstance(body[0].value, ast.Constant) and isinstance(body[0].value.value, str):
        body = body[1:]
    return body


READ_STEPS = {
    "buf = self.transport.read()": 1,
    "buf = buf.replace(b'\\r', b'')": 2,
    "self.logger.debug('read: %r', buf)": 3,
    "if self.channel_log:\n    self.channel_log.write(buf)": 4,
    "if b'\\x1b' in buf.lower():\n    buf = self._strip_ansi(buf=buf)": 5,
    "return buf": 6,
    # since fix a8860f6 (C02): a trailing partial escape sequence is carried over to the next read — AFTER the record
    # and the channel-log write, so both still see exactly the bytes read
    "buf = self._hold_back_partial_ansi(buf=buf)": 7,
}


# Driver.open / AsyncDriver.open (await removed): the channel (log) is opened right after the transport, BEFORE anything
# that reads the channel — the in-channel logins and on_open
OPEN_STEPS = {
    "self._pre_open_closing_log(closing=False)": 1,
    "self.transport.open()": 2,
    "self.channel.open()": 3,
    "if self.transport_name in ('system',) and (not self.auth_bypass):\n"
    "    self.channel.channel_authenticate_ssh(auth_password=self.auth_password, "
    "auth_private_key_passphrase=self.auth_private_key_passphrase)": 4,
    "if 'telnet' in self.transport_name and (not self.auth_bypass):\n"
    "    self.channel.channel_authenticate_telnet(auth_username=self.auth_username, auth_password=self.auth_password)": 5,
    "if self.on_open:\n    self.on_open(self)": 6,
    "self._post_open_closing_log(closing=False)": 7,
}


def open_steps(f):
    return [OPEN_STEPS.get(ast.unparse(st).replace("await ", ""), 0) for st in _body_wo_doc(f)]


def read_steps(f):
    out = []
    for st in _body_wo_doc(f):
        src = ast.unparse(st).replace("await ", "")
        out.append(READ_STEPS.get(src, 0))
    return out


def transport_read_sites(tree):
    sites = []

    class V(ast.NodeVisitor):
        def __init__(self):
            self.stack = []

        def visit_FunctionDef(self, node):
            self.stack.append(node.name)
            self.generic_visit(node)
            self.stack.pop()

        visit_AsyncFunctionDef = visit_FunctionDef

        def visit_Attribute(self, node):
            if node.attr in ("read", "_read") and isinstance(node.value, ast.Attribute) and node.value.attr == "transport":
                sites.append(self.stack[-1] if self.stack else "<module>")
            self.generic_visit(node)

    V().visit(tree)
    return sites


def log_templates(f):
    """first argument and number of further arguments of every self.logger.<level>(...) call in f"""
    out = []
    for node in ast.walk(f):
        if (isinstance(node, ast.Call) and isinstance(node.func, ast.Attribute)
                and isinstance(node.func.value, ast.Attribute) and node.func.value.attr == "logger"):
            if not node.args or not isinstance(node.args[0], ast.Constant) or not isinstance(node.args[0].value, str):
                raise ValueError("log call with a non-constant template in %s: %s" % (f.name, ast.unparse(node)))
            if node.keywords:
                raise ValueError("log call with keywords in %s" % f.name)
            out.append((node.args[0].value, len(node.args) - 1, node.lineno))
    out.sort(key=lambda t: t[2])
    return [(t, n) for t, n, _ in out]


def _eval_on(obj, node):
    """value of a small expression of the handler's code on a live handler: a literal, self.<attr>, len(<expr>)"""
    if isinstance(node, ast.Constant):
        return node.value
    if isinstance(node, ast.Attribute) and isinstance(node.value, ast.Name) and node.value.id == "self":
        return getattr(obj, node.attr)
    if isinstance(node, ast.Call) and isinstance(node.func, ast.Name) and node.func.id == "len" and len(node.args) == 1 and not node.keywords:
        return len(_eval_on(obj, node.args[0]))
    raise ValueError("cannot evaluate %s" % ast.unparse(node))


def _state_attrs(f):
    """names of the attributes of self that f assigns, augments or mutates through a method call statement"""
    out = []
    for node in ast.walk(f):
        tgts = []
        if isinstance(node, ast.Assign):
            tgts = node.targets
        elif isinstance(node, (ast.AugAssign, ast.AnnAssign)):
            tgts = [node.target]
        elif isinstance(node, ast.Expr) and isinstance(node.value, ast.Call) and isinstance(node.value.func, ast.Attribute):
            tgts = [node.value.func.value]          # self.<attr>.append(...) / .clear() / .extend(...)
        for t in tgts:
            if isinstance(t, ast.Attribute) and isinstance(t.value, ast.Name) and t.value.id == "self":
                out.append(t.attr)
    return out


def generate(outdir):
    import scrapli.logging as sl
    from scrapli.channel import async_channel, base_channel, sync_channel
    from scrapli.channel.base_channel import BaseChannelArgs

    src = inspect.getsource(sl)
    tree = ast.parse(src)
    lines = ["(* generated from the scrapli source tree by gen/gen_log.py; do not edit *)",
             "From Verif Require Import Bytes LogFormat.", ""]
    info = {}
    # 1. format strings
    f0, f1 = sl.ScrapliFormatter(caller_info=False), sl.ScrapliFormatter(caller_info=True)
    for f in (f0, f1):
        if f._style.__class__.__name__ != "StrFormatStyle":
            raise ValueError("formatter style changed: %s" % f._style.__class__.__name__)
    lines.append("Definition gen_fmt_plain : list piece := %s." % pieces(f0._fmt))
    lines.append("Definition gen_fmt_caller : list piece := %s." % pieces(f1._fmt))
    info["fmt_plain"] = f0._fmt
    if f0.log_header is not True or f0.message_id != 1:
        raise ValueError("formatter defaults changed")
    lines.append("Definition gen_first_id : N := %d." % f0.message_id)
    # 2. integer literals of formatMessage, in source order
    fm = _func(tree, "ScrapliFormatter", "formatMessage")
    ints = [(n.lineno, n.col_offset, n.value) for n in ast.walk(fm)
            if isinstance(n, ast.Constant) and isinstance(n.value, int) and not isinstance(n.value, bool)]
    ints = [v for _, _, v in sorted(ints)]
    if any(v < 0 or v > 10000 for v in ints):
        raise ValueError("unexpected integer literal in formatMessage: %r" % ints)
    lines.append("Definition gen_format_ints : list nat := [%s]%%nat." % "; ".join(str(v) for v in ints))
    info["format_ints"] = ints
    strs = [(n.lineno, n.col_offset, n.value) for n in ast.walk(fm)
            if isinstance(n, ast.Constant) and isinstance(n.value, str) and n is not getattr(fm.body[0], "value", None)]
    strs = [v for _, _, v in sorted(strs)]
    lines.append("Definition gen_format_strs : list str := [%s]." % "; ".join(cstr(v) for v in strs))
    info["format_strs"] = strs
    # 3. header record as formatMessage completes it (probe record without extras: target "")
    import logging
    rec = logging.LogRecord("x", 20, "p.py", 1, "m", (), None, "f")
    rec.message = "m"
    rec.asctime = "t"
    f0.formatMessage(rec)
    h = f0.header_record
    for name, val in [("id", h.message_id), ("time", h.asctime), ("level", h.levelname), ("target", h.target),
                      ("module", h.module), ("func", h.funcName), ("lineno", h.lineno), ("message", h.message)]:
        lines.append("Definition gen_h_%s : str := %s." % (name, cstr(val)))
    # 4. handler constants.  The names of the handler's attributes are DISCOVERED from the code that uses them (what emit()
    # tests the message against, where it cuts the payload, which attributes emit / emit_buffered write), never assumed:
    # a renamed or restructured buffer with the same behaviour regenerates the same definitions.
    em = _func(tree, "ScrapliFileHandler", "emit")
    eb = _func(tree, "ScrapliFileHandler", "emit_buffered")
    with tempfile.TemporaryDirectory() as d:
        probe_path = os.path.join(d, "x.log")
        fh = sl.ScrapliFileHandler(probe_path, mode="w", delay=True)
        prefixes = set(_eval_on(fh, n.args[0]) for n in ast.walk(em)
                       if isinstance(n, ast.Call) and isinstance(n.func, ast.Attribute) and n.func.attr == "startswith" and len(n.args) == 1)
        if len(prefixes) != 1 or not isinstance(next(iter(prefixes)), str):
            raise ValueError("emit: cannot find the one prefix the message is tested against: %r" % (prefixes,))
        prefix = next(iter(prefixes))
        cuts = set(_eval_on(fh, n.lower) for n in ast.walk(em)
                   if isinstance(n, ast.Slice) and n.lower is not None and n.upper is None and n.step is None)
        if len(cuts) != 1:
            raise ValueError("emit: cannot find where the payload is cut out of the message: %r" % (cuts,))
        plen = next(iter(cuts))
        state = sorted(set(_state_attrs(em)) | set(_state_attrs(eb)))
        if not state:
            raise ValueError("handler keeps no state between emits")
        for a in state:         # a fresh handler has nothing pending, whatever the buffer is made of
            v = getattr(fh, a)
            if v is not None and not (isinstance(v, (bytes, bytearray, str, list, tuple)) and len(v) == 0):
                raise ValueError("handler initial state changed: %s = %r" % (a, v))
        fh.close()
        if os.path.exists(probe_path):
            raise ValueError("a fresh (delayed) handler wrote something at close")
    info["handler_state_attrs"] = state
    if not isinstance(plen, int) or isinstance(plen, bool) or plen < 0 or plen > 100:
        raise ValueError("prefix length %r" % (plen,))
    lines.append("Definition gen_read_prefix : str := %s." % cstr(prefix))
    lines.append("Definition gen_read_prefix_len : nat := %d%%nat." % plen)
    # the coalesced message: <record>.msg = f"<literal>{<the buffered payload, whatever it is called>!r}"
    outs = []
    for node in ast.walk(eb):
        if not (isinstance(node, ast.Assign) and len(node.targets) == 1 and isinstance(node.targets[0], ast.Attribute)
                and node.targets[0].attr == "msg" and isinstance(node.value, ast.JoinedStr)):
            continue
        vals = node.value.values
        if (len(vals) == 2 and isinstance(vals[0], ast.Constant) and isinstance(vals[0].value, str)
                and isinstance(vals[1], ast.FormattedValue) and vals[1].conversion == 114 and vals[1].format_spec is None):
            outs.append(vals[0].value)
        else:
            raise ValueError("emit_buffered: unexpected shape of the coalesced message: %s" % ast.unparse(node))
    if len(outs) != 1:
        raise ValueError("emit_buffered: cannot find the f-string building the coalesced message")
    lines.append("Definition gen_read_out : str := %s." % cstr(outs[0]))
    info["read_prefix"], info["read_out"] = prefix, outs[0]
    # 5. hot path: read() of both channels, write() of the base channel
    st = ast.parse(inspect.getsource(sync_channel))
    at = ast.parse(inspect.getsource(async_channel))
    bt = ast.parse(inspect.getsource(base_channel))
    rs, ra = _func(st, "Channel", "read"), _func(at, "AsyncChannel", "read")
    if not isinstance(ra, ast.AsyncFunctionDef) or not isinstance(rs, ast.FunctionDef):
        raise ValueError("read() kinds changed")
    lines.append("Definition gen_read_steps_sync : list nat := [%s]%%nat." % "; ".join(map(str, read_steps(rs))))
    lines.append("Definition gen_read_steps_async : list nat := [%s]%%nat." % "; ".join(map(str, read_steps(ra))))
    info["read_steps"] = [read_steps(rs), read_steps(ra)]
    for nm, t in (("sync", st), ("async", at)):
        sites = transport_read_sites(t)
        lines.append("Definition gen_transport_read_sites_%s : list str := [%s]." % (nm, "; ".join(cstr(s) for s in sites)))
        info["transport_read_sites_" + nm] = sites
    sites = transport_read_sites(bt)
    lines.append("Definition gen_transport_read_sites_base : list str := [%s]." % "; ".join(cstr(s) for s in sites))
    for nm, f in (("read_sync", rs), ("read_async", ra), ("write", _func(bt, "BaseChannel", "write"))):
        tl = log_templates(f)
        lines.append("Definition gen_templates_%s : list (str * nat) := [%s]." % (
            nm, "; ".join("(%s, %d%%nat)" % (cstr(t), n) for t, n in tl)))
        info["templates_" + nm] = tl
    # 5b. Driver.open / AsyncDriver.open: statement order (channel.open() before the in-channel logins and on_open), and
    # nothing in the driver modules reads the transport behind the channel's back
    from scrapli.driver.base import async_driver, sync_driver
    sdt, adt = ast.parse(inspect.getsource(sync_driver)), ast.parse(inspect.getsource(async_driver))
    osync, oasync = _func(sdt, "Driver", "open"), _func(adt, "AsyncDriver", "open")
    if not isinstance(oasync, ast.AsyncFunctionDef) or not isinstance(osync, ast.FunctionDef):
        raise ValueError("open() kinds changed")
    lines.append("Definition gen_open_steps_sync : list nat := [%s]%%nat." % "; ".join(map(str, open_steps(osync))))
    lines.append("Definition gen_open_steps_async : list nat := [%s]%%nat." % "; ".join(map(str, open_steps(oasync))))
    info["open_steps"] = [open_steps(osync), open_steps(oasync)]
    for nm, t in (("sync", sdt), ("async", adt)):
        sites = transport_read_sites(t)
        lines.append("Definition gen_transport_read_sites_driver_%s : list str := [%s]." % (nm, "; ".join(cstr(s) for s in sites) or ""))
        info["transport_read_sites_driver_" + nm] = sites
    # 6. defaults
    sig = inspect.signature(sl.enable_basic_logging)
    d = {k: v.default for k, v in sig.parameters.items()}
    if list(d) != ["file", "level", "caller_info", "buffer_log", "mode"]:
        raise ValueError("enable_basic_logging signature changed: %r" % list(d))
    for k in ("file", "caller_info", "buffer_log"):
        if not isinstance(d[k], bool):
            raise ValueError("default of %s is not a bool" % k)
        lines.append("Definition gen_default_%s : bool := %s." % (k, "true" if d[k] else "false"))
    lines.append("Definition gen_default_mode : str := %s." % cstr(d["mode"]))
    lines.append("Definition gen_default_level : str := %s." % cstr(d["level"]))
    sig = inspect.signature(sl.get_instance_logger)
    d = {k: v.default for k, v in sig.parameters.items()}
    if list(d) != ["instance_name", "host", "port", "uid"] or d["host"] != "" or d["port"] != 0 or d["uid"] != "":
        raise ValueError("get_instance_logger signature changed: %r" % d)
    bca = BaseChannelArgs()
    if bca.channel_log is not False:
        raise ValueError("channel_log default changed")
    lines.append("Definition gen_channel_log_mode_default : str := %s." % cstr(bca.channel_log_mode))
    # extras built by get_instance_logger on a probe grid (keys only; values are checked by the correspondence)
    grid = []
    for host in ("", "h"):
        for port in (0, 22):
            for uid in ("", "u"):
                ex = sl.get_instance_logger("scrapli.gen", host=host, port=port, uid=uid).extra
                keys = sorted(ex)
                for k in keys:
                    if k not in ("host", "port", "uid") or not isinstance(ex[k], str):
                        raise ValueError("unexpected extra %r" % (ex,))
                grid.append("((%s, %d, %s), (%s, %s, %s))" % (
                    cstr(host), port, cstr(uid),
                    "Some %s" % cstr(ex["host"]) if "host" in ex else "None",
                    "Some %s" % cstr(ex["port"]) if "port" in ex else "None",
                    "Some %s" % cstr(ex["uid"]) if "uid" in ex else "None"))
    lines.append("Definition gen_extras_grid : list ((str * N * str) * (option str * option str * option str)) := [%s]." % ";\n  ".join(grid))
    text = "\n".join(lines) + "\n"
    path = os.path.join(outdir, "Gen_Log.v")
    if not os.path.exists(path) or open(path, encoding="utf-8").read() != text:
        with open(path, "w", encoding="utf-8") as f:
            f.write(text)
    return path, info


if __name__ == "__main__":
    print(generate(sys.argv[1]))
