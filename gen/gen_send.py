"""Gen_Send.v — per-platform send data of the current source tree (fail-closed):
FAILED_WHEN_CONTAINS, default_desired_privilege_level, privilege level names with the
"pattern contains config\\-s" flag (one registered session on NX-OS / EOS), the shape of each
platform's _abort_config (sync and asyncio twin separately, read from the AST) and a few
structural facts of GenericDriver.send_commands / _post_send_config."""
import ast
import inspect
import os
import sys
import textwrap

PLATFORMS = ["network", "cisco_iosxe", "cisco_iosxr", "cisco_nxos", "arista_eos", "juniper_junos"]
SESSION_NAME = "sess1"
SESSION_PLATFORMS = ("cisco_nxos", "arista_eos")


def coq_bytes(s):
    b = s.encode("utf-8") if isinstance(s, str) else bytes(s)
    return "[" + ";".join(str(x) for x in b) + "]"


def coq_list(items):
    return "[" + "; ".join(items) + "]"


def _driver(kind, stack):
    from copy import deepcopy

    import scrapli.driver.core as core
    from scrapli.driver import AsyncNetworkDriver, NetworkDriver
    sync = stack == "sync"
    cls = {
        "network": NetworkDriver if sync else AsyncNetworkDriver,
        "cisco_iosxe": core.IOSXEDriver if sync else core.AsyncIOSXEDriver,
        "cisco_iosxr": core.IOSXRDriver if sync else core.AsyncIOSXRDriver,
        "cisco_nxos": core.NXOSDriver if sync else core.AsyncNXOSDriver,
        "arista_eos": core.EOSDriver if sync else core.AsyncEOSDriver,
        "juniper_junos": core.JunosDriver if sync else core.AsyncJunosDriver,
    }[kind]
    args = dict(host="gen", transport="telnet" if sync else "asynctelnet", auth_bypass=True)
    if kind == "network":
        from scrapli.driver.core.cisco_iosxe.base_driver import PRIVS
        args.update(privilege_levels=deepcopy(PRIVS), default_desired_privilege_level="privilege_exec")
    d = cls(**args)
    if kind in SESSION_PLATFORMS:
        d.register_configuration_session(session_name=SESSION_NAME)
    return d


def _is_self_attr(node, *names):
    """node is self.a.b.c for names = (a, b, c)"""
    for n in reversed(names):
        if not (isinstance(node, ast.Attribute) and node.attr == n):
            return False
        node = node.value
    return isinstance(node, ast.Name) and node.id == "self"


def abort_shape(cls):
    """interpret the effective _abort_config of a driver class; anything unexpected raises"""
    src = textwrap.dedent(inspect.getsource(cls._abort_config))
    fn = ast.parse(src).body[0]
    if not isinstance(fn, (ast.FunctionDef, ast.AsyncFunctionDef)) or fn.name != "_abort_config":
        raise ValueError("unexpected _abort_config definition")
    body = list(fn.body)
    if body and isinstance(body[0], ast.Expr) and isinstance(body[0].value, ast.Constant) and isinstance(body[0].value.value, str):
        body = body[1:]
    body = [s for s in body if not isinstance(s, ast.Pass)]
    shape = {"guard": False, "lines": [], "via_configs": False, "keep_level": False, "after": None}
    if len(body) == 1 and isinstance(body[0], ast.If):
        t = body[0].test
        if not (isinstance(t, ast.Compare) and len(t.ops) == 1 and isinstance(t.ops[0], ast.In)
                and isinstance(t.left, ast.Constant) and t.left.value == "config\\-s"
                and _is_self_attr(t.comparators[0], "_current_priv_level", "pattern") and not body[0].orelse):
            raise ValueError("unexpected guard in _abort_config: %s" % ast.dump(t))
        shape["guard"] = True
        body = list(body[0].body)
    seen_send = False
    for st in body:
        if isinstance(st, ast.Expr):
            call = st.value.value if isinstance(st.value, ast.Await) else st.value
            if not isinstance(call, ast.Call) or seen_send or shape["after"] is not None:
                raise ValueError("unexpected statement in _abort_config: %s" % ast.dump(st))
            seen_send = True
            if _is_self_attr(call.func, "channel", "send_input"):
                if call.args or len(call.keywords) != 1 or call.keywords[0].arg != "channel_input" \
                        or not isinstance(call.keywords[0].value, ast.Constant) or not isinstance(call.keywords[0].value.value, str):
                    raise ValueError("unexpected send_input call in _abort_config")
                shape["lines"] = [call.keywords[0].value.value]
            elif _is_self_attr(call.func, "send_configs"):
                kws = {k.arg: k.value for k in call.keywords}
                arg = call.args[0] if call.args else kws.pop("configs", None)
                if len(call.args) > 1 or not isinstance(arg, ast.List) or not all(
                        isinstance(e, ast.Constant) and isinstance(e.value, str) for e in arg.elts):
                    raise ValueError("unexpected send_configs call in _abort_config")
                shape["lines"] = [e.value for e in arg.elts]
                shape["via_configs"] = True
                if "privilege_level" in kws:
                    if not _is_self_attr(kws.pop("privilege_level"), "_current_priv_level", "name"):
                        raise ValueError("unexpected privilege_level argument in _abort_config")
                    shape["keep_level"] = True
                if kws:
                    raise ValueError("unexpected keyword(s) %s in _abort_config's send_configs" % sorted(kws))
            else:
                raise ValueError("unexpected call in _abort_config: %s" % ast.dump(call.func))
        elif isinstance(st, ast.Assign):
            v = st.value
            if not (len(st.targets) == 1 and _is_self_attr(st.targets[0], "_current_priv_level") and isinstance(v, ast.Subscript)
                    and _is_self_attr(v.value, "privilege_levels") and isinstance(v.slice, ast.Constant)
                    and isinstance(v.slice.value, str) and seen_send and shape["after"] is None):
                raise ValueError("unexpected assignment in _abort_config: %s" % ast.dump(st))
            shape["after"] = v.slice.value
        else:
            raise ValueError("unexpected statement in _abort_config: %s" % ast.dump(st))
    return shape


def coq_shape(s):
    return "mkA %s %s %s %s %s" % (
        "true" if s["guard"] else "false", coq_list([coq_bytes(x) for x in s["lines"]]),
        "true" if s["via_configs"] else "false", "true" if s["keep_level"] else "false",
        "None" if s["after"] is None else "(Some %s)" % coq_bytes(s["after"]))


def send_commands_facts(cls):
    """structural facts of GenericDriver.send_commands (loop over all but the last, break after the
    append, the for's else sends commands[-1] with eager=False, early return for an empty list)"""
    src = textwrap.dedent(inspect.getsource(cls.send_commands))
    fn = ast.parse(src).body[0]
    facts = {"guard_empty": False, "slice_all_but_last": False, "append_before_break": False,
             "else_sends_last": False, "else_eager_false": False, "break_on_stop_and_failed": False}
    fors = [n for n in ast.walk(fn) if isinstance(n, (ast.For, ast.AsyncFor))]
    if len(fors) != 1:
        raise ValueError("send_commands: expected exactly one for loop")
    loop = fors[0]
    for st in fn.body:
        if st is loop:
            break
        if isinstance(st, ast.If) and isinstance(st.test, ast.UnaryOp) and isinstance(st.test.op, ast.Not) \
                and isinstance(st.test.operand, ast.Name) and st.test.operand.id == "commands" \
                and any(isinstance(x, ast.Return) for x in st.body):
            facts["guard_empty"] = True
    it = loop.iter
    if isinstance(it, ast.Subscript) and isinstance(it.value, ast.Name) and it.value.id == "commands" and isinstance(it.slice, ast.Slice) \
            and it.slice.lower is None and it.slice.step is None and isinstance(it.slice.upper, ast.UnaryOp) \
            and isinstance(it.slice.upper.op, ast.USub) and getattr(it.slice.upper.operand, "value", None) == 1:
        facts["slice_all_but_last"] = True
    ix_append = ix_break = None
    for k, st in enumerate(loop.body):
        if isinstance(st, ast.Expr) and isinstance(st.value, ast.Call) and isinstance(st.value.func, ast.Attribute) and st.value.func.attr == "append":
            ix_append = k
        if isinstance(st, ast.If) and any(isinstance(x, ast.Break) for x in st.body):
            ix_break = k
            names = {n.id for n in ast.walk(st.test) if isinstance(n, ast.Name)} | {n.attr for n in ast.walk(st.test) if isinstance(n, ast.Attribute)}
            if isinstance(st.test, ast.BoolOp) and isinstance(st.test.op, ast.And) and {"stop_on_failed", "failed"} <= names:
                facts["break_on_stop_and_failed"] = True
    facts["append_before_break"] = ix_append is not None and ix_break is not None and ix_append < ix_break
    for n in ast.walk(ast.Module(body=loop.orelse, type_ignores=[])):
        if isinstance(n, ast.Call) and isinstance(n.func, ast.Attribute) and n.func.attr == "_send_command":
            kws = {k.arg: k.value for k in n.keywords}
            c = kws.get("command")
            if isinstance(c, ast.Subscript) and isinstance(c.value, ast.Name) and c.value.id == "commands" and isinstance(c.slice, ast.UnaryOp) \
                    and isinstance(c.slice.op, ast.USub) and getattr(c.slice.operand, "value", None) == 1:
                facts["else_sends_last"] = True
            e = kws.get("eager")
            if isinstance(e, ast.Constant) and e.value is False:
                facts["else_eager_false"] = True
    return facts


def generate(outdir):
    from scrapli.driver import AsyncGenericDriver, GenericDriver
    from scrapli.response import MultiResponse, Response

    lines = ["(* generated from the source tree by gen/gen_send.py — do not edit *)",
             "From Verif Require Import Bytes Response Send.", ""]
    info = {}
    for kind in PLATFORMS:
        per = {}
        for stack in ("sync", "async"):
            d = _driver(kind, stack)
            fwc = d.failed_when_contains
            if not (isinstance(fwc, list) and all(isinstance(x, str) for x in fwc)):
                raise ValueError("%s/%s failed_when_contains is not a list of str: %r" % (kind, stack, fwc))
            levels = [(name, "config\\-s" in lvl.pattern) for name, lvl in d.privilege_levels.items()]
            if any(name != lvl.name for name, lvl in d.privilege_levels.items()):
                raise ValueError("%s/%s privilege level key differs from its name" % (kind, stack))
            per[stack] = {"markers": list(fwc), "default": d.default_desired_privilege_level, "levels": levels,
                          "abort": abort_shape(type(d))}
        for key in ("markers", "default", "levels"):
            if per["sync"][key] != per["async"][key]:
                raise ValueError("%s: sync/async twins differ in %s" % (kind, key))
        p = per["sync"]
        lines.append("Definition gen_markers_%s : list bytes := %s." % (kind, coq_list([coq_bytes(m) for m in p["markers"]])))
        lines.append("Definition gen_default_%s : bytes := %s." % (kind, coq_bytes(p["default"])))
        lines.append("Definition gen_levels_%s : list (bytes * bool) := %s." % (
            kind, coq_list(["(%s, %s)" % (coq_bytes(n), "true" if s else "false") for n, s in p["levels"]])))
        for stack in ("sync", "async"):
            lines.append("Definition gen_abort_%s_%s : abort_shape := %s." % (kind, stack, coq_shape(per[stack]["abort"])))
            lines.append("Definition gen_drv_%s_%s : drv := mkD gen_abort_%s_%s gen_levels_%s gen_default_%s gen_markers_%s." % (
                kind, stack, kind, stack, kind, kind, kind))
        lines.append("")
        info[kind] = {"markers": p["markers"], "default": p["default"], "levels": [list(x) for x in p["levels"]],
                      "abort_sync": per["sync"]["abort"], "abort_async": per["async"]["abort"]}
    lines.append("Definition gen_session_name : bytes := %s." % coq_bytes(SESSION_NAME))
    for stack, cls in (("sync", GenericDriver), ("async", AsyncGenericDriver)):
        facts = send_commands_facts(cls)
        for k, v in sorted(facts.items()):
            lines.append("Definition gen_sc_%s_%s : bool := %s." % (k, stack, "true" if v else "false"))
        info["send_commands_" + stack] = facts
    # return char, Response defaults, empty-config behaviour of _post_send_config
    d = _driver("cisco_iosxe", "sync")
    rc = d.channel._base_channel_args.comms_return_char
    if not isinstance(rc, str):
        raise ValueError("comms_return_char is not a str")
    lines.append("Definition gen_return_char : bytes := %s." % coq_bytes(rc))
    r = Response(host="h", channel_input="x", failed_when_contains="m")
    if r.failed_when_contains != ["m"] or r.failed is not True or r.result != "":
        raise ValueError("Response.__init__ no longer normalises as modelled")
    lines.append("Definition gen_response_initially_failed : bool := %s." % ("true" if r.failed else "false"))
    try:
        e = d._post_send_config(config="", multi_response=MultiResponse())
        guard_cfg = isinstance(e, Response) and e.failed is False and e.result == ""
    except IndexError:
        guard_cfg = False
    lines.append("Definition gen_guard_cfg : bool := %s." % ("true" if guard_cfg else "false"))
    info["guard_cfg"] = guard_cfg
    text = "\n".join(lines) + "\n"
    path = os.path.join(outdir, "Gen_Send.v")
    if not os.path.exists(path) or open(path).read() != text:
        open(path, "w").write(text)
    return path, info


if __name__ == "__main__":
    print(generate(sys.argv[1]))
