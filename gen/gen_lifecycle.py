"""Gen_Lifecycle.v — the lifecycle methods of the current source tree as programs of the statement
language of coq/model/Lifecycle.v (fail-closed: any statement outside the vocabulary aborts).

 * Driver.open/close/__enter__/__exit__ and AsyncDriver.open/close/__aenter__/__aexit__  (ast)
 * which protocol attributes the two Telnet transports' open() puts back to their __init__ value (ast)
 * the default on_close hooks of the five core platforms, sync and asyncio (ast), and whether the
   driver classes install them by default (import)
Logging statements (self.logger.*, _pre/_post_open_closing_log) and docstrings are dropped."""
import ast
import os
import sys

PLATFORMS = [("cisco_iosxe", "iosxe", "IOSXEDriver"), ("cisco_iosxr", "iosxr", "IOSXRDriver"),
             ("cisco_nxos", "nxos", "NXOSDriver"), ("arista_eos", "eos", "EOSDriver"),
             ("juniper_junos", "junos", "JunosDriver")]
TN_FIELDS = [("r_eof", "_eof"), ("r_raw", "_raw_buf"), ("r_cooked", "_cooked_buf"), ("r_cbuf", "_control_buf"),
             ("r_counter", "_control_char_sent_counter")]


class Unknown(ValueError):
    pass


def _attr_path(node):
    """self.a.b -> ['self','a','b'] ; None when not a pure attribute chain"""
    out = []
    while isinstance(node, ast.Attribute):
        out.append(node.attr)
        node = node.value
    if isinstance(node, ast.Name):
        out.append(node.id)
        return list(reversed(out))
    return None


def _call(node):
    """[await] f(...) -> (path, call node) ; None otherwise"""
    if isinstance(node, ast.Await):
        node = node.value
    if isinstance(node, ast.Call):
        p = _attr_path(node.func)
        if p:
            return p, node
    return None


def _is_log(path):
    return path[:2] == ["self", "logger"] or path in (["self", "_pre_open_closing_log"], ["self", "_post_open_closing_log"])


def _stmt(node, level, where):
    """one python statement -> Coq term (str) or None (dropped)"""
    if isinstance(node, ast.Expr):
        if isinstance(node.value, ast.Constant) and isinstance(node.value.value, str):
            return None
        c = _call(node.value)
        if c is None:
            raise Unknown("%s: expression statement %s" % (where, ast.dump(node)[:120]))
        path, call = c
        if _is_log(path):
            return None
        table = {
            ("m", "self.transport.open"): "Atom ATOpen", ("m", "self.channel.open"): "Atom ACOpen",
            ("m", "self.transport.close"): "Atom ATClose", ("m", "self.channel.close"): "Atom ACClose",
            ("c", "self.transport.close"): "Atom CTClose", ("c", "self.channel.close"): "Atom CCClose",
            ("c", "self.open"): "Atom CCallOpen", ("c", "self.close"): "Atom CCallClose",
        }
        key = (level, ".".join(path))
        if key in table and not call.args and not call.keywords:
            return table[key]
        raise Unknown("%s: call %s" % (where, ".".join(path)))
    if isinstance(node, ast.If) and not node.orelse and len(node.body) == 1 and level == "m":
        inner = node.body[0]
        c = _call(inner.value) if isinstance(inner, ast.Expr) else None
        if c:
            path, call = c
            tpath = _attr_path(node.test)
            for hook, atom in (("on_open", "AHookOpen"), ("on_close", "AHookClose")):
                if tpath == ["self", hook] and path == ["self", hook] and len(call.args) == 1 and \
                        isinstance(call.args[0], ast.Name) and call.args[0].id == "self" and not call.keywords:
                    return "Atom " + atom
            if path[:2] == ["self", "channel"] and len(path) == 3 and path[2].startswith("channel_authenticate_"):
                names = {n.attr for n in ast.walk(node.test) if isinstance(n, ast.Attribute)}
                if names <= {"transport_name", "auth_bypass"} and "auth_bypass" in names:
                    return "Atom AAuth"
        raise Unknown("%s: if statement %s" % (where, ast.dump(node.test)[:160]))
    if isinstance(node, ast.Try):
        if node.orelse:
            raise Unknown("%s: try/else" % where)
        body = _block(node.body, level, where)
        if node.finalbody and not node.handlers:
            return "TryFinally (%s) (%s)" % (body, _block(node.finalbody, level, where))
        if len(node.handlers) == 1 and not node.finalbody:
            h = node.handlers[0]
            if isinstance(h.type, ast.Name) and h.type.id == "Exception":
                return "TryExcept (%s) (%s)" % (body, _block(h.body, level, where, excname=h.name))
        raise Unknown("%s: try statement shape" % where)
    if isinstance(node, ast.Raise) and level == "c":
        e = node.exc
        if isinstance(e, ast.Call) and isinstance(e.func, ast.Name) and e.func.id == "ScrapliConnectionError":
            return "Atom CRaiseConn"
        raise Unknown("%s: raise %s" % (where, ast.dump(node)[:120]))
    raise Unknown("%s: statement %s" % (where, type(node).__name__))


def _block(nodes, level, where, excname=None, top=False):
    nodes = list(nodes)
    if top and nodes and isinstance(nodes[-1], ast.Return):
        r = nodes[-1].value
        if r is None or (isinstance(r, ast.Name) and r.id == "self"):
            nodes = nodes[:-1]      # falling off the end / returning self: same for the resources
    terms = [t for t in (_stmt(n, level, where) for n in nodes) if t is not None]
    merged = []
    for t in terms:
        if t == "Atom AAuth" and merged and merged[-1] == "Atom AAuth":
            continue                # the system / telnet authentication blocks exclude each other
        merged.append(t)
    if not merged:
        return "Skip"
    out = merged[-1]
    for t in reversed(merged[:-1]):
        out = "Seq (%s) (%s)" % (t, out)
    return out


def _methods(path, cls):
    tree = ast.parse(open(path).read())
    for n in tree.body:
        if isinstance(n, ast.ClassDef) and n.name == cls:
            return {f.name: f for f in n.body if isinstance(f, (ast.FunctionDef, ast.AsyncFunctionDef))}, tree
    raise Unknown("class %s not found in %s" % (cls, path))


def _resets(path, cls):
    ms, _ = _methods(path, cls)
    init, opn = ms["__init__"], ms["open"]

    def assigns(fn, toplevel):
        out = {}
        nodes = fn.body if toplevel else ast.walk(fn)
        for n in nodes:
            if isinstance(n, ast.Assign) and len(n.targets) == 1:
                p = _attr_path(n.targets[0])
                if p and p[0] == "self" and len(p) == 2:
                    out[p[1]] = ast.dump(n.value)
            elif isinstance(n, ast.AnnAssign) and n.value is not None:
                p = _attr_path(n.target)
                if p and p[0] == "self" and len(p) == 2:
                    out[p[1]] = ast.dump(n.value)
        return out

    a_init, a_open = assigns(init, False), assigns(opn, True)
    flags = []
    for _, attr in TN_FIELDS:
        if attr not in a_init:
            raise Unknown("%s.__init__ does not set %s" % (cls, attr))
        flags.append(a_open.get(attr) == a_init[attr])
    return flags


def _hook(path, fname):
    tree = ast.parse(open(path).read())
    fn = [n for n in tree.body if isinstance(n, (ast.FunctionDef, ast.AsyncFunctionDef)) and n.name == fname]
    if len(fn) != 1:
        raise Unknown("%s: %s not found" % (path, fname))
    calls = []
    for n in fn[0].body:
        if isinstance(n, ast.Expr) and isinstance(n.value, ast.Constant):
            continue
        c = _call(n.value) if isinstance(n, ast.Expr) else None
        if c is None:
            raise Unknown("%s.%s: statement %s" % (path, fname, type(n).__name__))
        p, call = c
        if p == ["conn", "acquire_priv"] and not call.args and len(call.keywords) == 1 and call.keywords[0].arg == "desired_priv" \
                and _attr_path(call.keywords[0].value) == ["conn", "default_desired_privilege_level"]:
            calls.append("HAcquirePriv")
        elif p == ["conn", "channel", "write"] and not call.args and len(call.keywords) == 1 and call.keywords[0].arg == "channel_input" \
                and isinstance(call.keywords[0].value, ast.Constant) and isinstance(call.keywords[0].value.value, str):
            calls.append("HWrite [%s]" % ";".join(str(b) for b in call.keywords[0].value.value.encode()))
        elif p == ["conn", "channel", "send_return"] and not call.args and not call.keywords:
            calls.append("HSendReturn")
        else:
            raise Unknown("%s.%s: call %s" % (path, fname, ".".join(p)))
    return "[" + "; ".join(calls) + "]"


def generate(outdir, repo=None):
    if repo is None:
        from harness import common
        repo = common.REPO
    lines = ["(* generated from the source tree by gen/gen_lifecycle.py — do not edit *)",
             "From Verif Require Import Bytes Telnet Lifecycle."]
    info = {}
    for tag, rel, cls, names in (
            ("sync", "scrapli/driver/base/sync_driver.py", "Driver", ("open", "close", "__enter__", "__exit__")),
            ("async", "scrapli/driver/base/async_driver.py", "AsyncDriver", ("open", "close", "__aenter__", "__aexit__"))):
        ms, _ = _methods(os.path.join(repo, rel), cls)
        for short, name, level, ty in zip(("open", "close", "enter", "exit"), names, "mmcc",
                                          ("matom", "matom", "catom", "catom")):
            if name not in ms:
                raise Unknown("%s.%s missing" % (cls, name))
            term = _block(ms[name].body, level, "%s.%s" % (cls, name), top=True)
            lines.append("Definition gen_%s_%s : stmt %s := %s." % (short, tag, ty, term))
            info["%s_%s" % (short, tag)] = term
    for tag, rel, cls in (("sync", "scrapli/transport/plugins/telnet/transport.py", "TelnetTransport"),
                          ("async", "scrapli/transport/plugins/asynctelnet/transport.py", "AsynctelnetTransport")):
        flags = _resets(os.path.join(repo, rel), cls)
        lines.append("Definition gen_resets_%s : resets := mkR %s." % (tag, " ".join("true" if f else "false" for f in flags)))
        info["resets_" + tag] = flags
    for tag in ("sync", "async"):
        lines.append("Definition gen_progs_%s : progs := mkP gen_open_%s gen_close_%s gen_enter_%s gen_exit_%s gen_resets_%s."
                     % (tag, tag, tag, tag, tag, tag))
    hooks, installed = [], []
    import importlib
    for plat, short, cls in PLATFORMS:
        for tag, acls in (("sync", cls), ("async", "Async" + cls)):
            rel = "scrapli/driver/core/%s/%s_driver.py" % (plat, tag)
            hooks.append(_hook(os.path.join(repo, rel), "%s_on_close" % short))
            mod = importlib.import_module("scrapli.driver.core.%s.%s_driver" % (plat, tag))
            d = getattr(mod, acls)(host="h", transport="telnet" if tag == "sync" else "asynctelnet")
            installed.append(d.on_close is getattr(mod, "%s_on_close" % short))
    lines.append("Definition gen_on_close_hooks : list (list hcall) :=\n  [" + ";\n   ".join(hooks) + "].")
    lines.append("Definition gen_on_close_installed : list bool := [%s]." % "; ".join("true" if b else "false" for b in installed))
    info["hooks"] = hooks[0]
    info["hooks_installed"] = installed
    text = "\n".join(lines) + "\n"
    path = os.path.join(outdir, "Gen_Lifecycle.v")
    if not os.path.exists(path) or open(path).read() != text:
        open(path, "w").write(text)
    return path, info


if __name__ == "__main__":
    print(generate(sys.argv[1], sys.argv[2] if len(sys.argv) > 2 else None))
