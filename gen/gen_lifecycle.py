"""Gen_Lifecycle.v — the lifecycle methods of the current source tree as programs of the statement
language of coq/model/Lifecycle.v (fail-closed: any statement outside the vocabulary aborts).

 * Driver.open/close/__enter__/__exit__ and AsyncDriver.open/close/__aenter__/__aexit__  (ast)
 * which protocol attributes the two Telnet transports' open() puts back to their __init__ value (ast)
 * the default on_close hooks of the five core platforms, sync and asyncio (ast), and whether the
   driver classes install them by default (import)
 * PtyProcess.close() as a program of the pty statement language (pstmt) and the parent part of
   PtyProcess.spawn() after pty.fork() as a list of satom  (ast)
Logging statements (self.logger.*, _pre/_post_open_closing_log) and docstrings are dropped."""
import ast
import os
import sys

PLATFORMS = [("cisco_iosxe", "iosxe", "IOSXEDriver"), ("cisco_iosxr", "iosxr", "IOSXRDriver"),
             ("cisco_nxos", "nxos", "NXOSDriver"), ("arista_eos", "eos", "EOSDriver"),
             ("juniper_junos", "junos", "JunosDriver")]
TN_FIELDS = [("r_eof", "_eof"), ("r_raw", "_raw_buf"), ("r_cooked", "_cooked_buf"), ("r_cbuf", "_control_buf"),
             ("r_counter", "_control_char_sent_counter")]


class Unknown(ValueError):
    pass


def _attr_path(node):
    """self.a.b -> ['self','a','b'] ; None when not a pure attribute chain"""
    out = []
    while isinstance(node, ast.Attribute):
        out.append(node.attr)
        node = node.value
    if isinstance(node, ast.Name):
        out.append(node.id)
        return list(reversed(out))
    return None


def _call(node):
    """[await] f(...) -> (path, call node) ; None otherwise"""
    if isinstance(node, ast.Await):
        node = node.value
    if isinstance(node, ast.Call):
        p = _attr_path(node.func)
        if p:
            return p, node
    return None


def _is_log(path):
    return path[:2] == ["self", "logger"] or path in (["self", "_pre_open_closing_log"], ["self", "_post_open_closing_log"])


def _stmt(node, level, where):
    """one python statement -> Coq term (str) or None (dropped)"""
    if isinstance(node, ast.Expr):
        if isinstance(node.value, ast.Constant) and isinstance(node.value.value, str):
            return None
        c = _call(node.value)
        if c is None:
            raise Unknown("%s: expression statement %s" % (where, ast.dump(node)[:120]))
        path, call = c
        if _is_log(path):
            return None
        table = {
            ("m", "self.transport.open"): "Atom ATOpen", ("m", "self.channel.open"): "Atom ACOpen",
            ("m", "self.transport.close"): "Atom ATClose", ("m", "self.channel.close"): "Atom ACClose",
            ("c", "self.transport.close"): "Atom CTClose", ("c", "self.channel.close"): "Atom CCClose",
            ("c", "self.open"): "Atom CCallOpen", ("c", "self.close"): "Atom CCallClose",
        }
        key = (level, ".".join(path))
        if key in table and not call.args and not call.keywords:
            return table[key]
        raise Unknown("%s: call %s" % (where, ".".join(path)))
    if isinstance(node, ast.If) and not node.orelse and len(node.body) == 1 and level == "m":
        inner = node.body[0]
        c = _call(inner.value) if isinstance(inner, ast.Expr) else None
        if c:
            path, call = c
            tpath = _attr_path(node.test)
            for hook, atom in (("on_open", "AHookOpen"), ("on_close", "AHookClose")):
                if tpath == ["self", hook] and path == ["self", hook] and len(call.args) == 1 and \
                        isinstance(call.args[0], ast.Name) and call.args[0].id == "self" and not call.keywords:
                    return "Atom " + atom
            if path[:2] == ["self", "channel"] and len(path) == 3 and path[2].startswith("channel_authenticate_"):
                names = {n.attr for n in ast.walk(node.test) if isinstance(n, ast.Attribute)}
                if names <= {"transport_name", "auth_bypass"} and "auth_bypass" in names:
                    return "Atom AAuth"
        raise Unknown("%s: if statement %s" % (where, ast.dump(node.test)[:160]))
    if isinstance(node, ast.Try):
        if node.orelse:
            raise Unknown("%s: try/else" % where)
        body = _block(node.body, level, where)
        if node.finalbody and not node.handlers:
            return "TryFinally (%s) (%s)" % (body, _block(node.finalbody, level, where))
        if len(node.handlers) == 1 and not node.finalbody:
            h = node.handlers[0]
            if isinstance(h.type, ast.Name) and h.type.id == "Exception":
                return "TryExcept (%s) (%s)" % (body, _block(h.body, level, where, excname=h.name))
        if len(node.handlers) == 2 and not node.finalbody:
            # try: B  except asyncio.CancelledError: <release>; raise  except Exception [as e]: H
            # The model has no cancellation outcome, so the first handler is never taken there: the statement means
            # TryExcept B H.  It is accepted only in exactly this form — the handler names asyncio.CancelledError, ends in a
            # bare raise (the cancellation goes through unchanged) and what precedes is a sequence of release calls that
            # translates and contains both closes; the cancellation scenarios (oracle) judge what it does.
            hc, h = node.handlers
            if _attr_path(hc.type) == ["asyncio", "CancelledError"] and hc.name is None and hc.body and \
                    isinstance(hc.body[-1], ast.Raise) and hc.body[-1].exc is None and \
                    isinstance(h.type, ast.Name) and h.type.id == "Exception":
                rel = _block(hc.body[:-1], level, where + " (cancelled)")
                if "TClose" in rel and "CClose" in rel:
                    return "TryExcept (%s) (%s)" % (body, _block(h.body, level, where, excname=h.name))
        raise Unknown("%s: try statement shape" % where)
    if isinstance(node, ast.Raise) and level == "c":
        e = node.exc
        if isinstance(e, ast.Call) and isinstance(e.func, ast.Name) and e.func.id == "ScrapliConnectionError":
            return "Atom CRaiseConn"
        raise Unknown("%s: raise %s" % (where, ast.dump(node)[:120]))
    raise Unknown("%s: statement %s" % (where, type(node).__name__))


def _block(nodes, level, where, excname=None, top=False):
    nodes = list(nodes)
    if top and nodes and isinstance(nodes[-1], ast.Return):
        r = nodes[-1].value
        if r is None or (isinstance(r, ast.Name) and r.id == "self"):
            nodes = nodes[:-1]      # falling off the end / returning self: same for the resources
    terms = [t for t in (_stmt(n, level, where) for n in nodes) if t is not None]
    merged = []
    for t in terms:
        if t == "Atom AAuth" and merged and merged[-1] == "Atom AAuth":
            continue                # the system / telnet authentication blocks exclude each other
        merged.append(t)
    if not merged:
        return "Skip"
    out = merged[-1]
    for t in reversed(merged[:-1]):
        out = "Seq (%s) (%s)" % (t, out)
    return out


def _methods(path, cls):
    tree = ast.parse(open(path).read())
    for n in tree.body:
        if isinstance(n, ast.ClassDef) and n.name == cls:
            return {f.name: f for f in n.body if isinstance(f, (ast.FunctionDef, ast.AsyncFunctionDef))}, tree
    raise Unknown("class %s not found in %s" % (cls, path))


def _resets(path, cls):
    ms, _ = _methods(path, cls)
    init, opn = ms["__init__"], ms["open"]

    def assigns(fn, toplevel):
        out = {}
        nodes = fn.body if toplevel else ast.walk(fn)
        for n in nodes:
            if isinstance(n, ast.Assign) and len(n.targets) == 1:
                p = _attr_path(n.targets[0])
                if p and p[0] == "self" and len(p) == 2:
                    out[p[1]] = ast.dump(n.value)
            elif isinstance(n, ast.AnnAssign) and n.value is not None:
                p = _attr_path(n.target)
                if p and p[0] == "self" and len(p) == 2:
                    out[p[1]] = ast.dump(n.value)
        return out

    a_init, a_open = assigns(init, False), assigns(opn, True)
    flags = []
    for _, attr in TN_FIELDS:
        if attr not in a_init:
            raise Unknown("%s.__init__ does not set %s" % (cls, attr))
        flags.append(a_open.get(attr) == a_init[attr])
    return flags


def _hook(path, fname):
    tree = ast.parse(open(path).read())
    fn = [n for n in tree.body if isinstance(n, (ast.FunctionDef, ast.AsyncFunctionDef)) and n.name == fname]
    if len(fn) != 1:
        raise Unknown("%s: %s not found" % (path, fname))
    calls = []
    for n in fn[0].body:
        if isinstance(n, ast.Expr) and isinstance(n.value, ast.Constant):
            continue
        c = _call(n.value) if isinstance(n, ast.Expr) else None
        if c is None:
            raise Unknown("%s.%s: statement %s" % (path, fname, type(n).__name__))
        p, call = c
        if p == ["conn", "acquire_priv"] and not call.args and len(call.keywords) == 1 and call.keywords[0].arg == "desired_priv" \
                and _attr_path(call.keywords[0].value) == ["conn", "default_desired_privilege_level"]:
            calls.append("HAcquirePriv")
        elif p == ["conn", "channel", "write"] and not call.args and len(call.keywords) == 1 and call.keywords[0].arg == "channel_input" \
                and isinstance(call.keywords[0].value, ast.Constant) and isinstance(call.keywords[0].value.value, str):
            calls.append("HWrite [%s]" % ";".join(str(b) for b in call.keywords[0].value.value.encode()))
        elif p == ["conn", "channel", "send_return"] and not call.args and not call.keywords:
            calls.append("HSendReturn")
        else:
            raise Unknown("%s.%s: call %s" % (path, fname, ".".join(p)))
    return "[" + "; ".join(calls) + "]"


# ---- scrapli/transport/plugins/system/ptyprocess.py ----
PTY = "scrapli/transport/plugins/system/ptyprocess.py"


def _pcond(test, where):
    neg = False
    if isinstance(test, ast.UnaryOp) and isinstance(test.op, ast.Not):
        neg, test = True, test.operand
    p = _attr_path(test)
    if p == ["self", "closed"] and neg:
        return "PNotClosed"
    if p == ["self", "flag_eof"]:
        return "PNotEofSeen" if neg else "PEofSeen"
    c = _call(test)
    if c and not c[1].args and not c[1].keywords:
        if c[0] == ["self", "isalive"] and not neg:
            return "PIsAlive"
        if c[0] == ["self", "eof"]:
            return "PNotEofSeen" if neg else "PEofSeen"
    raise Unknown("%s: condition %s" % (where, ast.dump(test)[:160]))


def _is_const(node, value):
    if isinstance(node, ast.UnaryOp) and isinstance(node.op, ast.USub) and isinstance(node.operand, ast.Constant):
        return type(value) is int and -node.operand.value == value
    return isinstance(node, ast.Constant) and type(node.value) is type(value) and node.value == value


def _terminate_force(node, where):
    """'true' / 'false' if node is self.terminate() / self.terminate(force=<bool constant>) / self.terminate(<bool constant>), else None"""
    c = _call(node)
    if not c or c[0] != ["self", "terminate"]:
        return None
    args, kws = c[1].args, c[1].keywords
    if not args and not kws:
        return "false"
    v = args[0] if (len(args) == 1 and not kws) else kws[0].value if (not args and len(kws) == 1 and kws[0].arg == "force") else None
    if v is not None and isinstance(v, ast.Constant) and type(v.value) is bool:
        return "true" if v.value else "false"
    raise Unknown("%s: arguments of self.terminate: %s" % (where, ast.dump(c[1])[:160]))


def _pty_terminate_check(fn):
    """the hand-written model of terminate(force) (Lifecycle.terminate) says: SIGHUP, SIGCONT, SIGINT are sent whatever
    force is, SIGKILL exactly under `if force`, True is returned only after `not self.isalive()`; fail closed on anything else"""
    where = "PtyProcess.terminate"
    a = fn.args
    if [x.arg for x in a.args] != ["self", "force"] or a.vararg or a.kwarg or a.kwonlyargs or len(a.defaults) != 1 \
            or not _is_const(a.defaults[0], False):
        raise Unknown("%s: signature" % where)
    sent = []

    def walk(nodes, forced):
        for n in nodes:
            if isinstance(n, ast.If):
                is_force = _attr_path(n.test) == ["force"]
                walk(n.body, forced or is_force)
                walk(n.orelse, forced)
            elif isinstance(n, ast.Try):
                walk(n.body, forced)
                for h in n.handlers:
                    walk(h.body, forced)
                walk(n.orelse, forced)
                walk(n.finalbody, forced)
            elif isinstance(n, (ast.For, ast.While, ast.With, ast.FunctionDef)):
                raise Unknown("%s: statement %s" % (where, type(n).__name__))
            else:
                for m in ast.walk(n):
                    c = _call(m) if isinstance(m, ast.Call) else None
                    if c and c[0] == ["self", "kill"]:
                        p = _attr_path(c[1].args[0]) if len(c[1].args) == 1 and not c[1].keywords else None
                        if not p or len(p) != 2 or p[0] != "signal":
                            raise Unknown("%s: self.kill argument" % where)
                        sent.append((p[1], forced))
                    elif c and c[0][:1] == ["os"] and c[0][-1] in ("kill", "killpg"):
                        raise Unknown("%s: %s" % (where, ".".join(c[0])))
                if isinstance(n, ast.Return) and _is_const(n.value, True) and not getattr(n, "_guarded", False):
                    raise Unknown("%s: return True not under `if not self.isalive()`" % where)

    def guard(nodes):
        # mark the `return True` statements that are the whole body of `if not self.isalive():`
        for n in ast.walk(ast.Module(body=list(nodes), type_ignores=[])):
            if isinstance(n, ast.If) and isinstance(n.test, ast.UnaryOp) and isinstance(n.test.op, ast.Not):
                c = _call(n.test.operand)
                if c and c[0] == ["self", "isalive"] and not c[1].args and not c[1].keywords:
                    for b in n.body:
                        if isinstance(b, ast.Return):
                            b._guarded = True
    guard(fn.body)
    walk(fn.body, False)
    if sent != [("SIGHUP", False), ("SIGCONT", False), ("SIGINT", False), ("SIGKILL", True)]:
        raise Unknown("%s: signals sent %s" % (where, sent))


def _pstmt(node, where):
    if isinstance(node, ast.Expr):
        if isinstance(node.value, ast.Constant) and isinstance(node.value.value, str):
            return None
        c = _call(node.value)
        if c and c[0] == ["time", "sleep"]:
            return "PNop"
        raise Unknown("%s: expression statement %s" % (where, ast.dump(node)[:120]))
    if isinstance(node, ast.With):
        # with suppress(AttributeError): del self.fileobj
        if len(node.items) == 1 and node.items[0].optional_vars is None and len(node.body) == 1 and isinstance(node.body[0], ast.Delete):
            ctx = _call(node.items[0].context_expr)
            tg = node.body[0].targets
            if ctx and ctx[0] == ["suppress"] and [getattr(a, "id", None) for a in ctx[1].args] == ["AttributeError"] \
                    and len(tg) == 1 and _attr_path(tg[0]) == ["self", "fileobj"]:
                return "PDelFileobj"
        raise Unknown("%s: with statement" % where)
    if isinstance(node, ast.Assign) and len(node.targets) == 1:
        p = _attr_path(node.targets[0])
        if p == ["self", "closed"] and _is_const(node.value, True):
            return "PMarkClosed"
        if p == ["self", "fd"] and _is_const(node.value, -1):
            return "PNop"
        if p == ["self", "pid"] and _is_const(node.value, None):
            return "PNop"
        raise Unknown("%s: assignment %s" % (where, ast.dump(node)[:120]))
    if isinstance(node, ast.If) and not node.orelse:
        # if not self.terminate(force=<bool>): raise PtyProcessError(...)   [no argument: force=False, the default]
        # if <cond> and not self.terminate(...): raise ...   ==   if <cond>: if not self.terminate(...): raise ...
        t = node.test
        conds = []
        if isinstance(t, ast.BoolOp) and isinstance(t.op, ast.And):
            conds, t = t.values[:-1], t.values[-1]
        force = _terminate_force(t.operand, where) if isinstance(t, ast.UnaryOp) and isinstance(t.op, ast.Not) else None
        if force is not None and len(node.body) == 1 and isinstance(node.body[0], ast.Raise):
            out = "PTerminateOrRaise %s" % force
            for cnd in reversed(conds):
                out = "PIf %s (%s)" % (_pcond(cnd, where), out)
            return out
        return "PIf %s (%s)" % (_pcond(node.test, where), _pblock(node.body, where))
    raise Unknown("%s: statement %s" % (where, type(node).__name__))


def _pblock(nodes, where):
    terms = [t for t in (_pstmt(n, where) for n in nodes) if t is not None]
    if not terms:
        return "PSkip"
    out = terms[-1]
    for t in reversed(terms[:-1]):
        out = "PSeq (%s) (%s)" % (t, out)
    return out


def _pty_close(repo):
    ms, _ = _methods(os.path.join(repo, PTY), "PtyProcess")
    for name in ("close", "spawn", "isalive", "terminate", "__del__"):
        if name not in ms:
            raise Unknown("PtyProcess.%s missing" % name)
    # what makes "owned by a PtyProcess object" mean "released": __del__ closes an un-closed object, and
    # SystemTransport.close() closes its session
    def calls(fn):
        return [c[0] for c in (_call(n) for n in ast.walk(fn) if isinstance(n, ast.Call)) if c]
    _pty_terminate_check(ms["terminate"])
    if ["self", "close"] not in calls(ms["__del__"]):
        raise Unknown("PtyProcess.__del__ does not call self.close()")
    tms, _ = _methods(os.path.join(repo, "scrapli/transport/plugins/system/transport.py"), "SystemTransport")
    if ["self", "session", "close"] not in calls(tms["close"]):
        raise Unknown("SystemTransport.close does not call self.session.close()")
    return _pblock(ms["close"].body, "PtyProcess.close")


def _pty_spawn(repo):
    """the statements of spawn() after `pid, fd = pty.fork()` / `if pid == CHILD: ...`, i.e. what the parent runs"""
    ms, _ = _methods(os.path.join(repo, PTY), "PtyProcess")
    body = ms["spawn"].body
    where = "PtyProcess.spawn"
    ix = [i for i, n in enumerate(body) if isinstance(n, ast.Assign) and _call(n.value) and _call(n.value)[0] == ["pty", "fork"]]
    if len(ix) != 1:
        raise Unknown("%s: pty.fork() not found exactly once at top level" % where)
    i = ix[0]
    tg = body[i].targets[0]
    if not (isinstance(tg, ast.Tuple) and [getattr(e, "id", None) for e in tg.elts] == ["pid", "fd"]):
        raise Unknown("%s: fork target" % where)
    nxt = body[i + 1] if i + 1 < len(body) else None
    if not (isinstance(nxt, ast.If) and not nxt.orelse and isinstance(nxt.test, ast.Compare) and _attr_path(nxt.test.left) == ["pid"]
            and len(nxt.test.ops) == 1 and isinstance(nxt.test.ops[0], ast.Eq) and _attr_path(nxt.test.comparators[0]) == ["CHILD"]):
        raise Unknown("%s: the child branch does not follow the fork" % where)
    # the child branch never falls through: it ends in execv, whose failure handler ends in os._exit
    last = nxt.body[-1]
    if not (isinstance(last, ast.Try) and len(last.handlers) == 1 and _call(last.handlers[0].body[-1].value if isinstance(last.handlers[0].body[-1], ast.Expr) else None)
            and _call(last.handlers[0].body[-1].value)[0] == ["os", "_exit"]):
        raise Unknown("%s: child branch may fall through" % where)
    atoms = []
    for n in body[i + 2:]:
        if isinstance(n, ast.Expr) and isinstance(n.value, ast.Constant):
            continue
        if isinstance(n, ast.Assign) and len(n.targets) == 1 and _attr_path(n.targets[0]) == ["inst"]:
            c = _call(n.value)
            if c and c[0] == ["cls"] and [_attr_path(a) for a in c[1].args] == [["pid"], ["fd"]] and not c[1].keywords:
                atoms.append("SWrap")
                continue
        c = _call(n.value) if isinstance(n, (ast.Expr, ast.Assign)) else None
        if c and c[0] in (["os", "close"], ["os", "read"]) and c[1].args and (_attr_path(c[1].args[0]) or [""])[0].startswith("exec_err_pipe_"):
            atoms.append("SPipe")
            continue
        if isinstance(n, ast.If) and any(isinstance(x, ast.Raise) for x in ast.walk(n)) and "exec_err_data" in {x.id for x in ast.walk(n.test) if isinstance(x, ast.Name)}:
            atoms.append("SExecCheck")
            continue
        if isinstance(n, ast.Try) or (isinstance(n, ast.Expr) and c is not None):
            atoms.append("SMayRaise")          # any other call / try block: may raise
            continue
        if isinstance(n, ast.Return) and _attr_path(n.value) == ["inst"]:
            atoms.append("SReturn")
            continue
        raise Unknown("%s: parent statement %s" % (where, ast.dump(n)[:160]))
    return "[" + "; ".join(atoms) + "]"


def generate(outdir, repo=None):
    if repo is None:
        from harness import common
        repo = common.REPO
    lines = ["(* generated from the source tree by gen/gen_lifecycle.py — do not edit *)",
             "From Verif Require Import Bytes Telnet Lifecycle."]
    info = {}
    for tag, rel, cls, names in (
            ("sync", "scrapli/driver/base/sync_driver.py", "Driver", ("open", "close", "__enter__", "__exit__")),
            ("async", "scrapli/driver/base/async_driver.py", "AsyncDriver", ("open", "close", "__aenter__", "__aexit__"))):
        ms, _ = _methods(os.path.join(repo, rel), cls)
        for short, name, level, ty in zip(("open", "close", "enter", "exit"), names, "mmcc",
                                          ("matom", "matom", "catom", "catom")):
            if name not in ms:
                raise Unknown("%s.%s missing" % (cls, name))
            term = _block(ms[name].body, level, "%s.%s" % (cls, name), top=True)
            lines.append("Definition gen_%s_%s : stmt %s := %s." % (short, tag, ty, term))
            info["%s_%s" % (short, tag)] = term
    for tag, rel, cls in (("sync", "scrapli/transport/plugins/telnet/transport.py", "TelnetTransport"),
                          ("async", "scrapli/transport/plugins/asynctelnet/transport.py", "AsynctelnetTransport")):
        flags = _resets(os.path.join(repo, rel), cls)
        lines.append("Definition gen_resets_%s : resets := mkR %s." % (tag, " ".join("true" if f else "false" for f in flags)))
        info["resets_" + tag] = flags
    for tag in ("sync", "async"):
        lines.append("Definition gen_progs_%s : progs := mkP gen_open_%s gen_close_%s gen_enter_%s gen_exit_%s gen_resets_%s."
                     % (tag, tag, tag, tag, tag, tag))
    hooks, installed = [], []
    import importlib
    for plat, short, cls in PLATFORMS:
        for tag, acls in (("sync", cls), ("async", "Async" + cls)):
            rel = "scrapli/driver/core/%s/%s_driver.py" % (plat, tag)
            hooks.append(_hook(os.path.join(repo, rel), "%s_on_close" % short))
            mod = importlib.import_module("scrapli.driver.core.%s.%s_driver" % (plat, tag))
            d = getattr(mod, acls)(host="h", transport="telnet" if tag == "sync" else "asynctelnet")
            installed.append(d.on_close is getattr(mod, "%s_on_close" % short))
    lines.append("Definition gen_on_close_hooks : list (list hcall) :=\n  [" + ";\n   ".join(hooks) + "].")
    lines.append("Definition gen_on_close_installed : list bool := [%s]." % "; ".join("true" if b else "false" for b in installed))
    pc, ps = _pty_close(repo), _pty_spawn(repo)
    lines.append("Definition gen_pty_close : pstmt := %s." % pc)
    lines.append("Definition gen_pty_spawn : list satom := %s." % ps)
    info["pty_close"], info["pty_spawn"] = pc, ps
    info["hooks"] = hooks[0]
    info["hooks_installed"] = installed
    text = "\n".join(lines) + "\n"
    path = os.path.join(outdir, "Gen_Lifecycle.v")
    if not os.path.exists(path) or open(path).read() != text:
        open(path, "w").write(text)
    return path, info


if __name__ == "__main__":
    print(generate(sys.argv[1], sys.argv[2] if len(sys.argv) > 2 else None))
