"""Gen_Prompts_<platform>.v — privilege-level patterns / not_contains lists / combined channel
pattern of CONSTRUCTED drivers of the current source tree (base table and after registering
configuration sessions), together with the prompt grammars of spec/prompts.py, as C05 obligations.
Fail-closed."""
import os
import re
import sys

from gen import regex as rx

HERE = os.path.dirname(os.path.abspath(__file__))
sys.path.insert(0, os.path.dirname(HERE))
from spec import prompts as spec  # noqa: E402


def coq_str(s):
    if any(ord(c) > 126 or ord(c) < 32 or c == '"' for c in s):
        raise rx.Unsupported("level name %r" % s)
    return '"%s"%%string' % s


def coq_bytes(b):
    return "[" + ";".join(str(x) for x in b) + "]"


def driver_for(platform):
    import scrapli.driver.core as core
    cls = {"cisco_iosxe": core.IOSXEDriver, "cisco_iosxr": core.IOSXRDriver, "cisco_nxos": core.NXOSDriver,
           "arista_eos": core.EOSDriver, "juniper_junos": core.JunosDriver}[platform]
    return cls(host="h", transport="telnet", auth_bypass=True)


def table_of(drv):
    """levels of a constructed driver in dict order: (name, pattern str, not_contains)"""
    out = []
    for name, lvl in drv.privilege_levels.items():
        if name != lvl.name:
            raise rx.Unsupported("level key %r != name %r" % (name, lvl.name))
        if not isinstance(lvl.pattern, str) or not isinstance(lvl.not_contains, (list, tuple)):
            raise rx.Unsupported("level %r malformed" % name)
        out.append((name, lvl.pattern, list(lvl.not_contains)))
    return out


class Emit:
    def __init__(self):
        self.class_sets = [frozenset(range(256))]   # the class of sigma_star
        self.defs = []

    def re_term(self, pattern, flags):
        term, node = rx.translate(pattern, flags)
        for c in rx.classes(node):
            if c not in self.class_sets:
                self.class_sets.append(c)
        return term

    def lit_classes(self, b):
        for x in b:
            c = frozenset([x])
            if c not in self.class_sets:
                self.class_sets.append(c)


def variants(platform):
    """(variant label, driver, extra grammar modes) — base table, then with registered sessions"""
    out = [("base", driver_for(platform), {})]
    ps = spec.PLATFORMS[platform]
    if "session" in ps:
        for name in spec.SESSION_NAMES:
            d = driver_for(platform)
            d.register_configuration_session(session_name=name)
            s = ps["session"]
            if "line_fmt" in s:
                line = s["line_fmt"] % re.escape(name[:6])
            else:
                line = s["line"]
            mode = {"line": line, "class": [name], "carve": s.get("carve", [])}
            out.append(("session:" + name, d, {name: mode}))
    return out


def generate_platform(platform, outdir, known_regions_excluded=True):
    ps = spec.PLATFORMS[platform]
    em = Emit()
    obs = []
    info = {"obligations": [], "levels": {}}
    lines = []
    for vlabel, drv, extra in variants(platform):
        tbl = table_of(drv)
        combined = drv.channel._base_channel_args.comms_prompt_pattern
        if combined != drv.comms_prompt_pattern:
            raise rx.Unsupported("channel pattern differs from driver pattern")
        vid = re.sub(r"[^A-Za-z0-9]", "_", vlabel)
        tname = "tbl_%s" % vid
        lvl_terms = []
        for name, pat, ncs in tbl:
            t = em.re_term(pat, re.M | re.I)
            for nc in ncs:
                em.lit_classes(nc.encode("latin-1"))
            lvl_terms.append("mkLevel %s %s [%s]" % (coq_str(name), t, "; ".join(coq_bytes(nc.encode("latin-1")) for nc in ncs)))
        lines.append("Definition %s : list level := [\n  %s]." % (tname, ";\n  ".join(lvl_terms)))
        lines.append("Definition comb_%s : re := %s." % (vid, em.re_term(combined.encode(), re.M | re.I)))
        info["levels"][vlabel] = [n for n, _, _ in tbl]
        modes = dict(ps["modes"]) if vlabel == "base" else {}
        # with a session registered, the ordinary modes must still classify as before, and the session mode as itself
        if vlabel != "base":
            modes = dict(ps["modes"])
            modes.update(extra)
        for mname, m in modes.items():
            line = m["line"]
            carves = m.get("carve", [])
            # a session registered on NX-OS / EOS: its prompt is carved out of 'configuration' by the vendor convention already
            g = em.re_term(line, 0)
            nl = "(Cls [(10, 10)])"
            em.lit_classes(b"\n ")
            trail = em.re_term(ps["trail"], 0) if ps["trail"] else "Eps"
            cterms = [em.re_term(c[0], re.I) for c in carves]
            oid = "ob_%s_%s" % (vid, re.sub(r"[^A-Za-z0-9]", "_", mname))
            lines.append("Definition %s : obligation := mkOb %s %s comb_%s\n  (grammar_top %s [%s])\n  (grammar_top (Cat %s (Cat %s %s)) [%s])\n  [%s]." % (
                oid, coq_str("%s/%s/%s" % (platform, vlabel, mname)), tname, vid, g, "; ".join(cterms),
                nl, g, trail, "; ".join(cterms), "; ".join(coq_str(c) for c in m["class"])))
            obs.append(oid)
            info["obligations"].append("%s/%s/%s" % (platform, vlabel, mname))
    atoms = rx.atoms(em.class_sets)
    head = ["(* generated from /repo and /verif/spec/prompts.py by gen/gen_prompts.py — do not edit *)",
            "From Coq Require Import String.",
            "From Verif Require Import Bytes Regex RegexDeriv RegexDecide Prompt.",
            "Definition CL : list cset := [%s]." % ";\n  ".join("[%s]" % "; ".join("(%d, %d)" % r for r in rx.ranges(c)) for c in em.class_sets),
            "Definition ATOMS : list atom := [%s]." % ";\n  ".join("(%d, %s)" % (rep, coq_bytes(mem)) for rep, mem in atoms),
            "Definition FUEL : nat := (600 * 100)%nat."]
    tail = ["Definition OBS : list obligation := [%s]." % "; ".join(obs)]
    text = "\n".join(head + lines + tail) + "\n"
    pid = platform
    path = os.path.join(outdir, "Gen_Prompts_%s.v" % pid)
    if not os.path.exists(path) or open(path).read() != text:
        open(path, "w").write(text)
    info["atoms"] = len(atoms)
    info["classes"] = len(em.class_sets)
    return path, obs, info


def generate_check_file(platform, outdir, obs):
    """the by-computation lemma over the generated obligations of one platform"""
    text = ("From Verif Require Import Bytes Regex RegexDeriv RegexDecide Prompt Prompt_Proofs.\n"
            "From Gen Require Import Gen_Prompts_%s.\n"
            "Lemma obs_ok : forallb (check_ob CL ATOMS FUEL) OBS = true.\nProof. vm_compute. reflexivity. Qed.\n" % platform)
    path = os.path.join(outdir, "Chk_Prompts_%s.v" % platform)
    if not os.path.exists(path) or open(path).read() != text:
        open(path, "w").write(text)
    return path
