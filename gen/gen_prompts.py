"""Gen_Prompts_<platform>.v — privilege-level patterns / not_contains lists / combined channel
pattern of CONSTRUCTED drivers of the current source tree (base table and after registering
configuration sessions), together with the prompt grammars of spec/prompts.py, as C05 obligations.
Fail-closed."""
import os
import re
import sys

from gen import regex as rx

HERE = os.path.dirname(os.path.abspath(__file__))
sys.path.insert(0, os.path.dirname(HERE))
from spec import prompts as spec  # noqa: E402


def coq_str(s):
    if any(ord(c) > 126 or ord(c) < 32 or c == '"' for c in s):
        raise rx.Unsupported("level name %r" % s)
    return '"%s"%%string' % s


def coq_bytes(b):
    return "[" + ";".join(str(x) for x in b) + "]"


def driver_for(platform):
    import scrapli.driver.core as core
    cls = {"cisco_iosxe": core.IOSXEDriver, "cisco_iosxr": core.IOSXRDriver, "cisco_nxos": core.NXOSDriver,
           "arista_eos": core.EOSDriver, "juniper_junos": core.JunosDriver}[platform]
    return cls(host="h", transport="telnet", auth_bypass=True)


def table_of(drv):
    """levels of a constructed driver in dict order: (name, pattern str, not_contains)"""
    out = []
    for name, lvl in drv.privilege_levels.items():
        if name != lvl.name:
            raise rx.Unsupported("level key %r != name %r" % (name, lvl.name))
        if not isinstance(lvl.pattern, str) or not isinstance(lvl.not_contains, (list, tuple)):
            raise rx.Unsupported("level %r malformed" % name)
        out.append((name, lvl.pattern, list(lvl.not_contains)))
    return out


class Emit:
    def __init__(self):
        self.class_sets = [frozenset(range(256))]   # the class of sigma_star
        self.defs = []

    def re_term(self, pattern, flags):
        term, node = rx.translate(pattern, flags)
        for c in rx.classes(node):
            if c not in self.class_sets:
                self.class_sets.append(c)
        return term

    def lit_classes(self, b):
        for x in b:
            c = frozenset([x])
            if c not in self.class_sets:
                self.class_sets.append(c)


def variants(platform, session_names=None, additive=False):
    """(variant label, driver, extra grammar modes) — base table, then with registered sessions"""
    out = [("base", driver_for(platform), {})]
    ps = spec.platforms(additive)[platform]
    if "session" in ps:
        for name in (spec.SESSION_NAMES if session_names is None else session_names):
            d = driver_for(platform)
            d.register_configuration_session(session_name=name)
            s = ps["session"]
            if "line_fmt" in s:
                line = s["line_fmt"] % re.escape(name[:6])
            else:
                line = s["line"]
            mode = {"line": line, "class": [name], "carve": s.get("carve", [])}
            out.append(("session:" + name, d, {name: mode}))
    return out


def generate_platform(platform, outdir, session_names=None, additive=False, extra_tables=()):
    ps = spec.platforms(additive)[platform]
    em = Emit()
    obs = []
    info = {"obligations": [], "levels": {}}
    lines = []
    tables = {}
    for vlabel, drv, extra in variants(platform, session_names, additive):
        tbl = table_of(drv)
        combined = drv.channel._base_channel_args.comms_prompt_pattern
        if combined != drv.comms_prompt_pattern:
            raise rx.Unsupported("channel pattern differs from driver pattern")
        vid = re.sub(r"[^A-Za-z0-9]", "_", vlabel)
        tname = "tbl_%s" % vid
        lvl_terms = []
        for name, pat, ncs in tbl:
            t = em.re_term(pat, re.M | re.I)
            for nc in ncs:
                em.lit_classes(nc.encode("latin-1"))
            lvl_terms.append("mkLevel %s %s [%s]" % (coq_str(name), t, "; ".join(coq_bytes(nc.encode("latin-1")) for nc in ncs)))
        lines.append("Definition %s : list level := [\n  %s]." % (tname, ";\n  ".join(lvl_terms)))
        lines.append("Definition comb_%s : re := %s." % (vid, em.re_term(combined.encode(), re.M | re.I)))
        info["levels"][vlabel] = [n for n, _, _ in tbl]
        tables[tname] = {"variant": vlabel, "levels": [[n, p_, list(nc)] for n, p_, nc in tbl], "combined": combined}
        modes = dict(ps["modes"]) if vlabel == "base" else {}
        # with a session registered, the ordinary modes must still classify as before, and the session mode as itself
        if vlabel != "base":
            modes = dict(ps["modes"])
            modes.update(extra)
        for mname, m in modes.items():
            line = m["line"]
            carves = m.get("carve", [])
            # a session registered on NX-OS / EOS: its prompt is carved out of 'configuration' by the vendor convention already
            pos = [em.re_term(line, 0)] + [em.re_term(x, 0) for x in m.get("len", [])]
            relaxed = rx.to_coq(rx.relax(rx.translate(line, 0)[1]))
            nl = "(Cls [(10, 10)])"
            em.lit_classes(b"\n ")
            trail = em.re_term(ps["trail"], 0) if ps["trail"] else "Eps"
            # all carve-outs of a mode as ONE alternation under a single search (one substring tracker instead of a
            # product of trackers)
            cterms = [em.re_term("|".join("(?:%s)" % c[0] for c in carves), 0)] if carves else []
            oid = "ob_%s_%s" % (vid, re.sub(r"[^A-Za-z0-9]", "_", mname))
            lines.append("Definition %s : obligation := mkOb %s %s comb_%s\n  (grammar_conjs [%s] [%s])\n  (grammar_conjs [%s] [%s])\n  [%s]\n  [%s] [Cat %s (Cat %s %s)]." % (
                oid, coq_str("%s/%s/%s" % (platform, vlabel, mname)), tname, vid, "; ".join(pos), "; ".join(cterms),
                "; ".join("Cat %s (Cat %s %s)" % (nl, g, trail) for g in pos), "; ".join(cterms), "; ".join(coq_str(c) for c in m["class"]),
                relaxed, nl, relaxed, trail))
            obs.append(oid)
            info["obligations"].append("%s/%s/%s" % (platform, vlabel, mname))
            info.setdefault("obs", []).append({
                "oid": oid, "platform": platform, "variant": vlabel, "mode": mname, "line": line, "len": m.get("len", []),
                "carves": [c[0] for c in carves], "findings": [c[2] for c in carves if c[2]], "class": list(m["class"]),
                "trail": ps["trail"], "table": tname, "levels": [n for n, _, _ in tbl]})
    # further tables (no obligations): used by the cache-history correspondence only
    if "session" in ps:
        for name in extra_tables:
            d = driver_for(platform)
            d.register_configuration_session(session_name=name)
            tbl = table_of(d)
            tname = "tbl_session_%s" % re.sub(r"[^A-Za-z0-9]", "_", name)
            if tname in tables:
                continue
            lvl_terms = []
            for lname, pat, ncs in tbl:
                t = em.re_term(pat, re.M | re.I)
                lvl_terms.append("mkLevel %s %s [%s]" % (coq_str(lname), t, "; ".join(coq_bytes(nc.encode("latin-1")) for nc in ncs)))
            lines.append("Definition %s : list level := [\n  %s]." % (tname, ";\n  ".join(lvl_terms)))
            tables[tname] = {"variant": "session:" + name, "levels": [[n, p_, list(nc)] for n, p_, nc in tbl], "combined": d.comms_prompt_pattern}
    atoms = rx.atoms(em.class_sets)
    head = ["(* generated from /repo and /verif/spec/prompts.py by gen/gen_prompts.py — do not edit *)",
            "From Coq Require Import String.",
            "From Verif Require Import Bytes Regex RegexDeriv RegexDecide Prompt.",
            "Definition CL : list cset := [%s]." % ";\n  ".join("[%s]" % "; ".join("(%d, %d)" % r for r in rx.ranges(c)) for c in em.class_sets),
            "Definition ATOMS : list atom := [%s]." % ";\n  ".join("(%d, %s)" % (rep, coq_bytes(mem)) for rep, mem in atoms),
            "Definition FUEL : nat := (600 * 100)%nat."]
    tail = ["Definition OBS : list obligation := [%s]." % "; ".join(obs)]
    text = "\n".join(head + lines + tail) + "\n"
    pid = platform
    path = os.path.join(outdir, "Gen_Prompts_%s.v" % pid)
    if not os.path.exists(path) or open(path).read() != text:
        open(path, "w").write(text)
    info["tables"] = tables
    info["atoms"] = len(atoms)
    info["classes"] = len(em.class_sets)
    return path, obs, info




# ---------------------------------------------------------------------------------------------
# table-changing steps of a history.  The harness applies them to the driver UNDER TEST (which has classified prompts
# before); the translator applies the same steps to a FRESH driver that has never classified anything and reads the table
# back from the `.pattern` / `.not_contains` attributes: the table the model's `Update t` is given.
#   ["register", name]              register_configuration_session(name)  (calls update_privilege_levels itself)
#   ["retire", name]                privilege_levels.pop(name)
#   ["sub", level|"*", old, new]    IN-PLACE edit of the pattern text of an existing level object (every level for "*")
#   ["nc_add", level, entry, how]   not_contains gains an entry; how = "append" (the list object is kept) | "assign"
#   ["nc_del", level, entry]        not_contains loses an entry (list object kept)
#   ["replace", level, old, new]    the level OBJECT is replaced by a copy with the edited pattern (same key, same name)
#   ["add", name, pattern, prev]    a new level object
#   ["update"]                      update_privilege_levels()
# ---------------------------------------------------------------------------------------------
def apply_step(drv, step):
    import copy
    k = step[0]
    pl = drv.privilege_levels
    if k == "register":
        drv.register_configuration_session(session_name=step[1])
    elif k == "retire":
        pl.pop(step[1])
    elif k == "sub":
        hit = 0
        for name, lvl in pl.items():
            if step[1] in ("*", name) and step[2] in lvl.pattern:
                lvl.pattern = lvl.pattern.replace(step[2], step[3])
                hit += 1
        if not hit:
            raise rx.Unsupported("edit %r changes no level pattern" % (step,))
    elif k == "nc_add":
        lvl = pl[step[1]]
        if step[3] == "append":
            lvl.not_contains.append(step[2])
        else:
            lvl.not_contains = list(lvl.not_contains) + [step[2]]
    elif k == "nc_del":
        pl[step[1]].not_contains.remove(step[2])
    elif k == "replace":
        new = copy.copy(pl[step[1]])
        if step[2] not in new.pattern:
            raise rx.Unsupported("edit %r changes no level pattern" % (step,))
        new.pattern = new.pattern.replace(step[2], step[3])
        new.not_contains = list(new.not_contains)
        pl[step[1]] = new
    elif k == "add":
        from scrapli.driver.network.base_driver import PrivilegeLevel
        pl[step[1]] = PrivilegeLevel(pattern=step[2], name=step[1], previous_priv=step[3], deescalate="exit",
                                     escalate="enter-" + step[1], escalate_auth=False, escalate_prompt="")
    elif k == "update":
        drv.update_privilege_levels()
    else:
        raise rx.Unsupported("history step %r" % (step,))


def generate_history_tables(platform, outdir, states):
    """Gen_PromptEdits_<platform>.v — one table per state of the edit histories.  `states` = list of step lists; the table of
    a state is read from a fresh driver after the steps (tbl_st_<i>).  A separate file: the facts / theorems of
    Gen_Prompts_<platform>.v do not depend on it.  Returns (path, [table names], {name: {levels, combined}})."""
    lines = ["(* generated by gen/gen_prompts.py (generate_history_tables): privilege tables after in-place edits — do not edit *)",
             "From Coq Require Import String.",
             "From Verif Require Import Bytes Regex RegexDeriv Prompt."]
    em = Emit()
    names, tables = [], {}
    for i, steps in enumerate(states):
        d = driver_for(platform)
        for st in steps:
            apply_step(d, st)
        tbl = table_of(d)
        combined = d.channel._base_channel_args.comms_prompt_pattern
        if combined != d.comms_prompt_pattern:
            raise rx.Unsupported("channel pattern differs from driver pattern")
        if combined != "|".join("(%s)" % p_ for _, p_, _ in tbl):
            raise rx.Unsupported("combined pattern of state %d is not the alternation of the level patterns" % i)
        tname = "tbl_st_%d" % i
        lvl_terms = []
        for lname, pat, ncs in tbl:
            t = em.re_term(pat, re.M | re.I)
            lvl_terms.append("mkLevel %s %s [%s]" % (coq_str(lname), t, "; ".join(coq_bytes(nc.encode("latin-1")) for nc in ncs)))
        lines.append("Definition %s : list level := [\n  %s]." % (tname, ";\n  ".join(lvl_terms)))
        names.append(tname)
        tables[tname] = {"steps": steps, "levels": [[n, p_, list(nc)] for n, p_, nc in tbl], "combined": combined}
    text = "\n".join(lines) + "\n"
    path = os.path.join(outdir, "Gen_PromptEdits_%s.v" % platform)
    if not os.path.exists(path) or open(path).read() != text:
        open(path, "w").write(text)
    return path, names, tables


def generate_cache_facts(outdir):
    """Gen_PromptCache.v — ast facts about the memoisation of _determine_current_priv and who clears it"""
    import ast
    repo = os.environ.get("VERIF_REPO", "/repo")
    src = open(os.path.join(repo, "scrapli/driver/network/base_driver.py")).read()
    tree = ast.parse(src)
    cls = [n for n in tree.body if isinstance(n, ast.ClassDef) and n.name == "BaseNetworkDriver"]
    if len(cls) != 1:
        raise rx.Unsupported("BaseNetworkDriver not found")
    fns = {n.name: n for n in cls[0].body if isinstance(n, ast.FunctionDef)}
    det = fns.get("_determine_current_priv")
    upd = fns.get("update_privilege_levels")
    if det is None or upd is None:
        raise rx.Unsupported("_determine_current_priv / update_privilege_levels not found")
    cap = None
    cached = False
    for dec in det.decorator_list:
        if isinstance(dec, ast.Call) and getattr(dec.func, "id", getattr(dec.func, "attr", "")) == "lru_cache":
            cached = True
            for kw in dec.keywords:
                if kw.arg == "maxsize" and isinstance(kw.value, ast.Constant) and isinstance(kw.value.value, int):
                    cap = kw.value.value
        elif getattr(dec, "id", getattr(dec, "attr", "")) in ("lru_cache", "cache"):
            raise rx.Unsupported("unbounded cache decorator: not modelled")
    if cached and cap is None:
        raise rx.Unsupported("lru_cache without an integer maxsize")
    # the function itself must be a pure function of (self.privilege_levels, current_prompt): any other state it reads or
    # writes (a hand-made memo on self / on the class / in the module) is a cache the model does not have -> fail closed
    body = ast.Module(body=det.body, type_ignores=[])      # the statements only: not the decorators, not the annotations
    self_attrs = {n.attr for n in ast.walk(body) if isinstance(n, ast.Attribute) and isinstance(n.value, ast.Name) and n.value.id == "self"}
    if not self_attrs <= {"privilege_levels", "logger"}:
        raise rx.Unsupported("_determine_current_priv touches self.%s: state outside the modelled lru_cache" % sorted(self_attrs - {"privilege_levels", "logger"}))
    if any(isinstance(n, (ast.Global, ast.Nonlocal)) for n in ast.walk(body)):
        raise rx.Unsupported("_determine_current_priv declares global / nonlocal names")
    bound = {a.arg for a in det.args.args} | {n.id for n in ast.walk(body) if isinstance(n, ast.Name) and isinstance(n.ctx, ast.Store)}
    free = {n.id for n in ast.walk(body) if isinstance(n, ast.Name) and isinstance(n.ctx, ast.Load)} - bound
    if not free <= {"re", "any", "ScrapliPrivilegeError"}:
        raise rx.Unsupported("_determine_current_priv reads the outer names %s: not modelled" % sorted(free - {"re", "any", "ScrapliPrivilegeError"}))
    # functools.lru_cache on a METHOD is one cache for the class; its key contains the object iff the decorated function is
    # called with it, i.e. the plain method (first parameter self, no staticmethod / classmethod wrapper)
    first = det.args.args[0].arg if det.args.args else ""
    wrappers = {getattr(d, "id", getattr(d, "attr", "")) for d in det.decorator_list if not isinstance(d, ast.Call)}
    keyed = (not cached) or (first == "self" and not wrappers & {"staticmethod", "classmethod"})
    # update_privilege_levels: the LAST statement-level effects must include cache_clear() after the pattern was regenerated
    calls = [ast.unparse(n.value.func) for n in upd.body if isinstance(n, ast.Expr) and isinstance(n.value, ast.Call)]
    clears = (not cached) or ("self._determine_current_priv.cache_clear" in calls)
    regen = "self._generate_comms_prompt_pattern" in calls
    pushes = any(isinstance(n, ast.Assign) and ast.unparse(n.targets[0]) == "self.channel.comms_prompt_pattern" for n in upd.body)
    # register_configuration_session of the four platform drivers: _create_configuration_session then update_privilege_levels
    reg_ok = True
    regs = []
    for rel in ("scrapli/driver/core/cisco_nxos/sync_driver.py", "scrapli/driver/core/cisco_nxos/async_driver.py",
                "scrapli/driver/core/arista_eos/sync_driver.py", "scrapli/driver/core/arista_eos/async_driver.py"):
        t = ast.parse(open(os.path.join(repo, rel)).read())
        found = False
        for c in [n for n in t.body if isinstance(n, ast.ClassDef)]:
            for f in c.body:
                if isinstance(f, (ast.FunctionDef, ast.AsyncFunctionDef)) and f.name == "register_configuration_session":
                    found = True
                    seq = [ast.unparse(n.value.func) for n in f.body if isinstance(n, ast.Expr) and isinstance(n.value, ast.Call)]
                    ok = ("self._create_configuration_session" in seq and "self.update_privilege_levels" in seq and
                          seq.index("self._create_configuration_session") < seq.index("self.update_privilege_levels"))
                    regs.append((rel, ok))
                    reg_ok = reg_ok and ok
        if not found:
            raise rx.Unsupported("register_configuration_session not found in %s" % rel)
    text = ("(* generated from scrapli/driver/network/base_driver.py and the NX-OS / EOS drivers by gen/gen_prompts.py *)\n"
            "Definition gen_cached : bool := %s.\nDefinition gen_cap : nat := %d%%nat.\n"
            "Definition gen_update_clears_cache : bool := %s.\nDefinition gen_update_regenerates_pattern : bool := %s.\n"
            "Definition gen_update_pushes_pattern_to_channel : bool := %s.\nDefinition gen_register_then_update : bool := %s.\n"
            "Definition gen_keyed_by_self : bool := %s.\n"
            % tuple(["true" if cached else "false", cap or 0] + ["true" if x else "false" for x in (clears, regen, pushes, reg_ok, keyed)]))
    path = os.path.join(outdir, "Gen_PromptCache.v")
    if not os.path.exists(path) or open(path).read() != text:
        open(path, "w").write(text)
    return path, {"cached": cached, "cap": cap, "keyed_by_self": keyed, "clears": clears, "regenerates": regen, "pushes": pushes, "register": regs}
