"""Gen_Factory.v — what scrapli/factory.py and the driver constructors *are* in the current source
tree, as data for coq/model/Factory.v and coq/model/Heap.v (fail-closed):

  * keys of `_provided_args` in `_build_provided_kwargs_dict` (ast) and its parameters (inspect)
  * parameters / defaults of Scrapli.__new__ and AsyncScrapli.__new__
  * CORE_TRANSPORTS, ASYNCIO_TRANSPORTS, the transport plugins that import here
  * CORE_PLATFORM_MAP and DRIVER_MAP of both factories
  * keyword signature (names, order, defaults) of the 10 core drivers, (Async)NetworkDriver and
    (Async)GenericDriver, and what a default-constructed core driver holds for the arguments that
    default to None (observed on an instance: a *copy* of PRIVS / FAILED_WHEN_CONTAINS or the very
    object; the platform on_open / on_close callables)
  * the value of PRIVS / FAILED_WHEN_CONTAINS of the five core platforms (initial heap)

Also home of the value encoder shared with harness/c18.py (objects by identity -> tokens)."""
import ast
import dataclasses
import importlib
import inspect
import os
import sys

PLATFORMS = ["cisco_iosxe", "cisco_iosxr", "cisco_nxos", "arista_eos", "juniper_junos"]


# ---------------------------------------------------------------------------------------------
# Coq printing
# ---------------------------------------------------------------------------------------------
def cbytes(s):
    if isinstance(s, str):
        s = s.encode("utf-8")
    return "[" + ";".join(str(x) for x in s) + "]"


def clist(items):
    return "[" + "; ".join(items) + "]"


def cbool(x):
    return "true" if x else "false"


class Registry:
    """objects that matter by identity -> small integer tokens (0 is 'unknown object')"""

    def __init__(self):
        self.by_id = {}
        self.objs = []
        self.names = {}

    def add(self, obj, name=None):
        if id(obj) in self.by_id:
            return self.by_id[id(obj)]
        self.objs.append(obj)
        tok = len(self.objs)
        self.by_id[id(obj)] = tok
        self.names[tok] = name or getattr(obj, "__qualname__", type(obj).__name__)
        return tok

    def tok(self, obj):
        return self.by_id.get(id(obj), 0)

    def copy(self):
        r = Registry()
        r.by_id, r.objs, r.names = dict(self.by_id), list(self.objs), dict(self.names)
        return r


def canon_table(x):
    """by-value canonical form of the table-like objects (dict of PrivilegeLevel, list, dict)"""
    from scrapli.driver.network.base_driver import PrivilegeLevel
    if isinstance(x, PrivilegeLevel):
        return ("PL",) + tuple(canon_table(getattr(x, s)) for s in PrivilegeLevel.__slots__)
    if isinstance(x, dict):
        return ("D",) + tuple((repr(k), canon_table(v)) for k, v in x.items())
    if isinstance(x, (list, tuple)):
        return ("L",) + tuple(canon_table(v) for v in x)
    if isinstance(x, (str, int, float, bool, bytes)) or x is None:
        return ("V", type(x).__name__, x)
    return ("O", id(x))


def encode_val(x, reg, candidates=()):
    """Python value -> Coq term of type Factory.val.  `candidates`: registered mutable objects a
    fresh (unregistered) object may be a copy of."""
    if x is None:
        return "VNone"
    if x is True or x is False:
        return "(VBool %s)" % cbool(x)
    if isinstance(x, int):
        if x < 0:
            raise ValueError("negative int not in the value model: %r" % (x,))
        return "(VInt %d)" % x
    if isinstance(x, float):
        if x < 0 or x != x:
            raise ValueError("float outside the value model: %r" % (x,))
        return "(VFloat %s)" % cbytes(repr(x))
    if isinstance(x, str):
        return "(VStr %s)" % cbytes(x)
    tok = reg.tok(x)
    is_callable = callable(x)
    try:
        tr = bool(x)
    except Exception:  # noqa
        tr = True
    if tok:
        return "(VRef %d %s %s)" % (tok, cbool(tr), cbool(is_callable))
    if isinstance(x, (dict, list)):
        if not x:
            return "VNew"
        cx = canon_table(x)
        for c in candidates:
            if type(c) is type(x) and canon_table(c) == cx and reg.tok(c):
                return "(VCopy %d %s)" % (reg.tok(c), cbool(tr))
    return "(VRef 0 %s %s)" % (cbool(tr), cbool(is_callable))


def encode_kwargs(d, reg, candidates=()):
    return clist(["(%s, %s)" % (cbytes(k), encode_val(v, reg, candidates)) for k, v in d.items()])


def priv_tables(privs, fwc):
    """(PRIVS dict, FAILED_WHEN_CONTAINS list) -> Coq term of type Heap.tables"""
    from scrapli.driver.network.base_driver import PrivilegeLevel
    es = []
    if not isinstance(privs, dict) or not isinstance(fwc, list):
        raise ValueError("platform tables are not dict / list")
    for k, p in privs.items():
        if not isinstance(k, str) or not isinstance(p, PrivilegeLevel):
            raise ValueError("unexpected entry in a privilege level table: %r" % (k,))
        for s in ("pattern", "name", "previous_priv", "deescalate", "escalate", "escalate_prompt"):
            if not isinstance(getattr(p, s), str):
                raise ValueError("PrivilegeLevel.%s is not a str" % s)
        if not isinstance(p.escalate_auth, bool) or not isinstance(p.not_contains, list) \
                or not all(isinstance(x, str) for x in p.not_contains):
            raise ValueError("PrivilegeLevel fields of unexpected type in %r" % k)
        f = "(mkPF %s %s %s %s %s %s %s)" % (cbytes(p.pattern), cbytes(p.name), cbytes(p.previous_priv), cbytes(p.deescalate),
                                             cbytes(p.escalate), cbool(p.escalate_auth), cbytes(p.escalate_prompt))
        es.append("(%s, (%s, %s))" % (cbytes(k), f, clist([cbytes(x) for x in p.not_contains])))
    if not all(isinstance(x, str) for x in fwc):
        raise ValueError("failed_when_contains holds a non-str")
    return "(%s, %s)" % (clist(es), clist([cbytes(x) for x in fwc]))


# ---------------------------------------------------------------------------------------------
# source facts
# ---------------------------------------------------------------------------------------------
def provided_args_keys(repo):
    src = open(os.path.join(repo, "scrapli/factory.py")).read()
    tree = ast.parse(src)
    fn = [n for n in tree.body if isinstance(n, ast.FunctionDef) and n.name == "_build_provided_kwargs_dict"]
    if len(fn) != 1:
        raise ValueError("_build_provided_kwargs_dict not found exactly once")
    dicts = []
    for n in ast.walk(fn[0]):
        tgt = None
        if isinstance(n, ast.AnnAssign) and isinstance(n.target, ast.Name):
            tgt, val = n.target.id, n.value
        elif isinstance(n, ast.Assign) and len(n.targets) == 1 and isinstance(n.targets[0], ast.Name):
            tgt, val = n.targets[0].id, n.value
        if tgt == "_provided_args" and isinstance(val, ast.Dict):
            dicts.append(val)
    if len(dicts) != 1:
        raise ValueError("expected exactly one dict literal assigned to _provided_args, found %d" % len(dicts))
    keys = []
    for k, v in zip(dicts[0].keys, dicts[0].values):
        if not (isinstance(k, ast.Constant) and isinstance(k.value, str)):
            raise ValueError("non-literal key in _provided_args")
        if not (isinstance(v, ast.Name) and v.id == k.value):
            raise ValueError("_provided_args[%r] is not the parameter of the same name" % k.value)
        keys.append(k.value)
    return keys


def kw_signature(fn, skip=("self", "cls")):
    """[(name, has_default, default)] of the keyword-bindable parameters; (has_varkw)"""
    out, varkw = [], False
    for name, p in inspect.signature(fn).parameters.items():
        if name in skip:
            continue
        if p.kind == p.VAR_KEYWORD:
            varkw = True
            continue
        if p.kind == p.VAR_POSITIONAL:
            continue
        if p.kind not in (p.POSITIONAL_OR_KEYWORD, p.KEYWORD_ONLY):
            raise ValueError("unexpected parameter kind for %s" % name)
        out.append((name, p.default is not p.empty, None if p.default is p.empty else p.default))
    return out, varkw


def installed_transports(core):
    ok = []
    for t in core:
        try:
            importlib.import_module("scrapli.transport.plugins.%s.transport" % t)
            ok.append(t)
        except ModuleNotFoundError:
            pass
    return ok


def class_record(cid, cls, reg, is_async, is_network, subst, sig_from=None):
    sig, _ = kw_signature((sig_from or cls).__init__)
    items = []
    for name, has, d in sig:
        items.append("(%s, %s)" % (cbytes(name), ("Some %s" % encode_val(d, reg)) if has else "None"))
    return "(mkCls %d %s %s %s %s)" % (cid, cbool(is_async), cbool(is_network), clist(items), subst)


def observe_subst(cls, platform_mod, reg, is_async):
    """what a default-constructed core driver holds for the parameters that default to None"""
    kw = {"host": "h"}
    if is_async:
        kw["transport"] = "asynctelnet"
    obj = cls(**kw)
    privs, fwc = platform_mod.PRIVS, platform_mod.FAILED_WHEN_CONTAINS
    out = []
    for name, attr, cand in (("privilege_levels", obj.privilege_levels, privs), ("failed_when_contains", obj.failed_when_contains, fwc)):
        if attr is cand:
            out.append("(%s, (VRef %d %s false))" % (cbytes(name), reg.tok(cand), cbool(bool(cand))))
        elif canon_table(attr) == canon_table(cand):
            out.append("(%s, (VCopy %d %s))" % (cbytes(name), reg.tok(cand), cbool(bool(cand))))
        else:
            raise ValueError("%s.%s of a default-constructed driver is not the platform table" % (cls.__name__, name))
    for name in ("on_open", "on_close"):
        f = getattr(obj, name)
        if not callable(f):
            raise ValueError("%s default %s is not callable" % (cls.__name__, name))
        out.append("(%s, %s)" % (cbytes(name), encode_val(f, reg)) if reg.tok(f) else
                   "(%s, (VRef %d true true))" % (cbytes(name), reg.add(f)))
    return clist(out)


def generate(outdir, repo=None):
    from scrapli import factory as F
    from scrapli import transport as T
    from scrapli.driver import AsyncGenericDriver, AsyncNetworkDriver, GenericDriver, NetworkDriver

    repo = repo or os.path.dirname(os.path.dirname(os.path.abspath(F.__file__)))
    reg = Registry()
    keys = provided_args_keys(repo)
    bp_sig, bp_varkw = kw_signature(F._build_provided_kwargs_dict)
    if not bp_varkw:
        raise ValueError("_build_provided_kwargs_dict lost its **kwargs")
    lines = ["(* generated from the scrapli source tree by gen/gen_factory.py — do not edit *)",
             "From Verif Require Import Bytes Factory Heap.", ""]
    lines.append("Definition gen_provided_keys : list key := %s." % clist([cbytes(k) for k in keys]))
    lines.append("Definition gen_build_params : list key := %s." % clist([cbytes(n) for n, _, _ in bp_sig]))
    news = {}
    for nm, fac in (("sync", F.Scrapli), ("async", F.AsyncScrapli)):
        sig, varkw = kw_signature(fac.__new__)
        if not varkw:
            raise ValueError("%s.__new__ lost its **kwargs" % fac.__name__)
        news[nm] = sig
        lines.append("Definition gen_new_%s : list (key * option val) := %s." % (nm, clist(
            ["(%s, %s)" % (cbytes(n), ("Some %s" % encode_val(d, reg)) if has else "None") for n, has, d in sig])))
    core, aio = list(T.CORE_TRANSPORTS), list(T.ASYNCIO_TRANSPORTS)
    if not all(isinstance(x, str) for x in core + aio):
        raise ValueError("transport tables hold non-str")
    inst = installed_transports(core)
    lines.append("Definition gen_tenv : tenv := mkTenv %s %s %s." % (
        clist([cbytes(x) for x in core]), clist([cbytes(x) for x in aio]), clist([cbytes(x) for x in inst])))

    # classes: tokens of classes are their ids
    classes, class_ids = [], {}
    base = [(NetworkDriver, False, True), (AsyncNetworkDriver, True, True), (GenericDriver, False, False), (AsyncGenericDriver, True, False)]
    # default callables in signatures (generic_on_open) must be registered before the signatures are printed
    for c, _, _ in base:
        for _, has, d in kw_signature(c.__init__)[0]:
            if has and callable(d):
                reg.add(d)
    for c, is_async, is_net in base:
        cid = reg.add(c, c.__name__)
        class_ids[c] = cid
        classes.append(class_record(cid, c, reg, is_async, is_net, "[]"))
    defs, plat_tokens = [], {}
    core_maps = {"sync": [], "async": []}
    for nm, fac in (("sync", F.Scrapli), ("async", F.AsyncScrapli)):
        if list(fac.CORE_PLATFORM_MAP.keys()) != sorted(PLATFORMS) and sorted(fac.CORE_PLATFORM_MAP.keys()) != sorted(PLATFORMS):
            raise ValueError("CORE_PLATFORM_MAP of %s is not the five core platforms: %r" % (fac.__name__, list(fac.CORE_PLATFORM_MAP)))
        if set(fac.DRIVER_MAP.keys()) != {"network", "generic"}:
            raise ValueError("DRIVER_MAP keys changed")
    for p in PLATFORMS:
        mod = importlib.import_module("scrapli.driver.core.%s.base_driver" % p)
        tp, tf = reg.add(mod.PRIVS, p + ".PRIVS"), reg.add(mod.FAILED_WHEN_CONTAINS, p + ".FAILED_WHEN_CONTAINS")
        plat_tokens[p] = (tp, tf)
        defs.append(priv_tables(mod.PRIVS, mod.FAILED_WHEN_CONTAINS))
    for nm, fac, is_async in (("sync", F.Scrapli, False), ("async", F.AsyncScrapli, True)):
        for p in PLATFORMS:
            c = fac.CORE_PLATFORM_MAP[p]
            mod = importlib.import_module("scrapli.driver.core.%s.base_driver" % p)
            if not issubclass(c, AsyncNetworkDriver if is_async else NetworkDriver):
                raise ValueError("%s maps %s to a class of the wrong family" % (fac.__name__, p))
            cid = reg.add(c, c.__name__)
            class_ids[c] = cid
            subst = observe_subst(c, mod, reg, is_async)
            classes.append(class_record(cid, c, reg, is_async, True, subst))
            core_maps[nm].append("(%s, %d)" % (cbytes(p), cid))
    lines.append("Definition gen_classes : list cls := %s." % clist(["\n  " + c for c in classes]))
    for nm in ("sync", "async"):
        lines.append("Definition gen_core_%s : list (bytes * N) := %s." % (nm, clist(core_maps[nm])))
    dm = {}
    for nm, fac in (("sync", F.Scrapli), ("async", F.AsyncScrapli)):
        for k in ("network", "generic"):
            c = fac.DRIVER_MAP[k]
            if c not in class_ids:
                raise ValueError("DRIVER_MAP[%s] of %s is not a base driver" % (k, fac.__name__))
            dm[(nm, k)] = class_ids[c]
    required = [n for n, has, _ in news["sync"] if not has and n != "platform"]
    lines.append("Definition gen_required : list key := %s." % clist([cbytes(n) for n in required]))
    lines.append(
        "Definition gen_fenv (extra : list cls) (ct : community_table) : fenv :=\n"
        "  mkFenv gen_tenv gen_provided_keys gen_required\n"
        "    (fun a => if a then gen_core_async else gen_core_sync)\n"
        "    (fun a => if a then %d else %d) (fun a => if a then %d else %d)\n"
        "    (gen_classes ++ extra) ct." % (dm[("async", "network")], dm[("sync", "network")], dm[("async", "generic")], dm[("sync", "generic")]))
    lines.append("Definition gen_platform_tables : list (bytes * (N * N)) := %s." % clist(
        ["(%s, (%d, %d))" % (cbytes(p), plat_tokens[p][0], plat_tokens[p][1]) for p in PLATFORMS]))
    lines.append("Definition gen_defs : list tables := %s." % clist(["\n  " + d for d in defs]))
    lines.append("Definition gen_init : state := init_state gen_defs.")
    text = "\n".join(lines) + "\n"
    path = os.path.join(outdir, "Gen_Factory.v")
    if not os.path.exists(path) or open(path).read() != text:
        open(path, "w").write(text)
    info = {"provided_keys": len(keys), "classes": len(classes), "installed_transports": inst,
            "core_transports": core, "asyncio_transports": aio,
            "levels": {p: len(importlib.import_module("scrapli.driver.core.%s.base_driver" % p).PRIVS) for p in PLATFORMS}}
    return path, info, {"registry": reg, "class_ids": class_ids, "keys": keys, "news": news, "plat_tokens": plat_tokens,
                        "driver_map": dm, "installed": inst}


if __name__ == "__main__":
    print(generate(sys.argv[1])[:2])
