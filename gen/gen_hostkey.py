"""Gen_HostKey.v — what the current source tree says about host-key strictness (fail-closed):
defaults of auth_strict_key (driver signatures, the four PluginTransportArgs dataclasses), the
type check of _setup_auth, the order and guards of the security-relevant calls in each library
transport's open(), what the asyncssh transport hands to asyncssh.connect as known_hosts and which
exceptions of connect() it maps, the literals / test of the system transport's host-key
options, and that SSHKnownHosts keeps no memo of an earlier read of the file."""
import ast
import inspect
import os
import sys

from harness import common

TRANSPORTS = {
    "paramiko": "scrapli/transport/plugins/paramiko/transport.py",
    "ssh2": "scrapli/transport/plugins/ssh2/transport.py",
    "asyncssh": "scrapli/transport/plugins/asyncssh/transport.py",
    "system": "scrapli/transport/plugins/system/transport.py",
}

# codes of the calls that matter in open()
CALLS = {"start_client": 1, "handshake": 1, "_verify_key": 2, "_verify_key_value": 3, "_authenticate": 5,
         "connect": 6, "_open_channel": 7, "open_session": 7}
EXC = {"PermissionDenied": 1, "TimeoutError": 2, "HostKeyNotVerifiable": 3, "KeyExchangeFailed": 4, "ConnectionLost": 5}


def cb(s):
    return "[" + ";".join(str(x) for x in s.encode("utf-8")) + "]"


def parse(rel):
    with open(os.path.join(common.REPO, rel), encoding="utf-8") as f:
        return ast.parse(f.read())


def find_class(tree, name):
    for n in tree.body:
        if isinstance(n, ast.ClassDef) and n.name == name:
            return n
    raise ValueError("class %s not found" % name)


def find_func(cls, name):
    for n in cls.body:
        if isinstance(n, (ast.FunctionDef, ast.AsyncFunctionDef)) and n.name == name:
            return n
    raise ValueError("method %s not found" % name)


def is_strict_attr(e):
    return ast.unparse(e) == "self.plugin_transport_args.auth_strict_key"


def plugin_default(tree):
    cls = find_class(tree, "PluginTransportArgs")
    for n in cls.body:
        if isinstance(n, ast.AnnAssign) and isinstance(n.target, ast.Name) and n.target.id == "auth_strict_key":
            if not (isinstance(n.value, ast.Constant) and isinstance(n.value.value, bool)):
                raise ValueError("PluginTransportArgs.auth_strict_key default is not a bool literal: %s" % ast.unparse(n))
            return n.value.value
    raise ValueError("PluginTransportArgs has no auth_strict_key")


def call_name(c):
    f = c.func
    if isinstance(f, ast.Attribute):
        return f.attr
    if isinstance(f, ast.Name):
        return f.id
    return None


def open_order(fn):
    """[(code, guarded-by-strict)] of the relevant calls of open(), in evaluation order of the
    statement list (an `if strict:` body counts as guarded; any other compound statement around a
    relevant call except try/if-strict aborts)."""
    out = []

    def calls_in(node):
        found = []
        for c in ast.walk(node):
            if isinstance(c, ast.Call) and call_name(c) in CALLS:
                found.append((c.lineno, c.col_offset, CALLS[call_name(c)]))
        return [x[2] for x in sorted(found)]

    def walk(stmts, guarded):
        for s in stmts:
            if isinstance(s, ast.If):
                inner = calls_in(s)
                if not inner:
                    continue
                if is_strict_attr(s.test) and not s.orelse:
                    walk(s.body, True)
                else:
                    raise ValueError("relevant call under an unexpected condition: %s" % ast.unparse(s.test))
            elif isinstance(s, ast.Try):
                walk(s.body, guarded)
                for h in s.handlers:
                    if calls_in(h):
                        raise ValueError("relevant call inside an except handler")
                walk(s.orelse, guarded)
                walk(s.finalbody, guarded)
            elif isinstance(s, (ast.For, ast.While, ast.With, ast.AsyncWith, ast.AsyncFor, ast.FunctionDef, ast.AsyncFunctionDef, ast.Match)):
                if calls_in(s):
                    raise ValueError("relevant call inside %s" % type(s).__name__)
            else:
                for c in calls_in(s):
                    out.append((c, guarded))

    walk(fn.body, False)
    return out


def asyncssh_known_hosts(fn):
    """0: the literal None ; 1: `<plugin args>.ssh_known_hosts_file if <strict> else None`
    (strict => the resolved file).  The dict must not be overwritten for that key later, except by
    the user's transport_options update."""
    val = None
    for n in ast.walk(fn):
        if isinstance(n, ast.Dict):
            for k, v in zip(n.keys, n.values):
                if isinstance(k, ast.Constant) and k.value == "known_hosts":
                    if val is not None:
                        raise ValueError("known_hosts set twice")
                    val = v
        if isinstance(n, ast.Subscript) and isinstance(n.slice, ast.Constant) and n.slice.value == "known_hosts" and isinstance(n.ctx, ast.Store):
            raise ValueError("known_hosts assigned by subscript: not understood")
    if val is None:
        raise ValueError("no known_hosts argument found")
    if isinstance(val, ast.Constant) and val.value is None:
        return 0
    if isinstance(val, ast.IfExp) and is_strict_attr(val.test) and isinstance(val.orelse, ast.Constant) and val.orelse.value is None \
            and ast.unparse(val.body) == "self.plugin_transport_args.ssh_known_hosts_file":
        return 1
    raise ValueError("known_hosts argument not understood: %s" % ast.unparse(val))


def asyncssh_mapped(fn):
    """exception classes of connect() whose handler ends in `raise ScrapliAuthenticationFailed`,
    with whether the mapping is unconditional (1) or only in strict mode (2: handler starts with
    `if not strict: raise`)."""
    out = []
    for n in ast.walk(fn):
        if isinstance(n, ast.Try) and any(isinstance(c, ast.Call) and call_name(c) == "connect" for b in n.body for c in ast.walk(b)):
            for h in n.handlers:
                names = []
                t = h.type
                for e in (t.elts if isinstance(t, ast.Tuple) else [t]):
                    nm = e.attr if isinstance(e, ast.Attribute) else e.id
                    if nm not in EXC:
                        raise ValueError("unknown exception mapped around connect(): %s" % nm)
                    names.append(nm)
                last = h.body[-1]
                if not (isinstance(last, ast.Raise) and isinstance(last.exc, ast.Call) and call_name(last.exc) == "ScrapliAuthenticationFailed"):
                    raise ValueError("handler for %s does not raise ScrapliAuthenticationFailed" % names)
                mode = 1
                first = h.body[0]
                if isinstance(first, ast.If):
                    if ast.unparse(first.test) == "not self.plugin_transport_args.auth_strict_key" and len(first.body) == 1 \
                            and isinstance(first.body[0], ast.Raise) and first.body[0].exc is None and not first.orelse:
                        mode = 2
                    else:
                        raise ValueError("conditional handler not understood: %s" % ast.unparse(first.test))
                out += [(EXC[nm], mode) for nm in names]
    if not out:
        raise ValueError("no try around connect()")
    return out


def system_hostkey(fn):
    """the `if <strict test>:` statement of _build_open_cmd that writes StrictHostKeyChecking:
    (test kind, literals of the off-branch, literals of the on-branch).  test kind 1 = `x is False`."""
    target = None
    for n in ast.walk(fn):
        if isinstance(n, ast.If) and "StrictHostKeyChecking" in ast.unparse(n) and "auth_strict_key" in ast.unparse(n.test):
            target = n
            break
    if target is None:
        raise ValueError("no strict-key conditional in _build_open_cmd")
    t = target.test
    if isinstance(t, ast.Compare) and is_strict_attr(t.left) and len(t.ops) == 1 and isinstance(t.ops[0], ast.Is) \
            and isinstance(t.comparators[0], ast.Constant) and t.comparators[0].value is False:
        kind = 1
    else:
        raise ValueError("strict test of the system transport not understood: %s" % ast.unparse(t))

    def literals(stmts):
        out = []
        for s in stmts:
            for c in ast.walk(s):
                if isinstance(c, ast.Call) and isinstance(c.func, ast.Attribute) and c.func.attr == "debug":
                    for x in ast.walk(c):
                        x._skip = True
            found = []
            for c in ast.walk(s):
                if isinstance(c, ast.Constant) and isinstance(c.value, str) and not getattr(c, "_skip", False):
                    found.append((c.lineno, c.col_offset, c.value))
            out += [x[2] for x in sorted(found)]
        return out

    off = literals(target.body)
    on = [x for x in literals(target.orelse)]
    return kind, off, on


def object_state(cls):
    """sorted names of the attributes the class stores on `self` anywhere in its body (assignment,
    annotated / augmented assignment, tuple targets, setattr(self, "<literal>", ...), walrus is not
    an attribute store).  This is the state a transport object can carry from one open() to the
    next.  Fail-closed on stores that cannot be named: setattr with a computed name, writes through
    self.__dict__ / vars(self), `global` / `nonlocal`, and class-level mutable containers."""
    names = set()

    def targets(t):
        if isinstance(t, (ast.Tuple, ast.List)):
            for e in t.elts:
                targets(e)
        elif isinstance(t, ast.Starred):
            targets(t.value)
        elif isinstance(t, ast.Attribute) and isinstance(t.value, ast.Name) and t.value.id == "self":
            names.add(t.attr)
        elif isinstance(t, (ast.Attribute, ast.Subscript)):
            base = t
            while isinstance(base, (ast.Attribute, ast.Subscript)):
                base = base.value
            src = ast.unparse(t)
            if "__dict__" in src or "vars(" in src:
                raise ValueError("store through the instance dict: %s" % src)
            if isinstance(base, ast.Name) and base.id == "self":
                # self.x.y = ... / self.x[k] = ... : mutates an object reachable from self.x
                first = t
                while not (isinstance(first, ast.Attribute) and isinstance(first.value, ast.Name) and first.value.id == "self"):
                    first = first.value
                names.add(first.attr + ".*")

    for n in ast.walk(cls):
        if isinstance(n, ast.Assign):
            for t in n.targets:
                targets(t)
        elif isinstance(n, (ast.AnnAssign, ast.AugAssign)):
            targets(n.target)
        elif isinstance(n, (ast.For, ast.AsyncFor)):
            targets(n.target)
        elif isinstance(n, (ast.With, ast.AsyncWith)):
            for it in n.items:
                if it.optional_vars is not None:
                    targets(it.optional_vars)
        elif isinstance(n, (ast.Global, ast.Nonlocal)):
            raise ValueError("global / nonlocal in a transport class")
        elif isinstance(n, ast.Call) and call_name(n) in ("setattr", "__setattr__"):
            a = n.args
            if call_name(n) == "setattr" and len(a) == 3 and isinstance(a[1], ast.Constant) and isinstance(a[1].value, str):
                if ast.unparse(a[0]) == "self":
                    names.add(a[1].value)
            else:
                raise ValueError("setattr with a computed name: %s" % ast.unparse(n))
    for n in cls.body:     # class-level state shared by (and surviving) every object
        if isinstance(n, (ast.Assign, ast.AnnAssign)) and n.value is not None \
                and isinstance(n.value, (ast.Dict, ast.List, ast.Set, ast.Call, ast.ListComp, ast.DictComp, ast.SetComp)):
            raise ValueError("class-level mutable attribute: %s" % ast.unparse(n))
    return sorted(names)


CACHE_DECORATORS = ("lru_cache", "cache", "cached_property", "cachedmethod", "cached", "memoize", "memoized")
STAT_CALLS = ("getmtime", "getctime", "getsize", "stat", "lstat", "fstat", "scandir")


def known_hosts_memo_free(tree, transport_trees):
    """[(fact, holds)] — SSHKnownHosts(file) reads and parses the file on EVERY construction and nothing of an earlier
    read survives it, and the library transports construct it anew inside every check:
      no class-level attribute on SSHKnownHosts (a dict there outlives every object), no decorator on its methods
      (functools caches), no global / nonlocal, no store through the class (type(self).x, self.__class__.x, SSHKnownHosts.x,
      cls.x), no module-level container the class's code refers to, no file-metadata call (getmtime / stat / getsize ...:
      what a staleness test would be made of), __init__ contains the read (read_text / open / read) with no `return`
      anywhere in it (no early exit around the read) and `_parse` is called in it; every library transport calls
      SSHKnownHosts( only inside _verify_key / _verify_key_value (a fresh object per check; what the transport object
      itself stores is gen_state_*)."""
    cls = find_class(tree, "SSHKnownHosts")
    facts = []
    class_attrs = [n for n in cls.body if isinstance(n, (ast.Assign, ast.AnnAssign, ast.AugAssign))]
    facts.append(("no class-level attribute", not class_attrs))
    funcs = [n for n in cls.body if isinstance(n, (ast.FunctionDef, ast.AsyncFunctionDef))]
    other = [n for n in cls.body if not isinstance(n, (ast.FunctionDef, ast.AsyncFunctionDef, ast.Assign, ast.AnnAssign, ast.AugAssign))
             and not (isinstance(n, ast.Expr) and isinstance(n.value, ast.Constant) and isinstance(n.value.value, str))]
    if other:
        raise ValueError("SSHKnownHosts body contains %s: not understood" % type(other[0]).__name__)
    facts.append(("no decorator on a method", not any(f.decorator_list for f in funcs)))
    names_used, stores_via_class, glob, stat_calls, cache_names = set(), [], [], [], []
    for n in ast.walk(cls):
        if isinstance(n, ast.Name):
            names_used.add(n.id)
            if n.id in CACHE_DECORATORS:
                cache_names.append(n.id)
        if isinstance(n, ast.Attribute) and n.attr in CACHE_DECORATORS:
            cache_names.append(n.attr)
        if isinstance(n, (ast.Global, ast.Nonlocal)):
            glob.append(n)
        if isinstance(n, ast.Attribute):
            src = ast.unparse(n.value)
            if src in ("type(self)", "self.__class__", "SSHKnownHosts", "cls") or "__dict__" in src:
                stores_via_class.append(ast.unparse(n))
        if isinstance(n, ast.Call) and call_name(n) in STAT_CALLS:
            stat_calls.append(call_name(n))
    facts.append(("no functools cache", not cache_names))
    facts.append(("no global / nonlocal", not glob))
    facts.append(("no access through the class object", not stores_via_class))
    facts.append(("no file-metadata call", not stat_calls))
    module_containers = []
    for n in tree.body:
        if isinstance(n, (ast.Assign, ast.AnnAssign)) and n.value is not None and \
                isinstance(n.value, (ast.Dict, ast.List, ast.Set, ast.Call, ast.ListComp, ast.DictComp, ast.SetComp)):
            for t in (n.targets if isinstance(n, ast.Assign) else [n.target]):
                if isinstance(t, ast.Name) and t.id in names_used:
                    module_containers.append(t.id)
    facts.append(("no module-level container referred to", not module_containers))
    init = find_func(cls, "__init__")
    reads = [c for c in ast.walk(init) if isinstance(c, ast.Call) and call_name(c) in ("read_text", "open", "read", "read_bytes")]
    returns = [r for r in ast.walk(init) if isinstance(r, ast.Return)]
    parses = [c for c in ast.walk(init) if isinstance(c, ast.Call) and call_name(c) == "_parse"]
    facts.append(("__init__ reads the file", len(reads) == 1))
    facts.append(("__init__ has no return around the read", not returns))
    facts.append(("__init__ parses what it read", len(parses) == 1))
    lookup = find_func(cls, "lookup")
    lookup_stores = [n for n in ast.walk(lookup) if isinstance(n, (ast.Attribute, ast.Subscript)) and isinstance(n.ctx, ast.Store)]
    facts.append(("lookup stores nothing", not lookup_stores))
    for k, cname in (("paramiko", "ParamikoTransport"), ("ssh2", "Ssh2Transport"), ("asyncssh", "AsyncsshTransport")):
        tcls = find_class(transport_trees[k], cname)
        inside, outside = 0, 0
        for f in tcls.body:
            if isinstance(f, (ast.FunctionDef, ast.AsyncFunctionDef)):
                cnt = sum(1 for c in ast.walk(f) if isinstance(c, ast.Call) and call_name(c) == "SSHKnownHosts")
                if f.name in ("_verify_key", "_verify_key_value"):
                    inside += cnt
                else:
                    outside += cnt
        mod_level = sum(1 for n in transport_trees[k].body if not isinstance(n, ast.ClassDef)
                        for c in ast.walk(n) if isinstance(c, ast.Call) and call_name(c) == "SSHKnownHosts")
        facts.append(("%s constructs SSHKnownHosts inside its checks only" % k, inside >= 1 and outside == 0 and mod_level == 0))
    return facts


def generate(outdir):
    from scrapli.driver import AsyncGenericDriver, AsyncNetworkDriver, GenericDriver, NetworkDriver
    from scrapli.driver import core
    from scrapli.driver.base.base_driver import BaseDriver
    from scrapli.exceptions import ScrapliTypeError

    lines = ["(* generated from the source tree by gen/gen_hostkey.py — do not edit *)",
             "From Coq Require Import NArith List Bool.", "Import ListNotations.", "Open Scope N_scope."]
    info = {}
    # 1. defaults in driver signatures
    classes = [BaseDriver, GenericDriver, AsyncGenericDriver, NetworkDriver, AsyncNetworkDriver] + [getattr(core, n) for n in sorted(core.__all__)]
    defaults = []
    for c in classes:
        p = inspect.signature(c.__init__).parameters.get("auth_strict_key")
        if p is None:
            raise ValueError("%s.__init__ has no auth_strict_key parameter" % c.__name__)
        if not isinstance(p.default, bool):
            raise ValueError("%s: auth_strict_key default is %r" % (c.__name__, p.default))
        defaults.append((c.__name__, p.default))
    if len(defaults) < 15:
        raise ValueError("too few driver classes found")
    lines.append("Definition gen_driver_defaults : list (list N * bool) := [%s]." % "; ".join(
        "(%s, %s)" % (cb(n), "true" if d else "false") for n, d in defaults))
    info["driver_defaults"] = {n: d for n, d in defaults}
    # 2. dataclass defaults
    trees = {k: parse(v) for k, v in TRANSPORTS.items()}
    pd = [(k, plugin_default(trees[k])) for k in ("paramiko", "ssh2", "asyncssh", "system")]
    lines.append("Definition gen_plugin_defaults : list (list N * bool) := [%s]." % "; ".join(
        "(%s, %s)" % (cb(n), "true" if d else "false") for n, d in pd))
    info["plugin_defaults"] = dict(pd)
    # 3. type check of _setup_auth
    rejected = []
    for v in (0, 1, None, "", "False", "no", [], 0.0, b"", (), {}):
        try:
            BaseDriver._setup_auth(auth_private_key="", auth_strict_key=v, auth_bypass=False)
            rejected.append((repr(v), False))
        except ScrapliTypeError:
            rejected.append((repr(v), True))
    lines.append("Definition gen_nonbool_rejected : list (list N * bool) := [%s]." % "; ".join(
        "(%s, %s)" % (cb(n), "true" if d else "false") for n, d in rejected))
    passes = all(BaseDriver._setup_auth(auth_private_key="", auth_strict_key=b, auth_bypass=False)[1] is b for b in (True, False))
    lines.append("Definition gen_bools_pass_unchanged : bool := %s." % ("true" if passes else "false"))
    info["nonbool_rejected"] = dict(rejected)
    # 4. order of calls in open()
    for k, cname in (("paramiko", "ParamikoTransport"), ("ssh2", "Ssh2Transport"), ("asyncssh", "AsyncsshTransport")):
        fn = find_func(find_class(trees[k], cname), "open")
        order = open_order(fn)
        lines.append("Definition gen_open_%s : list (N * bool) := [%s]." % (k, "; ".join("(%d, %s)" % (c, "true" if g else "false") for c, g in order)))
        info["open_" + k] = order
    # 4b. what a transport object stores on itself (carried from one open() to the next)
    for k, cname in (("paramiko", "ParamikoTransport"), ("ssh2", "Ssh2Transport"), ("asyncssh", "AsyncsshTransport")):
        st = object_state(find_class(trees[k], cname))
        lines.append("Definition gen_state_%s : list (list N) := [%s]." % (k, "; ".join(cb(x) for x in st)))
        info["state_" + k] = st
    afn = find_func(find_class(trees["asyncssh"], "AsyncsshTransport"), "open")
    kh = asyncssh_known_hosts(afn)
    lines.append("Definition gen_asyncssh_known_hosts : N := %d." % kh)
    mapped = asyncssh_mapped(afn)
    lines.append("Definition gen_asyncssh_mapped : list (N * N) := [%s]." % "; ".join("(%d, %d)" % m for m in mapped))
    info["asyncssh_known_hosts"] = kh
    info["asyncssh_mapped"] = mapped
    # 4c. known_hosts is read and parsed at every check (no memo of an earlier read)
    memo = known_hosts_memo_free(parse("scrapli/ssh_config.py"), trees)
    lines.append("Definition gen_known_hosts_memo_free : list (list N * bool) := [%s]." % "; ".join(
        "(%s, %s)" % (cb(n), "true" if d else "false") for n, d in memo))
    info["known_hosts_memo_free"] = {n: d for n, d in memo}
    # 5. system transport literals
    sfn = find_func(find_class(trees["system"], "SystemTransport"), "_build_open_cmd")
    kind, off, on = system_hostkey(sfn)
    lines.append("Definition gen_system_test : N := %d." % kind)
    lines.append("Definition gen_system_off : list (list N) := [%s]." % "; ".join(cb(x) for x in off))
    lines.append("Definition gen_system_on : list (list N) := [%s]." % "; ".join(cb(x) for x in on))
    info["system_off"] = off
    info["system_on"] = on
    text = "\n".join(lines) + "\n"
    path = os.path.join(outdir, "Gen_HostKey.v")
    if not os.path.exists(path) or open(path).read() != text:
        open(path, "w").write(text)
    return path, info


if __name__ == "__main__":
    print(generate(sys.argv[1]))
