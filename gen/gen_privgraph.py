"""Gen_PrivGraph.v — the privilege tables of the five core platforms (with and without registered
configuration sessions for EOS / NX-OS), the iteration order of the `_priv_graph` sets of a
constructed driver, the loop-bound factor of acquire_priv and the "interaction stops at a
completion pattern" fact of send_inputs_interact — all read from the CURRENT source tree.
Fail-closed: anything unexpected raises."""
import ast
import os
import sys

PLATFORMS = ["cisco_iosxe", "cisco_iosxr", "cisco_nxos", "arista_eos", "juniper_junos"]
SESSIONS = {"cisco_nxos": ["s1", "sess-2"], "arista_eos": ["s1", "sess-2"]}
SOURCES = ["scrapli/driver/network/sync_driver.py", "scrapli/driver/network/async_driver.py",
           "scrapli/driver/network/base_driver.py", "scrapli/channel/sync_channel.py",
           "scrapli/channel/async_channel.py"] + ["scrapli/driver/core/%s/base_driver.py" % p for p in PLATFORMS]


def _repo():
    return os.environ.get("VERIF_REPO", "/repo")


def driver_class(platform, sync=True):
    import scrapli.driver.core as core
    return {"cisco_iosxe": (core.IOSXEDriver, core.AsyncIOSXEDriver), "cisco_iosxr": (core.IOSXRDriver, core.AsyncIOSXRDriver),
            "cisco_nxos": (core.NXOSDriver, core.AsyncNXOSDriver), "arista_eos": (core.EOSDriver, core.AsyncEOSDriver),
            "juniper_junos": (core.JunosDriver, core.AsyncJunosDriver)}[platform][0 if sync else 1]


def table_of(levels):
    """levels: dict name -> PrivilegeLevel  ->  (names, rows, classes, root) ; rows = (prev idx|None, esc, deesc, auth)"""
    names = list(levels.keys())
    rows = []
    for n in names:
        lv = levels[n]
        if lv.name != n:
            raise ValueError("privilege level key %r != name %r" % (n, lv.name))
        for f in ("previous_priv", "escalate", "deescalate"):
            if not isinstance(getattr(lv, f), str):
                raise ValueError("%s.%s is not a str" % (n, f))
        if not isinstance(lv.escalate_auth, bool):
            raise ValueError("%s.escalate_auth is not a bool" % n)
        if lv.previous_priv == "":
            prev = None
        elif lv.previous_priv in names:
            prev = names.index(lv.previous_priv)
        else:
            raise ValueError("%s.previous_priv %r is not a level" % (n, lv.previous_priv))
        rows.append((prev, lv.escalate.encode("latin-1"), lv.deescalate.encode("latin-1"), lv.escalate_auth))
    roots = [i for i, r in enumerate(rows) if r[0] is None]
    if len(roots) != 1:
        raise ValueError("expected exactly one level without previous_priv, got %r" % (roots,))
    key = lambda n: (levels[n].pattern, tuple(levels[n].not_contains))
    classes = [[j for j, m in enumerate(names) if key(m) == key(n)] for n in names]
    return names, rows, classes, roots[0]


def graph_order(driver, names):
    """iteration order of driver._priv_graph[level] for every level (python set iteration)"""
    g = driver._priv_graph
    if sorted(g.keys()) != sorted(names):
        raise ValueError("_priv_graph keys %r != levels %r" % (sorted(g.keys()), sorted(names)))
    return [[names.index(x) for x in g[n]] for n in names]


def variants():
    """[(label, platform, sessions, driver-levels dict, order)] from constructed (sync) drivers"""
    import importlib
    from copy import deepcopy
    out = []
    for p in PLATFORMS:
        mod = importlib.import_module("scrapli.driver.core.%s.base_driver" % p)
        for k in range(len(SESSIONS.get(p, [])) + 1):
            sess = SESSIONS.get(p, [])[:k]
            d = driver_class(p)(host="gen", transport="telnet", auth_bypass=True)
            if k == 0:
                # the constructed driver must carry exactly the module's PRIVS table
                a = {n: tuple(getattr(lv, f) for f in lv.__slots__) for n, lv in mod.PRIVS.items()}
                b = {n: tuple(getattr(lv, f) for f in lv.__slots__) for n, lv in d.privilege_levels.items()}
                if a != b or list(mod.PRIVS) != list(d.privilege_levels):
                    raise ValueError("%s: driver.privilege_levels differs from PRIVS" % p)
            for s in sess:
                d.register_configuration_session(s)
            label = p + ("" if k == 0 else "_s%d" % k)
            names, rows, classes, root = table_of(d.privilege_levels)
            out.append({"label": label, "platform": p, "sessions": sess, "names": names, "rows": rows,
                        "classes": classes, "root": root, "order": graph_order(d, names)})
    return out


def bound_factor():
    """the k of `privilege_change_count > len(self.privilege_levels) * k` in both acquire_priv twins"""
    ks = []
    for rel in ("scrapli/driver/network/sync_driver.py", "scrapli/driver/network/async_driver.py"):
        tree = ast.parse(open(os.path.join(_repo(), rel)).read())
        fns = [n for n in ast.walk(tree) if isinstance(n, (ast.FunctionDef, ast.AsyncFunctionDef)) and n.name == "acquire_priv"]
        if len(fns) != 1:
            raise ValueError("%s: acquire_priv not found once" % rel)
        fn = fns[0]
        loops = [n for n in ast.walk(fn) if isinstance(n, ast.While)]
        if len(loops) != 1 or not (isinstance(loops[0].test, ast.Constant) and loops[0].test.value is True):
            raise ValueError("%s: acquire_priv is not a single `while True` loop" % rel)
        body = loops[0].body
        # shape: ... ; privilege_change_count += 1 ; if privilege_change_count > len(self.privilege_levels) * k: raise
        incs = [n for n in body if isinstance(n, ast.AugAssign)]
        if len(incs) != 1 or not (isinstance(incs[0].op, ast.Add) and isinstance(incs[0].value, ast.Constant)
                                  and incs[0].value.value == 1 and getattr(incs[0].target, "id", None) == "privilege_change_count"):
            raise ValueError("%s: counter increment not recognised" % rel)
        if body.index(incs[0]) != len(body) - 2:
            raise ValueError("%s: counter increment is not followed by the bound test only" % rel)
        test = body[-1]
        if not (isinstance(test, ast.If) and not test.orelse and len(test.body) == 2 and isinstance(test.body[-1], ast.Raise)):
            raise ValueError("%s: bound test not recognised" % rel)
        exc = test.body[-1].exc
        if not (isinstance(exc, ast.Call) and getattr(exc.func, "id", None) == "ScrapliPrivilegeError"):
            raise ValueError("%s: bound test does not raise ScrapliPrivilegeError" % rel)
        c = test.test
        ok = (isinstance(c, ast.Compare) and len(c.ops) == 1 and isinstance(c.ops[0], ast.Gt)
              and getattr(c.left, "id", None) == "privilege_change_count")
        rhs = c.comparators[0] if ok else None
        if ok and isinstance(rhs, ast.BinOp) and isinstance(rhs.op, ast.Mult):
            a, b = rhs.left, rhs.right
            if isinstance(a, ast.Constant):
                a, b = b, a
            if (isinstance(b, ast.Constant) and isinstance(b.value, int) and not isinstance(b.value, bool)
                    and ast.unparse(a) == "len(self.privilege_levels)" and 0 <= b.value <= 50):
                ks.append(b.value)
                continue
        if ok and ast.unparse(rhs) == "len(self.privilege_levels)":
            ks.append(1)
            continue
        raise ValueError("%s: bound expression not recognised: %s" % (rel, ast.unparse(c)))
    if ks[0] != ks[1]:
        raise ValueError("sync and asyncio acquire_priv bounds differ: %r" % (ks,))
    return ks[0]


def stops_at_complete():
    """does send_inputs_interact leave its event loop early (a `break` in the for loop)?  both twins"""
    res = []
    for rel in ("scrapli/channel/sync_channel.py", "scrapli/channel/async_channel.py"):
        tree = ast.parse(open(os.path.join(_repo(), rel)).read())
        fns = [n for n in ast.walk(tree) if isinstance(n, (ast.FunctionDef, ast.AsyncFunctionDef)) and n.name == "send_inputs_interact"]
        if len(fns) != 1:
            raise ValueError("%s: send_inputs_interact not found once" % rel)
        loops = [n for n in ast.walk(fns[0]) if isinstance(n, ast.For)]
        if len(loops) != 1:
            raise ValueError("%s: send_inputs_interact does not have exactly one for loop" % rel)
        exits = [n for n in ast.walk(loops[0]) if isinstance(n, (ast.Break, ast.Return, ast.Continue))]
        if any(not isinstance(n, ast.Break) for n in exits) or len(exits) > 1:
            raise ValueError("%s: unexpected control flow in the event loop" % rel)
        res.append(bool(exits))
    if res[0] != res[1]:
        raise ValueError("sync and asyncio send_inputs_interact differ in early exit: %r" % (res,))
    return res[0]


def cb(b):
    return "[" + ";".join(str(x) for x in b) + "]%N"


def cnl(l):
    return "[" + ";".join(str(x) for x in l) + "]%nat"


def cnll(ll):
    return "[" + "; ".join(cnl(l) for l in ll) + "]"


def generate(outdir):
    vs = variants()
    k = bound_factor()
    stop = stops_at_complete()
    lines = ["(* generated from the source tree by gen/gen_privgraph.py — do not edit *)",
             "From Verif Require Import Bytes PrivGraph.",
             "Definition gen_factor : nat := %d%%nat." % k,
             "Definition gen_stop : bool := %s." % ("true" if stop else "false")]
    for v in vs:
        lab = v["label"]
        lines.append("(* %s: %s *)" % (lab, ", ".join("%d=%s" % (i, n) for i, n in enumerate(v["names"]))))
        rows = []
        for prev, esc, de, auth in v["rows"]:
            rows.append("mkP %s %s %s %s" % ("None" if prev is None else "(Some %d%%nat)" % prev, cb(esc), cb(de),
                                             "true" if auth else "false"))
        lines.append("Definition gen_%s_tab : table := [%s]." % (lab, ";\n  ".join(rows)))
        lines.append("Definition gen_%s_cls : list (list nat) := %s." % (lab, cnll(v["classes"])))
        lines.append("Definition gen_%s_order : list (list nat) := %s." % (lab, cnll(v["order"])))
        lines.append("Definition gen_%s_root : nat := %d%%nat." % (lab, v["root"]))
    lines.append("Definition gen_platforms : list (table * list (list nat) * list (list nat) * nat) := [%s]." % ";\n  ".join(
        "(gen_%s_tab, gen_%s_cls, gen_%s_order, gen_%s_root)" % ((v["label"],) * 4) for v in vs))
    text = "\n".join(lines) + "\n"
    path = os.path.join(outdir, "Gen_PrivGraph.v")
    if not os.path.exists(path) or open(path).read() != text:
        open(path, "w").write(text)
    info = {"factor": k, "stop_at_complete": stop,
            "variants": {v["label"]: {"levels": v["names"], "previous": [r[0] for r in v["rows"]]} for v in vs}}
    return path, info, vs


if __name__ == "__main__":
    sys.path.insert(0, _repo())
    print(generate(sys.argv[1])[:2])
