"""Gen_Auth.v — what the in-channel login of the CURRENT source tree is made of (fail-closed):

* the compiled login / password / passphrase patterns of a Channel with default arguments and the
  default prompt patterns (BaseChannelArgs, Driver, GenericDriver), translated by gen/regex.py from
  the pattern text and flags of the compiled objects;
* the literals `_ssh_message_handler` looks for and whether it looks in `output.lower()` or `output`
  (read from the AST of its if/elif chain);
* the return character, the kick interval `_pre_channel_authenticate_telnet` computes for a few
  timeout_ops values (by running it);
* the SHAPE of the four login loops (channel_authenticate_telnet / _ssh, sync and asyncio) read
  from their AST: order of the steps of the while-loop body, and for every
  `if re.search(pattern, buf)` block which pattern it looks for (resolved through the tuple returned
  by `_pre_channel_authenticate_*`, so local names do not matter), whether it clears the buffer,
  counts, the limit K of `count > K`, that count < raise < write < return are in that order, and which
  argument it writes.  Anything the reader does not recognise raises."""
import ast
import inspect
import os
import re
import sys
import textwrap

from gen import regex as rx


class Unsupported(Exception):
    pass


def coq_bytes(b):
    b = b.encode("latin-1") if isinstance(b, str) else bytes(b)
    return "[" + ";".join(str(x) for x in b) + "]"


def coq_bool(b):
    return "true" if b else "false"


ROLE_ATTR = {"auth_telnet_login_pattern": 1, "auth_password_pattern": 2, "auth_passphrase_pattern": 3}
PARAM_ROLE = {"auth_username": 1, "auth_password": 2, "auth_private_key_passphrase": 3}
R_PROMPT, R_START, R_INTERVAL = 4, 5, 6
# step codes of the while-loop body
S_READ, S_KICK, S_ACC, S_HANDLER, S_BLOCK, S_SLEEP = 1, 2, 3, 4, 5, 6


def _func(cls, name):
    fn = getattr(cls, name)
    fn = getattr(fn, "__wrapped__", fn)
    src = textwrap.dedent(inspect.getsource(fn))
    tree = ast.parse(src)
    f = tree.body[0]
    if not isinstance(f, (ast.FunctionDef, ast.AsyncFunctionDef)) or f.name != name:
        raise Unsupported("%s: not a function" % name)
    return f


def _is_self_call(node, meth):
    """self.<meth>(...) possibly awaited"""
    if isinstance(node, ast.Await):
        node = node.value
    return (isinstance(node, ast.Call) and isinstance(node.func, ast.Attribute) and node.func.attr == meth
            and isinstance(node.func.value, ast.Name) and node.func.value.id == "self")


def _kw(call, name):
    if isinstance(call, ast.Await):
        call = call.value
    for k in call.keywords:
        if k.arg == name:
            return k.value
    return None


def _strip_doc(body):
    if body and isinstance(body[0], ast.Expr) and isinstance(body[0].value, ast.Constant) and isinstance(body[0].value.value, str):
        return body[1:]
    return body


def pre_roles(base_cls, name):
    """roles of the elements of the tuple returned by _pre_channel_authenticate_*"""
    f = _func(base_cls, name)
    body = _strip_doc(f.body)
    local = {}
    ret = None
    for st in body:
        if isinstance(st, ast.Assign) and len(st.targets) == 1 and isinstance(st.targets[0], ast.Name):
            local[st.targets[0].id] = st.value
        elif isinstance(st, ast.Return):
            ret = st.value
        elif isinstance(st, ast.Expr):
            continue
        else:
            raise Unsupported("%s: statement %s" % (name, ast.dump(st)[:80]))
    if not isinstance(ret, ast.Tuple):
        raise Unsupported("%s: does not return a tuple" % name)
    roles = []
    for e in ret.elts:
        if isinstance(e, ast.Attribute) and isinstance(e.value, ast.Name) and e.value.id == "self" and e.attr in ROLE_ATTR:
            roles.append(ROLE_ATTR[e.attr])
        elif isinstance(e, ast.Name) and e.id in local:
            v = local[e.id]
            d = ast.dump(v)
            if _is_self_call(v, "_get_prompt_pattern"):
                cp = _kw(v, "class_pattern")
                if cp is None or ast.unparse(cp) != "self._base_channel_args.comms_prompt_pattern" or len(v.keywords) != 1 or v.args:
                    raise Unsupported("%s: prompt pattern is not the class pattern" % name)
                roles.append(R_PROMPT)
            elif "timestamp" in d and "now" in d:
                roles.append(R_START)
            elif "timeout_ops" in d:
                roles.append(R_INTERVAL)
            else:
                raise Unsupported("%s: tuple element %s" % (name, e.id))
        else:
            raise Unsupported("%s: tuple element %s" % (name, ast.dump(e)[:60]))
    return roles


def _contains(node, pred):
    return any(pred(n) for n in ast.walk(node))


def loop_shape(cls, name, pre_name, base_cls):
    f = _func(cls, name)
    is_async = isinstance(f, ast.AsyncFunctionDef)
    params = [a.arg for a in f.args.args]
    roles = pre_roles(base_cls, pre_name)
    body = _strip_doc(f.body)
    env = {}          # local name -> role from the pre tuple
    zero_init = set()
    one_init = set()
    loop = None
    abuf_name = None
    for st in body:
        if isinstance(st, ast.Assign) and len(st.targets) == 1:
            if loop is not None:
                raise Unsupported("%s: assignment after the loop" % name)
            t, v = st.targets[0], st.value
            if isinstance(t, ast.Tuple) and _is_self_call(v, pre_name):
                if len(t.elts) != len(roles):
                    raise Unsupported("%s: tuple arity" % name)
                for e, r in zip(t.elts, roles):
                    env[e.id] = r
            elif isinstance(t, ast.Name) and isinstance(v, ast.Constant) and v.value == 0:
                zero_init.add(t.id)
            elif isinstance(t, ast.Name) and isinstance(v, ast.Constant) and v.value == 1:
                one_init.add(t.id)
            elif isinstance(t, ast.Name) and isinstance(v, ast.Constant) and v.value == b"":
                abuf_name = t.id
            elif isinstance(t, ast.Name) and t.id == "read_interval":
                continue
            else:
                raise Unsupported("%s: assignment %s" % (name, ast.unparse(st)[:60]))
        elif isinstance(st, ast.Expr):
            continue
        elif isinstance(st, (ast.With, ast.AsyncWith)):
            if len(st.items) != 1 or not _is_self_call(st.items[0].context_expr, "_channel_lock"):
                raise Unsupported("%s: with item" % name)
            if len(st.body) != 1 or not isinstance(st.body[0], ast.While):
                raise Unsupported("%s: lock body is not one while loop" % name)
            loop = st.body[0]
        else:
            raise Unsupported("%s: statement %s" % (name, ast.unparse(st)[:60]))
    if loop is None or not (isinstance(loop.test, ast.Constant) and loop.test.value is True) or loop.orelse:
        raise Unsupported("%s: no `while True`" % name)
    steps, blocks = [], []
    buf_name = None
    facts = {"catches": False, "err_return": False, "err_counts": False, "kick": False, "acc_lower": False,
             "handler": False, "expire_empty": not is_async}
    counters = []

    def read_target(st):
        if isinstance(st, ast.Assign) and len(st.targets) == 1 and isinstance(st.targets[0], ast.Name):
            v = st.value
            if _contains(v, lambda n: _is_self_call(n, "read")):
                return st.targets[0].id
        return None

    for st in loop.body:
        # -- read ---------------------------------------------------------------------------
        tgt = read_target(st)
        if tgt is not None:
            buf_name = tgt
            steps.append(S_READ)
            continue
        if isinstance(st, ast.Try):
            if len(st.body) != 1 or read_target(st.body[0]) is None or st.orelse or st.finalbody:
                raise Unsupported("%s: try body" % name)
            buf_name = read_target(st.body[0])
            for h in st.handlers:
                tname = ast.unparse(h.type) if h.type is not None else ""
                if tname == "asyncio.TimeoutError":
                    ok = (len(h.body) == 1 and isinstance(h.body[0], ast.Assign) and isinstance(h.body[0].targets[0], ast.Name)
                          and h.body[0].targets[0].id == buf_name and isinstance(h.body[0].value, ast.Constant)
                          and h.body[0].value.value == b"")
                    if not ok:
                        raise Unsupported("%s: poll expiry handler" % name)
                    facts["expire_empty"] = True
                elif tname == "ScrapliConnectionError":
                    facts["catches"] = True
                    kinds = []
                    for s in h.body:
                        if isinstance(s, ast.Expr) and _is_self_call(s.value, "send_return"):
                            kinds.append("ret")
                        elif isinstance(s, ast.AugAssign) and isinstance(s.op, ast.Add) and isinstance(s.target, ast.Name) \
                                and s.target.id in one_init and isinstance(s.value, ast.Constant) and s.value.value == 1:
                            kinds.append("cnt")
                        elif isinstance(s, ast.Continue):
                            kinds.append("continue")
                        elif isinstance(s, ast.Expr) and isinstance(s.value, ast.Await) and "sleep" in ast.unparse(s.value):
                            kinds.append("sleep")
                        else:
                            raise Unsupported("%s: connection error handler: %s" % (name, ast.unparse(s)[:60]))
                    if kinds[-1:] != ["continue"] or kinds.count("ret") != 1:
                        raise Unsupported("%s: connection error handler shape %r" % (name, kinds))
                    facts["err_return"] = True
                    facts["err_counts"] = "cnt" in kinds
                else:
                    raise Unsupported("%s: handler for %s" % (name, tname))
            steps.append(S_READ)
            continue
        # -- kick ---------------------------------------------------------------------------
        if isinstance(st, ast.If) and isinstance(st.test, ast.UnaryOp) and isinstance(st.test.op, ast.Not) \
                and isinstance(st.test.operand, ast.Name) and st.test.operand.id == buf_name and not st.orelse:
            inner = [s for s in st.body if isinstance(s, ast.If)]
            if len(inner) != 1:
                raise Unsupported("%s: kick block" % name)
            t = inner[0].test
            ok = (isinstance(t, ast.Compare) and len(t.ops) == 1 and isinstance(t.ops[0], ast.Gt)
                  and isinstance(t.left, ast.BinOp) and isinstance(t.left.op, ast.Sub)
                  and isinstance(t.left.right, ast.Name) and env.get(t.left.right.id) == R_START
                  and isinstance(t.comparators[0], ast.BinOp) and isinstance(t.comparators[0].op, ast.Mult))
            if ok:
                m = t.comparators[0]
                names = {m.left.id if isinstance(m.left, ast.Name) else None, m.right.id if isinstance(m.right, ast.Name) else None}
                ok = any(env.get(n) == R_INTERVAL for n in names if n) and any(n in one_init for n in names if n)
            # the clock value must come from now().timestamp() assigned just before
            clk = [s for s in st.body if isinstance(s, ast.Assign)]
            ok = ok and len(clk) == 1 and "now" in ast.unparse(clk[0].value) and isinstance(t.left.left, ast.Name) \
                and t.left.left.id == clk[0].targets[0].id
            ib = inner[0].body
            ok = ok and len(ib) == 2 and isinstance(ib[0], ast.Expr) and _is_self_call(ib[0].value, "send_return") \
                and isinstance(ib[1], ast.AugAssign) and isinstance(ib[1].target, ast.Name) and ib[1].target.id in one_init \
                and isinstance(ib[1].value, ast.Constant) and ib[1].value.value == 1 and not inner[0].orelse
            if not ok:
                raise Unsupported("%s: kick test is not (now - start) > interval * attempts" % name)
            facts["kick"] = True
            steps.append(S_KICK)
            continue
        # -- accumulate ---------------------------------------------------------------------
        if isinstance(st, ast.AugAssign) and isinstance(st.op, ast.Add) and isinstance(st.target, ast.Name) \
                and st.target.id == abuf_name:
            v = st.value
            if not (isinstance(v, ast.Call) and isinstance(v.func, ast.Attribute) and v.func.attr == "lower"
                    and isinstance(v.func.value, ast.Name) and v.func.value.id == buf_name and not v.args):
                raise Unsupported("%s: buffer accumulation %s" % (name, ast.unparse(st)))
            facts["acc_lower"] = True
            steps.append(S_ACC)
            continue
        # -- ssh message handler ------------------------------------------------------------
        if isinstance(st, ast.Expr) and _is_self_call(st.value, "_ssh_message_handler"):
            o = _kw(st.value, "output")
            if not (isinstance(o, ast.Name) and o.id == abuf_name):
                raise Unsupported("%s: handler argument" % name)
            facts["handler"] = True
            steps.append(S_HANDLER)
            continue
        # -- sleep (asyncio) ------------------------------------------------------------------
        if isinstance(st, ast.Expr) and isinstance(st.value, ast.Await) and ast.unparse(st.value).startswith("await asyncio.sleep("):
            if not is_async:
                raise Unsupported("%s: sleep in the sync loop" % name)
            steps.append(S_SLEEP)
            continue
        # -- pattern block --------------------------------------------------------------------
        if isinstance(st, ast.If) and isinstance(st.test, ast.Call) and ast.unparse(st.test.func) == "re.search" and not st.orelse:
            p, s = _kw(st.test, "pattern"), _kw(st.test, "string")
            if st.test.args or not (isinstance(p, ast.Name) and isinstance(s, ast.Name) and s.id == abuf_name) or len(st.test.keywords) != 2:
                raise Unsupported("%s: re.search arguments" % name)
            role = env.get(p.id)
            if role not in (1, 2, 3, R_PROMPT):
                raise Unsupported("%s: searched pattern %s" % (name, p.id))
            b = {"role": role, "clear": False, "count": False, "limit": 0, "ordered": False, "writes": 0, "ret": False, "returns": False}
            idx = {}
            for i, x in enumerate(st.body):
                if isinstance(x, ast.Assign) and len(x.targets) == 1 and isinstance(x.targets[0], ast.Name) \
                        and x.targets[0].id == abuf_name and isinstance(x.value, ast.Constant) and x.value.value == b"":
                    b["clear"] = True
                    idx["clear"] = i
                elif isinstance(x, ast.AugAssign) and isinstance(x.op, ast.Add) and isinstance(x.target, ast.Name) \
                        and x.target.id in zero_init and isinstance(x.value, ast.Constant) and x.value.value == 1:
                    if "count" in idx:
                        raise Unsupported("%s: two counters in one block" % name)
                    idx["count"] = i
                    b["count"] = True
                    b["counter"] = x.target.id
                elif isinstance(x, ast.If) and isinstance(x.test, ast.Compare) and len(x.test.ops) == 1 \
                        and isinstance(x.test.ops[0], ast.Gt) and isinstance(x.test.left, ast.Name) \
                        and isinstance(x.test.comparators[0], ast.Constant) and isinstance(x.test.comparators[0].value, int) \
                        and not x.orelse:
                    if not x.body or not isinstance(x.body[-1], ast.Raise) or "ScrapliAuthenticationFailed" not in ast.unparse(x.body[-1]):
                        raise Unsupported("%s: limit test does not raise ScrapliAuthenticationFailed" % name)
                    for y in x.body[:-1]:
                        if not isinstance(y, (ast.Assign, ast.Expr)) or _contains(y, lambda n: _is_self_call(n, "write") or _is_self_call(n, "send_return")):
                            raise Unsupported("%s: limit block" % name)
                    idx["raise"] = i
                    b["limit"] = x.test.comparators[0].value
                    b["limit_counter"] = x.test.left.id
                elif isinstance(x, ast.Expr) and _is_self_call(x.value, "write"):
                    ci = _kw(x.value, "channel_input")
                    if not (isinstance(ci, ast.Name) and ci.id in PARAM_ROLE and ci.id in params) or "write" in idx:
                        raise Unsupported("%s: write argument" % name)
                    b["writes"] = PARAM_ROLE[ci.id]
                    idx["write"] = i
                elif isinstance(x, ast.Expr) and _is_self_call(x.value, "send_return"):
                    if "ret" in idx:
                        raise Unsupported("%s: two returns in one block" % name)
                    b["ret"] = True
                    idx["ret"] = i
                elif isinstance(x, ast.Return) and x.value is None:
                    b["returns"] = True
                else:
                    raise Unsupported("%s: statement in pattern block: %s" % (name, ast.unparse(x)[:60]))
            if role == R_PROMPT:
                if not (b["returns"] and len(st.body) == 1):
                    raise Unsupported("%s: prompt block" % name)
            else:
                if b["returns"]:
                    raise Unsupported("%s: credential block returns" % name)
                if b.get("counter") != b.get("limit_counter"):
                    raise Unsupported("%s: limit tests another counter" % name)
                b["ordered"] = all(k in idx for k in ("count", "raise", "write", "ret")) and \
                    idx["count"] < idx["raise"] < idx["write"] < idx["ret"]
                counters.append(b.get("counter"))
            blocks.append(b)
            steps.append(S_BLOCK)
            continue
        raise Unsupported("%s: loop statement %s" % (name, ast.unparse(st)[:80]))
    if len(set(counters)) != len(counters):
        raise Unsupported("%s: blocks share a counter" % name)
    # where the state of a login lives: the counters the blocks increment and test, the login buffer and the
    # return attempts are plain local names bound by a constant assignment in the function's preamble (so every
    # call starts from 0 / b"" / 1) -- not parameters, not attributes of the channel object, not globals
    attempts = sorted({n.id for n in ast.walk(loop) if isinstance(n, ast.Name) and n.id in one_init})
    state_names = list(counters) + [abuf_name] + attempts
    preamble = zero_init | one_init | ({abuf_name} if abuf_name else set())
    declared = [n for n in ast.walk(f) if isinstance(n, (ast.Global, ast.Nonlocal))]
    facts["state_local"] = bool(counters) and not declared and \
        all(n is not None and n in preamble and n not in params for n in state_names)
    facts["state_names"] = state_names
    return {"async": is_async, "steps": steps, "blocks": blocks, "facts": facts}


def handler_literals(base_cls):
    """[(literal bytes, looked for in output.lower()?)] of the if/elif chain of _ssh_message_handler"""
    f = _func(base_cls, "_ssh_message_handler")
    chain = [s for s in _strip_doc(f.body) if isinstance(s, ast.If)]
    if len(chain) != 2:
        raise Unsupported("_ssh_message_handler: expected the elif chain and `if msg:`")
    out = []
    node = chain[0]
    last = chain[1]
    if not (isinstance(last.test, ast.Name) and last.body and isinstance(last.body[-1], ast.Raise)
            and "ScrapliAuthenticationFailed" in ast.unparse(last.body[-1])):
        raise Unsupported("_ssh_message_handler: final `if msg: raise`")
    msg_name = last.test.id

    def one(t):
        if isinstance(t, ast.BoolOp) and isinstance(t.op, ast.Or):
            for v in t.values:
                one(v)
            return
        if not (isinstance(t, ast.Compare) and len(t.ops) == 1 and isinstance(t.ops[0], ast.In)
                and isinstance(t.left, ast.Constant) and isinstance(t.left.value, bytes)):
            raise Unsupported("_ssh_message_handler: test %s" % ast.unparse(t)[:60])
        hay = ast.unparse(t.comparators[0])
        if hay == "output.lower()":
            out.append((t.left.value, True))
        elif hay == "output":
            out.append((t.left.value, False))
        else:
            raise Unsupported("_ssh_message_handler: haystack %s" % hay)

    while True:
        one(node.test)
        # every branch must set msg to something non-empty
        sets = [s for s in node.body if isinstance(s, ast.Assign) and isinstance(s.targets[0], ast.Name) and s.targets[0].id == msg_name]
        if not sets:
            raise Unsupported("_ssh_message_handler: branch does not set the message")
        v = sets[0].value
        if isinstance(v, ast.Constant) and not v.value:
            raise Unsupported("_ssh_message_handler: empty message")
        if len(node.orelse) == 1 and isinstance(node.orelse[0], ast.If):
            node = node.orelse[0]
        elif not node.orelse:
            break
        else:
            raise Unsupported("_ssh_message_handler: else branch")
    return out


def default_of(cls, param):
    sig = inspect.signature(cls.__init__)
    p = sig.parameters.get(param)
    if p is None or not isinstance(p.default, str):
        raise Unsupported("%s has no string default for %s" % (cls.__name__, param))
    return p.default


def _channel(timeout_ops=None):
    from scrapli.channel import Channel
    from scrapli.channel.base_channel import BaseChannelArgs
    from scrapli.transport.base import Transport
    from scrapli.transport.base.base_transport import BaseTransportArgs

    class _T(Transport):
        def open(self): pass
        def close(self): pass
        def isalive(self): return True
        def read(self): return b""
        def write(self, channel_input): pass

    a = BaseChannelArgs() if timeout_ops is None else BaseChannelArgs(timeout_ops=timeout_ops)
    t = _T(BaseTransportArgs(transport_options={}, host="gen", port=23, timeout_socket=0, timeout_transport=0))
    return Channel(transport=t, base_channel_args=a)


def compiled_patterns():
    """(label, pattern bytes, flags) of the compiled objects the loops search with"""
    from scrapli.driver.base.base_driver import BaseDriver
    from scrapli.driver.generic.sync_driver import GenericDriver
    ch = _channel()
    out = []
    for label, p in (("login", ch.auth_telnet_login_pattern), ("password", ch.auth_password_pattern),
                     ("passphrase", ch.auth_passphrase_pattern)):
        out.append((label, p.pattern, p.flags & ~re.U))
    pre = ch._pre_channel_authenticate_telnet()
    if len(pre) != 5:
        raise Unsupported("_pre_channel_authenticate_telnet does not return five values")
    pre_s = ch._pre_channel_authenticate_ssh()
    if len(pre_s) != 3:
        raise Unsupported("_pre_channel_authenticate_ssh does not return three values")
    # which pattern each loop is handed, in the order of its blocks (1 login, 2 password, 3 passphrase; 0 = another one)
    by_text = {out[0][1]: 1, out[1][1]: 2, out[2][1]: 3}
    handed = {"telnet": [by_text.get(pre[0].pattern, 0), by_text.get(pre[1].pattern, 0)],
              "ssh": [by_text.get(pre_s[0].pattern, 0), by_text.get(pre_s[1].pattern, 0)]}
    compiled_patterns.handed = handed
    out.append(("prompt_channel", pre[2].pattern, pre[2].flags & ~re.U))
    for label, cls in (("prompt_driver", BaseDriver), ("prompt_generic", GenericDriver)):
        cp = default_of(cls, "comms_prompt_pattern")
        p = ch._get_prompt_pattern(class_pattern=cp)
        out.append((label, p.pattern, p.flags & ~re.U))
    for label, pat, flags in out:
        if not isinstance(pat, bytes):
            raise Unsupported("%s: pattern is not bytes" % label)
    return out


def intervals():
    """return_interval in ms for a few timeout_ops values (what the running code computes)"""
    out = {}
    for name, to in (("default", None), ("zero", 0), ("ten", 10.0), ("sixty", 60.0)):
        ch = _channel(to)
        v = ch._pre_channel_authenticate_telnet()[4] * 1000
        if v != int(v) or v < 0:
            raise Unsupported("return interval %r for timeout_ops %r" % (v, to))
        out[name] = (int(v), int(ch._base_channel_args.timeout_ops * 1000))
    return out


def generate(outdir):
    from scrapli.channel import AsyncChannel, Channel
    from scrapli.channel.base_channel import BaseChannel, BaseChannelArgs

    lines = ["(* generated from the source tree by gen/gen_auth.py — do not edit *)",
             "From Verif Require Import Bytes Regex Auth.", ""]
    info = {"patterns": {}, "fatal": [], "loops": {}}
    pats = compiled_patterns()
    for label, pat, flags in pats:
        term, _ = rx.translate(pat, flags)
        lines.append("Definition gen_re_%s : re := %s." % (label, term))
        info["patterns"][label] = [pat.decode("latin-1"), int(flags)]
    h = compiled_patterns.handed
    info["handed"] = h
    lines.append("(* the patterns _pre_channel_authenticate_telnet / _ssh hand to the loops, in block order *)")
    lines.append("Definition gen_handed_telnet : list N := [%s].  Definition gen_handed_ssh : list N := [%s]." % (
        "; ".join(str(x) for x in h["telnet"]), "; ".join(str(x) for x in h["ssh"])))
    try:
        lits = handler_literals(BaseChannel)
    except Unsupported as e:
        info.setdefault("shape_errors", []).append("_ssh_message_handler: %s" % e)
        lits = []
    info["fatal"] = [[l.decode("latin-1"), low] for l, low in lits]
    lines.append("(* literals of _ssh_message_handler looked for in output.lower() / in output *)")
    lines.append("Definition gen_fatal_lower : list bytes := [%s]." % "; ".join(coq_bytes(l) for l, low in lits if low))
    lines.append("Definition gen_fatal_raw : list bytes := [%s]." % "; ".join(coq_bytes(l) for l, low in lits if not low))
    rc = BaseChannelArgs().comms_return_char
    if not isinstance(rc, str) or not rc:
        raise Unsupported("comms_return_char")
    lines.append("Definition gen_return_char : bytes := %s." % coq_bytes(rc))
    iv = intervals()
    info["intervals_ms"] = iv
    for k, (v, to) in iv.items():
        lines.append("Definition gen_interval_%s : N := %d.  Definition gen_timeout_ops_%s : N := %d." % (k, v, k, to))
    loops = [("telnet_sync", Channel, "channel_authenticate_telnet", "_pre_channel_authenticate_telnet"),
             ("telnet_async", AsyncChannel, "channel_authenticate_telnet", "_pre_channel_authenticate_telnet"),
             ("ssh_sync", Channel, "channel_authenticate_ssh", "_pre_channel_authenticate_ssh"),
             ("ssh_async", AsyncChannel, "channel_authenticate_ssh", "_pre_channel_authenticate_ssh")]
    info.setdefault("shape_errors", [])
    for label, cls, name, pre in loops:
        try:
            sh = loop_shape(cls, name, pre, BaseChannel)
        except Unsupported as e:
            # the data above is still good for running the model; the shape obligation of props/C09.v will not hold
            info["shape_errors"].append("%s: %s" % (label, e))
            info["loops"][label] = {"unsupported": str(e)}
            lines.append("(* %s: shape not recognised *)" % label)
            lines.append("Definition gen_loop_%s : skel := mkSkel [] [] false false false false false false false." % label)
            lines.append("Definition gen_state_local_%s : bool := false." % label)
            continue
        info["loops"][label] = {"steps": sh["steps"], "facts": sh["facts"],
                                "blocks": [{k: v for k, v in b.items() if k not in ("counter", "limit_counter")} for b in sh["blocks"]]}
        bl = []
        for b in sh["blocks"]:
            bl.append("mkBlock %d %s %s %d%%nat %s %d %s %s" % (
                b["role"], coq_bool(b["clear"]), coq_bool(b["count"]), b["limit"], coq_bool(b["ordered"]),
                b["writes"], coq_bool(b["ret"]), coq_bool(b["returns"])))
        fx = sh["facts"]
        steps = [s for s in sh["steps"] if s != S_SLEEP]
        lines.append("Definition gen_loop_%s : skel := mkSkel [%s]\n  [%s]\n  %s %s %s %s %s %s %s." % (
            label, "; ".join(str(s) for s in steps), ";\n   ".join(bl), coq_bool(fx["handler"]), coq_bool(fx["acc_lower"]),
            coq_bool(fx["kick"]), coq_bool(fx["catches"]), coq_bool(fx["err_return"]), coq_bool(fx["err_counts"]),
            coq_bool(fx["expire_empty"])))
        lines.append("(* counters, login buffer and return attempts are locals initialised by every call: %s *)" % ", ".join(fx["state_names"]))
        lines.append("Definition gen_state_local_%s : bool := %s." % (label, coq_bool(fx["state_local"])))
    lines.append("(* what a login call on a channel object inherits from the earlier ones *)")
    lines.append("Definition gen_counter_scope : cscope :=\n  if andb (andb gen_state_local_telnet_sync gen_state_local_telnet_async) "
                 "(andb gen_state_local_ssh_sync gen_state_local_ssh_async) then CsLocal else CsObject.")
    lines.append("(* the login configuration of the current tree: prompt pattern, credentials and interval are parameters *)")
    lines.append("Definition gen_cfg (k : lkind) (prompt : re) (user pass phrase : bytes) (interval : N) : cfg :=\n"
                 "  re_cfg k gen_re_login gen_re_password gen_re_passphrase prompt gen_fatal_lower gen_fatal_raw\n"
                 "         user pass phrase gen_return_char interval.")
    text = "\n".join(lines) + "\n"
    path = os.path.join(outdir, "Gen_Auth.v")
    if not os.path.exists(path) or open(path).read() != text:
        open(path, "w").write(text)
    return path, info


if __name__ == "__main__":
    p, i = generate(sys.argv[1])
    print(p)
    import json
    print(json.dumps(i, indent=1)[:3000])
