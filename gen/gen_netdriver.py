"""Gen_NetDriver.v — per-platform privilege tables of the CURRENT source tree + the vendor device tables
of harness/simdevice.py, as `NetDriver.platform` values (fail-closed).

From scrapli (import + ast):
  * PRIVS of the five core platforms in dict order: previous_priv, escalate / deescalate command, share class
    (two levels share a class iff their pattern strings and not_contains lists are equal), the
    `<marker> in pattern` flag the NX-OS / EOS `_abort_config` tests (marker read from the source);
  * the levels `_create_configuration_session` produces for a fixed family of session names (NX-OS, EOS);
  * default_desired_privilege_level of a constructed driver; the level named "configuration";
  * the on_open command list (by running <platform>_on_open against a recording stub);
  * the shape of `_abort_config` of the sync AND async driver classes (ast; both twins must agree);
  * the REGISTER fact p_reg_keeps (ast of update_privilege_levels, register_configuration_session and every method of the
    driver classes they call on self, transitively; sync AND async class): no assignment to `_current_priv_level`;
  * the ORDER fact p_reset_first (ast of `_process_acquire_priv` and of sync AND async `acquire_priv`): on the way from
    the head of acquire_priv's loop to the `_escalate` / `_deescalate` call the tracked level is assigned DUMMY_PRIV_LEVEL
    (in `_process_acquire_priv`, called before the step, or in the loop body before the step) and not assigned again.
From harness/simdevice.py (the vendors' CLI tables, independent of PRIVS): mode -> line -> new mode, login modes.
Strings are interned: level name -> id (universe index), line -> id (< 100; user content lines are >= 100)."""
import ast
import importlib
import inspect
import json
import os
import sys

PLATFORMS = ["cisco_iosxe", "cisco_iosxr", "cisco_nxos", "arista_eos", "juniper_junos"]
SESSION_FAMILY = ["alpha1", "bravo2"]
CLASSES = {"cisco_iosxe": ("IOSXEDriver", "AsyncIOSXEDriver", "iosxe_on_open"),
           "cisco_iosxr": ("IOSXRDriver", "AsyncIOSXRDriver", "iosxr_on_open"),
           "cisco_nxos": ("NXOSDriver", "AsyncNXOSDriver", "nxos_on_open"),
           "arista_eos": ("EOSDriver", "AsyncEOSDriver", "eos_on_open"),
           "juniper_junos": ("JunosDriver", "AsyncJunosDriver", "junos_on_open")}
USER_BASE = 100


class GenError(Exception):
    pass


def _const_str(node):
    if isinstance(node, ast.Constant) and isinstance(node.value, str):
        return node.value
    raise GenError("expected a string constant, got %s" % ast.dump(node))


def _strip_await(node):
    return node.value if isinstance(node, ast.Await) else node


def _is_self_attr(node, *path):
    """node is self.a.b.c"""
    for name in reversed(path):
        if not (isinstance(node, ast.Attribute) and node.attr == name):
            return False
        node = node.value
    return isinstance(node, ast.Name) and node.id == "self"


def _belief_assign(stmt):
    """self._current_priv_level = self.privilege_levels["X"]  -> "X" """
    if (isinstance(stmt, ast.Assign) and len(stmt.targets) == 1 and _is_self_attr(stmt.targets[0], "_current_priv_level")
            and isinstance(stmt.value, ast.Subscript) and _is_self_attr(stmt.value.value, "privilege_levels")):
        return _const_str(stmt.value.slice)
    raise GenError("unexpected statement in _abort_config: %s" % ast.dump(stmt))


def _send_input(stmt):
    """self.channel.send_input(channel_input="X") -> "X" """
    if isinstance(stmt, ast.Expr):
        call = _strip_await(stmt.value)
        if (isinstance(call, ast.Call) and _is_self_attr(call.func, "channel", "send_input") and not call.args
                and len(call.keywords) == 1 and call.keywords[0].arg == "channel_input"):
            return _const_str(call.keywords[0].value)
    raise GenError("unexpected statement in _abort_config: %s" % ast.dump(stmt))


def abort_shape(cls):
    """('none',) | ('send', cmd, target) | ('sess', cmd, target) | ('junos', [lines], passes_level, target)"""
    fn = None
    for klass in cls.__mro__:
        if "_abort_config" in klass.__dict__:
            fn = klass.__dict__["_abort_config"]
            break
    if fn is None:
        raise GenError("no _abort_config on %s" % cls)
    src = inspect.getsource(fn)
    tree = ast.parse("class _X:\n" + src if src.startswith("    ") else src)
    fdef = [n for n in ast.walk(tree) if isinstance(n, (ast.FunctionDef, ast.AsyncFunctionDef))][0]
    body = list(fdef.body)
    if body and isinstance(body[0], ast.Expr) and isinstance(body[0].value, ast.Constant) and isinstance(body[0].value.value, str):
        body = body[1:]
    if not body:
        return ("none",)
    if len(body) == 2:
        first = body[0]
        call = _strip_await(first.value) if isinstance(first, ast.Expr) else None
        if isinstance(call, ast.Call) and _is_self_attr(call.func, "send_configs"):
            # junos: self.send_configs([..])  or  self.send_configs([..], privilege_level=self._current_priv_level.name)
            kws = {k.arg: k.value for k in call.keywords}
            if call.args:
                lines_node = call.args[0]
                if len(call.args) != 1:
                    raise GenError("junos abort: unexpected positional args")
            else:
                lines_node = kws.pop("configs", None)
            if not isinstance(lines_node, ast.List):
                raise GenError("junos abort: configs is not a list literal")
            lines = [_const_str(e) for e in lines_node.elts]
            passes = False
            if "privilege_level" in kws:
                v = kws.pop("privilege_level")
                if not _is_self_attr(v, "_current_priv_level", "name"):
                    raise GenError("junos abort: unexpected privilege_level argument %s" % ast.dump(v))
                passes = True
            if kws:
                raise GenError("junos abort: unexpected keywords %s" % list(kws))
            return ("junos", lines, passes, _belief_assign(body[1]))
        return ("send", _send_input(body[0]), _belief_assign(body[1]))
    if len(body) == 1 and isinstance(body[0], ast.If) and not body[0].orelse and len(body[0].body) == 2:
        t = body[0].test
        if not (isinstance(t, ast.Compare) and len(t.ops) == 1 and isinstance(t.ops[0], ast.In)
                and isinstance(t.left, ast.Constant) and isinstance(t.left.value, str)
                and _is_self_attr(t.comparators[0], "_current_priv_level", "pattern")):
            raise GenError("unexpected test in _abort_config: %s" % ast.dump(t))
        return ("sess", _send_input(body[0].body[0]), _belief_assign(body[0].body[1]), t.left.value)
    raise GenError("unrecognised _abort_config body in %s" % cls.__name__)


def _fn_ast(cls, name):
    fn = None
    for klass in cls.__mro__:
        if name in klass.__dict__:
            fn = klass.__dict__[name]
            break
    if fn is None:
        raise GenError("no %s on %s" % (name, cls))
    src = inspect.getsource(fn)
    tree = ast.parse("class _X:\n" + src if src.startswith("    ") else src)
    return [n for n in ast.walk(tree) if isinstance(n, (ast.FunctionDef, ast.AsyncFunctionDef))][0]


def _belief_assigns(stmt):
    """assignments to self._current_priv_level anywhere inside stmt: list of 'dummy' / 'other'"""
    out = []
    for n in ast.walk(stmt):
        targets = n.targets if isinstance(n, ast.Assign) else ([n.target] if isinstance(n, (ast.AugAssign, ast.AnnAssign)) else [])
        for t in targets:
            if _is_self_attr(t, "_current_priv_level"):
                v = getattr(n, "value", None)
                out.append("dummy" if isinstance(v, ast.Name) and v.id == "DUMMY_PRIV_LEVEL" else "other")
    return out


def _calls(stmt, *names):
    for n in ast.walk(stmt):
        if isinstance(n, ast.Call) and any(_is_self_attr(n.func, nm) for nm in names):
            return True
    return False


def _leaves(stmt):
    """an `if` whose body always ends in return / raise does not flow on to the statements after it"""
    return isinstance(stmt, ast.If) and not stmt.orelse and stmt.body and isinstance(stmt.body[-1], (ast.Return, ast.Raise))


def reset_order_fact():
    """p_reset_first: True iff in sync and async acquire_priv the belief is reset to DUMMY before the escalate /
    deescalate step of the loop (directly, or by `_process_acquire_priv` called before the step) and not re-assigned
    in between.  Unrecognised shapes raise (fail closed); a recognised shape with the other order gives False."""
    from scrapli.driver.network.async_driver import AsyncNetworkDriver
    from scrapli.driver.network.base_driver import BaseNetworkDriver
    from scrapli.driver.network.sync_driver import NetworkDriver

    proc = _fn_ast(BaseNetworkDriver, "_process_acquire_priv")
    body = list(proc.body)
    step_returns = []          # top-level index of every `return PrivilegeAction.ESCALATE/DEESCALATE, ...`
    for i, st in enumerate(body):
        for n in ast.walk(st):
            if isinstance(n, ast.Return) and isinstance(n.value, ast.Tuple) and n.value.elts:
                e = n.value.elts[0]
                if isinstance(e, ast.Attribute) and isinstance(e.value, ast.Name) and e.value.id == "PrivilegeAction":
                    if e.attr in ("ESCALATE", "DEESCALATE"):
                        step_returns.append(i)
                    elif e.attr != "NO_ACTION":
                        raise GenError("_process_acquire_priv: unknown action %s" % e.attr)
    if not step_returns:
        raise GenError("_process_acquire_priv: no return of an ESCALATE / DEESCALATE action found")
    dummy_at = [i for i, st in enumerate(body) if isinstance(st, ast.Assign) and _belief_assigns(st) == ["dummy"]]
    proc_resets = False
    if dummy_at:
        i0 = dummy_at[-1]
        later = [a for st in body[i0 + 1:] if not _leaves(st) for a in _belief_assigns(st)]
        proc_resets = i0 < min(step_returns) and not later
    facts = []
    for cls in (NetworkDriver, AsyncNetworkDriver):
        fdef = _fn_ast(cls, "acquire_priv")
        loops = [n for n in fdef.body if isinstance(n, ast.While)]
        if len(loops) != 1:
            raise GenError("%s.acquire_priv: expected exactly one while loop" % cls.__name__)
        lb = list(loops[0].body)
        i_proc = [i for i, st in enumerate(lb) if _calls(st, "_process_acquire_priv")]
        i_step = [i for i, st in enumerate(lb) if _calls(st, "_escalate", "_deescalate")]
        if len(i_proc) != 1 or not i_step:
            raise GenError("%s.acquire_priv: loop body not recognised" % cls.__name__)
        first = min(i_step)
        if i_proc[0] >= first:
            raise GenError("%s.acquire_priv: _process_acquire_priv is not called before the step" % cls.__name__)
        # the last assignment that reaches the step, among: the one made inside _process_acquire_priv, then the
        # straight-line statements of the loop body between that call and the step
        state = "dummy" if proc_resets else "unknown"
        for st in lb[i_proc[0] + 1:first]:
            if _leaves(st):
                continue
            for a in _belief_assigns(st):
                state = a
        # the step statements themselves must not assign before calling
        for st in lb[first:max(i_step) + 1]:
            if any(True for _ in _belief_assigns(st)):
                raise GenError("%s.acquire_priv: belief assigned inside the step statement" % cls.__name__)
        facts.append(state == "dummy")
    if facts[0] != facts[1]:
        raise GenError("sync/async acquire_priv differ in the order of the belief reset")
    return facts[0]


def _self_calls(fdef):
    """names m of the calls self.m(...) inside a function"""
    out = []
    for n in ast.walk(fdef):
        if isinstance(n, ast.Call) and isinstance(n.func, ast.Attribute) and isinstance(n.func.value, ast.Name) \
                and n.func.value.id == "self" and n.func.attr not in out:
            out.append(n.func.attr)
    return out


def register_keeps_fact(classes):
    """p_reg_keeps: True iff none of update_privilege_levels, register_configuration_session (where the platform has one)
    and the methods of the driver classes they call on self, transitively (_build_priv_graph,
    _generate_comms_prompt_pattern, _create_configuration_session, ...), assigns self._current_priv_level — in the sync
    AND the async class.  A recognised other shape (the only assignments are resets to DUMMY_PRIV_LEVEL) gives False;
    anything else is reported as an untranslated shape (problem) and the fact is left True, so that the correspondence
    and the oracle judge the runs.  returns (fact, problems, inspected method names)"""
    problems, seen_all = [], []
    fact = True
    for cls in classes:
        todo = ["update_privilege_levels"] + (["register_configuration_session"] if hasattr(cls, "register_configuration_session") else [])
        seen = []
        while todo:
            name = todo.pop(0)
            if name in seen:
                continue
            owner = None
            for klass in cls.__mro__:
                if name in klass.__dict__:
                    owner = klass
                    break
            if owner is None or not (owner.__module__ or "").startswith("scrapli.driver"):
                continue
            if not inspect.isfunction(owner.__dict__[name]):
                continue      # lru_cache wrappers (_determine_current_priv.cache_clear) and the like: not a method body
            seen.append(name)
            fdef = _fn_ast(cls, name)
            kinds = _belief_assigns(fdef)
            if kinds and all(k == "dummy" for k in kinds):
                fact = False
            elif kinds:
                problems.append("%s.%s assigns _current_priv_level (shape not translated)" % (cls.__name__, name))
            todo += _self_calls(fdef)
        if "update_privilege_levels" not in seen:
            raise GenError("%s: update_privilege_levels not found" % cls.__name__)
        seen_all.append(seen)
    return fact, problems, seen_all


class _Rec:
    """recording stand-in for a connection, for the on_open / on_close functions"""

    def __init__(self, default):
        self.default_desired_privilege_level = default
        self.calls = []
        self.cmds = []            # what was passed to send_command (the API promises the default desired level for these)
        self.channel = self

    def acquire_priv(self, desired_priv):
        self.calls.append(("acquire", desired_priv))

    def send_command(self, command):
        self.calls.append(("line", command))
        self.cmds.append(command)

    def send_input(self, channel_input):
        self.calls.append(("line", channel_input))

    def write(self, channel_input):
        self.calls.append(("write", channel_input))

    def send_return(self):
        self.calls.append(("return", None))


def _record(fn, default):
    """run an on_open / on_close function against the recording stub; None if it does anything the stub does not know"""
    rec = _Rec(default)
    try:
        fn(rec)
    except Exception:  # noqa: an unknown shape, reported by the caller
        return None
    return rec


class _ARec(_Rec):
    async def acquire_priv(self, desired_priv):
        _Rec.acquire_priv(self, desired_priv)

    async def send_command(self, command):
        _Rec.send_command(self, command)

    async def send_input(self, channel_input):
        _Rec.send_input(self, channel_input)


def _record_async(fn, default):
    import asyncio
    rec = _ARec(default)
    loop = asyncio.new_event_loop()
    try:
        loop.run_until_complete(fn(rec))
    except Exception:  # noqa
        return None
    finally:
        loop.close()
    return rec


def fallback_facts(plat, err):
    """the translator refused this platform (GenError anywhere in platform_facts): the tie is reported broken, and the
    failing-input search still needs the names the device-log oracle works with.  Read with as few assumptions as
    possible: level names = keys of a constructed driver's privilege_levels (+ the session family), lines = the escalate /
    deescalate strings of these levels + the vendor table's lines + what on_open / on_close send to a recording stub,
    login levels from the vendor table.  Nothing of this goes to the model (placeholder platform, props not compiled)."""
    import scrapli.driver.core as core
    from harness import simdevice

    base = importlib.import_module("scrapli.driver.core.%s.base_driver" % plat)
    syncmod = importlib.import_module("scrapli.driver.core.%s.sync_driver" % plat)
    sname, _aname, open_name = CLASSES[plat]
    d = getattr(core, sname)(host="h", transport="telnet")
    nbase = len(d.privilege_levels)
    sessions = []
    if hasattr(d, "register_configuration_session"):
        for s in SESSION_FAMILY:
            d._create_configuration_session(session_name=s)
            sessions.append(s)
    names = list(d.privilege_levels.keys())
    lid = {n: i for i, n in enumerate(names)}
    lines = {}

    def line(x):
        if isinstance(x, str) and x.strip() not in lines and len(lines) < USER_BASE - 1:
            lines[x.strip()] = len(lines)

    for l in d.privilege_levels.values():
        line(l.escalate)
        line(l.deescalate)
    t = simdevice.PLATFORMS[plat]()
    for table in t["trans"].values():
        for ln in table:
            line(ln)
    for s in sessions:
        line((t.get("session_cmd") or "configure session ") + s)
    default = d.default_desired_privilege_level
    problems = ["%s: platform not translated: %s" % (plat, err)]
    rec = _record(getattr(syncmod, open_name), default)
    crec = _record(getattr(syncmod, open_name.replace("_on_open", "_on_close")), default)
    for r in (rec, crec):
        for c in (r.calls if r is not None else []):
            if c[0] in ("line", "write"):
                line(c[1])
    return {"platform": plat, "levels": [], "nbase": nbase, "default": lid.get(default, 0), "cfg": lid.get("configuration", 0),
            "abort": "AbNone", "abort_shape": ["none"], "open": [], "dev": [],
            "login": [lid[m] for m in t["login_modes"] if m in lid], "regs": [], "cands": [], "level_ids": lid,
            "line_ids": dict(lines), "sessions": sessions, "failed_when_contains": list(base.FAILED_WHEN_CONTAINS),
            "problems": problems, "reg_keeps": True, "reg_keeps_inspected": [], "fallback": True,
            "open_cmds": list(rec.cmds) if rec is not None else [], "open_known": rec is not None,
            "close_lines": [c[1] for c in crec.calls if c[0] in ("line", "write")] if crec is not None else [],
            "close_known": crec is not None, "close_shape": None}


def platform_facts(plat):
    """fail-closed for the model (any GenError = broken tie), fail-soft for the search: a refused platform still yields the
    names the oracle needs (fallback_facts), so that its histories are run on the real code and judged on the device's log"""
    try:
        return _platform_facts(plat)
    except GenError as e:
        return fallback_facts(plat, e)


def _platform_facts(plat):
    import scrapli.driver.core as core
    from harness import simdevice

    base = importlib.import_module("scrapli.driver.core.%s.base_driver" % plat)
    syncmod = importlib.import_module("scrapli.driver.core.%s.sync_driver" % plat)
    asyncmod = importlib.import_module("scrapli.driver.core.%s.async_driver" % plat)
    sname, aname, open_name = CLASSES[plat]
    scls, acls = getattr(core, sname), getattr(core, aname)
    d = scls(host="h", transport="telnet")
    a = acls(host="h", transport="asynctelnet")
    if list(d.privilege_levels) != list(base.PRIVS) or list(a.privilege_levels) != list(base.PRIVS):
        raise GenError("%s: driver privilege_levels differ from PRIVS" % plat)
    if d.default_desired_privilege_level != a.default_desired_privilege_level:
        raise GenError("%s: sync/async default_desired_privilege_level differ" % plat)
    nbase = len(d.privilege_levels)
    sessions = []
    if hasattr(d, "register_configuration_session"):
        for s in SESSION_FAMILY:
            d._create_configuration_session(session_name=s)
            a._create_configuration_session(session_name=s)
            sessions.append(s)
    levels = list(d.privilege_levels.values())
    alevels = list(a.privilege_levels.values())
    slots = ("pattern", "name", "previous_priv", "deescalate", "escalate", "escalate_auth", "escalate_prompt", "not_contains")
    for x, y in zip(levels, alevels):
        if [getattr(x, s) for s in slots] != [getattr(y, s) for s in slots]:
            raise GenError("%s: sync/async level %s differ" % (plat, x.name))
    names = [l.name for l in levels]
    if len(set(names)) != len(names) or names != list(d.privilege_levels.keys()):
        raise GenError("%s: level names / keys inconsistent" % plat)
    lid = {n: i for i, n in enumerate(names)}
    lines = {}

    def line(s):
        if not isinstance(s, str):
            raise GenError("line is not a string: %r" % (s,))
        s = s.strip()
        if s not in lines:
            lines[s] = len(lines)
            if lines[s] >= USER_BASE:
                raise GenError("too many table lines")
        return lines[s]

    keys = []
    rows = []
    for l in levels:
        key = (l.pattern, tuple(l.not_contains))
        if key not in keys:
            keys.append(key)
        cls = [names.index(x.name) for x in levels if (x.pattern, tuple(x.not_contains)) == key][0]
        if l.previous_priv == "":
            prev = None
        elif l.previous_priv in lid:
            prev = lid[l.previous_priv]
        else:
            raise GenError("%s: previous_priv %r of %s unknown" % (plat, l.previous_priv, l.name))
        rows.append({"name": l.name, "prev": prev, "esc": line(l.escalate), "deesc": line(l.deescalate), "cls": cls,
                     "sess": "config\\-s" in l.pattern, "auth": bool(l.escalate_auth)})
    default = d.default_desired_privilege_level
    if default not in lid or lid[default] >= nbase:
        raise GenError("%s: default_desired_privilege_level %r is not a base level" % (plat, default))
    if "configuration" not in lid or lid["configuration"] >= nbase:
        raise GenError("%s: no level named 'configuration'" % plat)
    # on_open (sync and async twin): acquire_priv(default) first, then lines.  Another shape is a broken tie (problem), not
    # an abort: the table is kept so that the platform's histories are still run on the real drivers (oracle-only)
    problems = []
    rec = _record(getattr(syncmod, open_name), default)
    arec = _record_async(getattr(asyncmod, open_name), default)
    if rec is None or arec is None or rec.calls != arec.calls:
        problems.append("%s: on_open not translated: sync/async differ or unknown calls" % plat)
    elif not rec.calls or rec.calls[0] != ("acquire", default) or any(c[0] != "line" for c in rec.calls[1:]):
        problems.append("%s: on_open not translated: unexpected call sequence %r" % (plat, rec.calls))
    open_lines = [line(c[1]) for c in (rec.calls if rec is not None else []) if c[0] == "line"]
    # on_close: acquire_priv(default), then the line that ends the session is written (not in the model; the re-open
    # histories compare the model's acquire_priv(default) with it when the shape is this one, else they are oracle-only)
    crec = _record(getattr(syncmod, open_name.replace("_on_open", "_on_close")), default)
    acrec = _record_async(getattr(asyncmod, open_name.replace("_on_open", "_on_close")), default)
    close_shape = None
    if crec is not None and acrec is not None and crec.calls == acrec.calls and len(crec.calls) == 3 \
            and crec.calls[0] == ("acquire", default) and crec.calls[1][0] == "write" and crec.calls[2] == ("return", None):
        close_shape = ["acquire-default", crec.calls[1][1]]
    # abort
    try:
        sa, aa = abort_shape(scls), abort_shape(acls)
        if sa != aa:
            raise GenError("%s: sync/async _abort_config differ: %r vs %r" % (plat, sa, aa))
    except GenError as e:
        # keep the rest of the table (the exploration and the oracle need it); the broken tie is reported
        problems.append("%s: _abort_config not translated: %s" % (plat, e))
        sa = ("none",)
    reg_keeps, rk_problems, rk_seen = register_keeps_fact((scls, acls))
    problems += ["%s: %s" % (plat, m) for m in rk_problems]
    if sessions and not all("register_configuration_session" in x and "_create_configuration_session" in x for x in rk_seen):
        raise GenError("%s: register_configuration_session / _create_configuration_session not inspected: %r" % (plat, rk_seen))
    marker = sa[3] if sa[0] == "sess" else "config\\-s"
    for r, l in zip(rows, levels):
        r["sess"] = marker in l.pattern
    if sa[0] == "none":
        abort = "AbNone"
    elif sa[0] in ("send", "sess"):
        if sa[2] not in lid:
            raise GenError("%s: abort target %r unknown" % (plat, sa[2]))
        abort = "(%s %d %d)" % ("AbSend" if sa[0] == "send" else "AbSess", line(sa[1]), lid[sa[2]])
    else:
        if sa[3] not in lid:
            raise GenError("%s: abort target %r unknown" % (plat, sa[3]))
        abort = "(AbCfgs [%s] %s %d)" % ("; ".join(str(line(x)) for x in sa[1]), "true" if sa[2] else "false", lid[sa[3]])
    # vendor device (independent of PRIVS)
    t = simdevice.PLATFORMS[plat]()
    dev = []

    def mode_id(m):
        nm = m[len("session:"):] if m.startswith("session:") else m
        if nm not in lid:
            raise GenError("%s: device mode %r has no privilege level" % (plat, m))
        return lid[nm]

    for m, table in t["trans"].items():
        modes = ["session:" + s for s in sessions] if m == "session" else [m]
        for mm in modes:
            for ln, (kind, target) in table.items():
                if kind not in ("goto", "auth"):
                    raise GenError("unknown device action %r" % (kind,))
                dev.append((mode_id(mm), line(ln), mode_id(target)))
    if t.get("session_cmd"):
        for s in sessions:
            dev.append((lid["privilege_exec"], line(t["session_cmd"] + s), lid[s]))
    login = [mode_id(m) for m in t["login_modes"]]
    # reachable `privilege_levels` key orders: base, then any duplicate-free sequence of registered sessions
    cands = list(range(nbase, len(levels)))
    regs = [list(range(nbase))]
    frontier = [[]]
    while frontier:
        nxt = []
        for seq in frontier:
            for c in cands:
                if c not in seq:
                    nxt.append(seq + [c])
        regs += [list(range(nbase)) + s for s in nxt]
        frontier = nxt
    return {"platform": plat, "levels": rows, "nbase": nbase, "default": lid[default], "cfg": lid["configuration"],
            "abort": abort, "abort_shape": list(sa), "open": open_lines, "dev": dev, "login": login, "regs": regs,
            "cands": cands, "level_ids": lid, "line_ids": dict(lines), "sessions": sessions,
            "failed_when_contains": list(base.FAILED_WHEN_CONTAINS), "problems": problems,
            "reg_keeps": reg_keeps, "reg_keeps_inspected": rk_seen, "fallback": False,
            "open_cmds": list(rec.cmds) if rec is not None else [], "open_known": rec is not None,
            "close_lines": [c[1] for c in crec.calls if c[0] in ("line", "write")] if crec is not None else [],
            "close_known": crec is not None, "close_shape": close_shape}


def coq_platform(f, reset_first=True):
    if f.get("fallback"):
        # NOT TRANSLATED (tie reported broken): a placeholder that keeps the indices of gen_platforms; nothing is evaluated on it
        return "mkPlatform [] 0 0 0 AbNone [] [] [] [] [] true true"

    def opt(x):
        return "None" if x is None else "(Some %d)" % x

    lv = "; ".join("mkLevel %s %d %d %d %s" % (opt(r["prev"]), r["esc"], r["deesc"], r["cls"], "true" if r["sess"] else "false")
                   for r in f["levels"])
    dev = "; ".join("(%d, %d, %d)" % x for x in f["dev"])
    regs = "; ".join("[" + "; ".join(map(str, r)) + "]" for r in f["regs"])
    return ("mkPlatform\n    [%s]\n    %d %d %d %s\n    [%s]\n    [%s]\n    [%s]\n    [%s]\n    [%s]\n    %s %s" % (
        lv, f["nbase"], f["default"], f["cfg"], f["abort"], "; ".join(map(str, f["open"])), dev,
        "; ".join(map(str, f["login"])), "; ".join(map(str, f["cands"])), regs, "true" if reset_first else "false",
        "true" if f["reg_keeps"] else "false"))


def generate(outdir):
    here = os.path.dirname(os.path.dirname(os.path.abspath(__file__)))
    if here not in sys.path:
        sys.path.insert(0, here)
    facts = [platform_facts(p) for p in PLATFORMS]
    try:
        reset_first = reset_order_fact()
    except GenError as e:
        # acquire_priv / _process_acquire_priv is shared by every platform: every tie is broken, every platform's histories
        # are still run on the real code and judged by the device-log oracle
        reset_first = True
        for f in facts:
            f["problems"].append("acquire_priv not translated: %s" % e)
    out = ["(* generated from the scrapli tree and harness/simdevice.py by gen/gen_netdriver.py — do not edit *)",
           "From Coq Require Import List Arith Bool.", "Import ListNotations.", "From Verif Require Import NetDriver.", ""]
    for f in facts:
        short = f["platform"].split("_")[1]
        out.append("(* %s: levels %s ; lines %s *)" % (f["platform"], json.dumps(f["level_ids"]), json.dumps(f["line_ids"])))
        out.append("Definition gen_%s : platform :=\n  %s.\n" % (short, coq_platform(f, reset_first)))
    out.append("(* ast: the belief is reset to DUMMY before the escalate / deescalate step of acquire_priv (sync and async) *)")
    out.append("Definition gen_reset_first : bool := %s.\n" % ("true" if reset_first else "false"))
    out.append("(* ast: update_privilege_levels / register_configuration_session / _create_configuration_session and the methods they")
    out.append("   call on self never assign _current_priv_level (sync and async classes of every platform) *)")
    out.append("Definition gen_reg_keeps : bool := %s.\n" % ("true" if all(f["reg_keeps"] for f in facts) else "false"))
    out.append("Definition gen_platforms : list platform := [%s]." % "; ".join("gen_" + f["platform"].split("_")[1] for f in facts))
    text = "\n".join(out) + "\n"
    path = os.path.join(outdir, "Gen_NetDriver.v")
    if not os.path.exists(path) or open(path).read() != text:
        open(path, "w").write(text)
    info = _info_of(facts, reset_first)
    with open(os.path.join(outdir, "netdriver_ids.json"), "w") as fh:
        json.dump(info, fh, indent=1, sort_keys=True)
    return path, info


def fallback_info(err):
    """generate() itself failed (an exception that is not a per-function refusal): the oracle's names for every platform,
    so that the failing-input search can still run the histories on the real code"""
    here = os.path.dirname(os.path.dirname(os.path.abspath(__file__)))
    if here not in sys.path:
        sys.path.insert(0, here)
    return _info_of([fallback_facts(p, err) for p in PLATFORMS], True)


def _info_of(facts, reset_first):
    info = {f["platform"]: {k: f[k] for k in ("level_ids", "line_ids", "nbase", "default", "cfg", "abort_shape", "open", "login",
                                              "sessions", "failed_when_contains", "cands", "problems", "reg_keeps",
                                              "reg_keeps_inspected", "fallback", "open_cmds", "open_known", "close_lines",
                                              "close_known", "close_shape")}
            for f in facts}
    for f in facts:
        info[f["platform"]]["levels"] = f["levels"]
        info[f["platform"]]["dev"] = f["dev"]
        info[f["platform"]]["reset_first"] = reset_first
    return info


if __name__ == "__main__":
    sys.path.insert(0, os.environ.get("VERIF_REPO", "/repo"))
    p, info = generate(sys.argv[1])
    print(open(p).read())
