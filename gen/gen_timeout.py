"""Gen_Timeout.v — what the timeout machinery of the current source tree says, as Coq data (fail-closed):
the timeout message map and its default, the transport class names that select the worker-thread
mechanism, the functions decorated with @timeout_wrapper in the anchored modules, the defaults of
Settings.NO_TERMINATE_ON_TIMEOUT / timeout_ops / timeout_transport, and a few `ast` facts about the
shape of the decorator (finally restores handler and timer; the pool is a context manager, i.e. joins
its worker; _handle_timeout closes unless NO_TERMINATE and always raises ScrapliTimeout)."""
import ast
import os
import sys

ANCHORS = [
    ("scrapli/channel/sync_channel.py", "Channel"),
    ("scrapli/channel/async_channel.py", "AsyncChannel"),
    ("scrapli/transport/plugins/system/transport.py", "SystemTransport"),
    ("scrapli/transport/plugins/telnet/transport.py", "TelnetTransport"),
    ("scrapli/transport/plugins/asynctelnet/transport.py", "AsynctelnetTransport"),
    ("scrapli/transport/plugins/asyncssh/transport.py", "AsyncsshTransport"),
    ("scrapli/transport/plugins/paramiko/transport.py", "ParamikoTransport"),
    ("scrapli/transport/plugins/ssh2/transport.py", "Ssh2Transport"),
]


def _b(s):
    if isinstance(s, str):
        s = s.encode("ascii")
    return "[" + ";".join(str(x) for x in s) + "]"


def _bool(b):
    return "true" if b else "false"


def _ms(x):
    v = float(x) * 1000
    if v < 0 or v != int(v) or v > 10 ** 9:
        raise ValueError("unexpected timeout default %r" % (x,))
    return int(v)


def _dotted(node):
    if isinstance(node, ast.Name):
        return node.id
    if isinstance(node, ast.Attribute):
        return _dotted(node.value) + "." + node.attr
    return "?"


def _calls(nodes):
    out = []
    for n in nodes:
        for c in ast.walk(n):
            if isinstance(c, ast.Call):
                out.append(c)
    return out


def _decorated(repo):
    out = []
    for rel, cls in ANCHORS:
        tree = ast.parse(open(os.path.join(repo, rel)).read())
        found = [n for n in tree.body if isinstance(n, ast.ClassDef) and n.name == cls]
        if len(found) != 1:
            raise ValueError("class %s not found exactly once in %s" % (cls, rel))
        for f in found[0].body:
            if isinstance(f, (ast.FunctionDef, ast.AsyncFunctionDef)):
                decs = [_dotted(d) for d in f.decorator_list]
                if "timeout_wrapper" in decs:
                    out.append((cls, f.name, isinstance(f, ast.AsyncFunctionDef)))
    return out


def _structure(repo):
    tree = ast.parse(open(os.path.join(repo, "scrapli/decorators.py")).read())
    funcs = {n.name: n for n in tree.body if isinstance(n, ast.FunctionDef)}
    for need in ("timeout_wrapper", "_multiprocessing_timeout", "_handle_timeout", "_get_transport_logger_timeout"):
        if need not in funcs:
            raise ValueError("decorators.py: %s not found" % need)
    tw = funcs["timeout_wrapper"]
    # the class names that force the thread mechanism: `cls_name in (<str constants>)`
    names = []
    for n in ast.walk(tw):
        if isinstance(n, ast.Compare) and len(n.ops) == 1 and isinstance(n.ops[0], ast.In) \
                and isinstance(n.comparators[0], (ast.Tuple, ast.List, ast.Set)):
            elts = n.comparators[0].elts
            if not all(isinstance(e, ast.Constant) and isinstance(e.value, str) for e in elts):
                raise ValueError("mechanism selection: non-constant class name")
            names.append([e.value for e in elts])
    if len(names) != 1:
        raise ValueError("mechanism selection: expected exactly one `cls_name in (...)`, found %d" % len(names))
    # the sync decorate(): a try/finally whose finally re-installs the handler and touches the timer
    sync_dec = [n for n in ast.walk(tw) if isinstance(n, ast.FunctionDef) and n.name == "decorate"]
    async_dec = [n for n in ast.walk(tw) if isinstance(n, ast.AsyncFunctionDef) and n.name == "decorate"]
    if len(sync_dec) != 1 or len(async_dec) != 1:
        raise ValueError("timeout_wrapper: expected one sync and one async decorate()")
    fin_ok = False
    for t in ast.walk(sync_dec[0]):
        if isinstance(t, ast.Try) and t.finalbody:
            called = [_dotted(c.func) for c in _calls(t.finalbody)]
            body_calls = [_dotted(c.func) for c in _calls(t.body)]
            if "signal.signal" in called and "signal.setitimer" in called and "wrapped_func" in body_calls:
                fin_ok = True
    mp = funcs["_multiprocessing_timeout"]
    pool_cm = any(isinstance(w, ast.With) and any(isinstance(i.context_expr, ast.Call)
                  and _dotted(i.context_expr.func) == "ThreadPoolExecutor" for i in w.items)
                  for w in ast.walk(mp))
    ht = funcs["_handle_timeout"]
    closes = False
    for n in ht.body:
        if isinstance(n, ast.If) and _dotted(n.test) == "Settings.NO_TERMINATE_ON_TIMEOUT":
            in_then = [_dotted(c.func) for c in _calls(n.body)]
            in_else = [_dotted(c.func) for c in _calls(n.orelse)]
            closes = "transport.close" in in_else and "transport.close" not in in_then
    last = ht.body[-1]
    raises = isinstance(last, ast.Raise) and isinstance(last.exc, ast.Call) and _dotted(last.exc.func) == "ScrapliTimeout"
    # the asyncio decorate(): wait_for inside a try whose handler calls _handle_timeout
    wf = False
    for t in ast.walk(async_dec[0]):
        if isinstance(t, ast.Try):
            body_calls = [_dotted(c.func) for c in _calls(t.body)]
            h_calls = [_dotted(c.func) for h in t.handlers for c in _calls(h.body)]
            if "asyncio.wait_for" in body_calls and "_handle_timeout" in h_calls:
                wf = True
    # cancellation reaches the wrapped call: every call of wrapped_func in the asyncio decorate() is awaited on the spot
    # or is the awaitable handed to asyncio.wait_for (which cancels and awaits it when it is cancelled itself); a wrapped
    # call started any other way (a task of its own, asyncio.wait, gather, shield ...) is not tied to the model's c_cancel
    direct = set()
    for n in ast.walk(async_dec[0]):
        if isinstance(n, ast.Await) and isinstance(n.value, ast.Call):
            c = n.value
            if _dotted(c.func) == "wrapped_func":
                direct.add(id(c))
            elif _dotted(c.func) == "asyncio.wait_for" and c.args and isinstance(c.args[0], ast.Call) \
                    and _dotted(c.args[0].func) == "wrapped_func":
                direct.add(id(c.args[0]))
    wrapped_calls = [c for c in _calls([async_dec[0]]) if _dotted(c.func) == "wrapped_func"]
    cancel_ok = bool(wrapped_calls) and all(id(c) in direct for c in wrapped_calls)
    per_call_why = _per_call_selection(sync_dec[0])
    no_state_why = _keeps_no_state(tree)
    return names[0], fin_ok, pool_cm, closes and raises, wf, cancel_ok, per_call_why, no_state_why


MUTATORS = {"setdefault", "update", "append", "add", "pop", "popitem", "insert", "extend", "clear", "remove", "discard",
            "__setitem__", "__setattr__", "__delitem__", "__delattr__"}
SETTERS = {"setattr", "delattr", "vars", "globals", "locals"}


def _reachable(tree, root):
    """module-level functions of decorators.py that `root` can reach by name (called, or handed to partial(...))"""
    funcs = {n.name: n for n in tree.body if isinstance(n, (ast.FunctionDef, ast.AsyncFunctionDef))}
    seen, todo = [], [root]
    while todo:
        nm = todo.pop()
        if nm in seen:
            continue
        seen.append(nm)
        for n in ast.walk(funcs[nm]):
            if isinstance(n, ast.Name) and isinstance(n.ctx, ast.Load) and n.id in funcs and n.id not in seen:
                todo.append(n.id)
    return [funcs[n] for n in seen]


def _keeps_no_state(tree):
    """nothing reachable from timeout_wrapper keeps anything from one call to the next: no store into an attribute or
    a subscript (of self, of the transport, of a module-level table ...), no global / nonlocal, no setattr-like call,
    no container-mutating method call, no access to __dict__, no decorator (memoisation) on any of these functions.
    Syntactic, and stricter than needed: anything of that kind makes the fact false."""
    why = []
    for f in _reachable(tree, "timeout_wrapper"):
        for n in ast.walk(f):
            if isinstance(n, (ast.FunctionDef, ast.AsyncFunctionDef)) and n.decorator_list:
                why.append("%s: decorated function %s" % (f.name, n.name))
            if isinstance(n, (ast.Attribute, ast.Subscript)) and isinstance(n.ctx, (ast.Store, ast.Del)):
                why.append("%s: store into %s at line %d" % (f.name, _dotted(n) if isinstance(n, ast.Attribute) else "a subscript", n.lineno))
            if isinstance(n, (ast.Global, ast.Nonlocal)):
                why.append("%s: %s %s" % (f.name, type(n).__name__.lower(), ",".join(n.names)))
            if isinstance(n, ast.Attribute) and n.attr == "__dict__":
                why.append("%s: __dict__ at line %d" % (f.name, n.lineno))
            if isinstance(n, ast.Call):
                fn = n.func
                if isinstance(fn, ast.Name) and fn.id in SETTERS:
                    why.append("%s: %s() at line %d" % (f.name, fn.id, n.lineno))
                if isinstance(fn, ast.Attribute) and fn.attr in MUTATORS:
                    why.append("%s: .%s() at line %d" % (f.name, fn.attr, n.lineno))
    return why


def _is_call_of(node, dotted):
    return isinstance(node, ast.Call) and _dotted(node.func) == dotted and not node.args and not node.keywords


def _per_call_selection(sync_dec):
    """the sync decorate() picks the worker-thread mechanism by a test evaluated in the wrapper itself, on every call,
    over exactly the three things select_mech looks at: the class name of the transport of THIS call
    (`<name> = transport.__class__.__name__` assigned in decorate(), `<name> in (<constants>)`), `_IS_WINDOWS`, and
    `threading.current_thread() is not threading.main_thread()`; the test guards a `return _multiprocessing_timeout(...)`
    and the signal branch (signal.signal / signal.setitimer) comes after it, in decorate() itself."""
    why = []
    guards = []
    for n in sync_dec.body:
        if isinstance(n, ast.If) and any(isinstance(r, ast.Return) and isinstance(r.value, ast.Call)
                                         and _dotted(r.value.func) == "_multiprocessing_timeout" for r in n.body):
            guards.append(n)
    if len(guards) != 1:
        return ["decorate(): expected exactly one top-level `if` returning _multiprocessing_timeout(...), found %d" % len(guards)]
    g = guards[0]
    if g.orelse:
        why.append("the mechanism test has an else branch")
    t = g.test
    if not (isinstance(t, ast.BoolOp) and isinstance(t.op, ast.Or) and len(t.values) == 3):
        return why + ["the mechanism test is not a disjunction of three terms"]
    kinds = {}
    for v in t.values:
        if isinstance(v, ast.Compare) and len(v.ops) == 1 and isinstance(v.ops[0], ast.In) and isinstance(v.left, ast.Name):
            kinds["class"] = v.left.id
        elif isinstance(v, ast.Name) and v.id == "_IS_WINDOWS":
            kinds["windows"] = True
        elif (isinstance(v, ast.Compare) and len(v.ops) == 1 and isinstance(v.ops[0], ast.IsNot)
              and _is_call_of(v.left, "threading.current_thread") and _is_call_of(v.comparators[0], "threading.main_thread")):
            kinds["thread"] = True
        else:
            why.append("unexpected term in the mechanism test at line %d" % v.lineno)
    if set(kinds) != {"class", "windows", "thread"}:
        return why + ["the mechanism test does not consist of class name / _IS_WINDOWS / current thread"]
    # the class name is that of the transport of this very call, bound in decorate() before the test
    bound = [n for n in sync_dec.body if isinstance(n, ast.Assign) and len(n.targets) == 1 and isinstance(n.targets[0], ast.Name)
             and n.targets[0].id == kinds["class"]]
    if not (len(bound) == 1 and _dotted(bound[0].value) == "transport.__class__.__name__" and bound[0].lineno < g.lineno):
        why.append("%s is not bound once to transport.__class__.__name__ before the test" % kinds["class"])
    tl = [n for n in sync_dec.body if isinstance(n, ast.Assign) and isinstance(n.targets[0], ast.Tuple)
          and [getattr(e, "id", None) for e in n.targets[0].elts][:1] == ["transport"] and isinstance(n.value, ast.Call)
          and _dotted(n.value.func) == "_get_transport_logger_timeout"]
    if len(tl) != 1:
        why.append("transport is not bound once from _get_transport_logger_timeout(...) in decorate()")
    stores = [n for n in ast.walk(sync_dec) if isinstance(n, ast.Name) and isinstance(n.ctx, ast.Store)
              and n.id in ("transport", kinds["class"])]
    if len(stores) != 2:
        why.append("transport / %s assigned more than once" % kinds["class"])
    after = [c for n in sync_dec.body if n.lineno > g.lineno for c in _calls([n])]
    if not {"signal.signal", "signal.setitimer"} <= {_dotted(c.func) for c in after}:
        why.append("the signal branch does not follow the mechanism test in decorate()")
    return why


def generate(outdir, repo=None):
    from scrapli import decorators
    from scrapli.channel.base_channel import BaseChannelArgs
    from scrapli.settings import Settings
    from scrapli.transport.base.base_transport import BaseTransportArgs

    repo = repo or os.environ.get("VERIF_REPO", "/repo")
    mp = decorators.FUNC_TIMEOUT_MESSAGE_MAP
    if not isinstance(mp, dict) or not mp:
        raise ValueError("FUNC_TIMEOUT_MESSAGE_MAP is not a non-empty dict")
    for k, v in mp.items():
        if not (isinstance(k, str) and isinstance(v, str) and k.isascii() and v.isascii() and v):
            raise ValueError("unexpected message map entry %r" % ((k, v),))
    default = decorators._get_timeout_message("\x00 no such function")
    if not (isinstance(default, str) and default.isascii() and default):
        raise ValueError("unexpected default message")
    for k, v in mp.items():
        if decorators._get_timeout_message(k) != v:
            raise ValueError("_get_timeout_message(%r) is not the map entry" % k)
    thread_classes, fin_ok, pool_cm, closes, wf, cancel_ok, per_call_why, no_state_why = _structure(repo)
    decorated = _decorated(repo)
    nt = Settings.NO_TERMINATE_ON_TIMEOUT
    if not isinstance(nt, bool):
        raise ValueError("Settings.NO_TERMINATE_ON_TIMEOUT is not a bool")
    t_ops = BaseChannelArgs().timeout_ops
    t_tr = BaseTransportArgs(transport_options={}, host="h").timeout_transport
    L = ["(* generated from the source tree by gen/gen_timeout.py — do not edit *)",
         "From Coq Require Import List NArith.", "Import ListNotations.", "Open Scope N_scope.",
         "Definition gen_msg_map : list (list N * list N) := ["
         + "; ".join("(%s, %s)" % (_b(k), _b(v)) for k, v in mp.items()) + "].",
         "Definition gen_msg_default : list N := %s." % _b(default),
         "Definition gen_thread_classes : list (list N) := [" + "; ".join(_b(c) for c in thread_classes) + "].",
         "(* (class, function, is coroutine) of every @timeout_wrapper in the anchored modules *)",
         "Definition gen_decorated : list (list N * list N * bool) := ["
         + "; ".join("(%s, %s, %s)" % (_b(c), _b(f), _bool(a)) for c, f, a in decorated) + "].",
         "Definition gen_no_terminate_default : bool := %s." % _bool(nt),
         "Definition gen_default_timeout_ops : N := %d." % _ms(t_ops),
         "Definition gen_default_timeout_transport : N := %d." % _ms(t_tr),
         "Definition gen_signal_finally_restores : bool := %s." % _bool(fin_ok),
         "Definition gen_pool_joins_worker : bool := %s." % _bool(pool_cm),
         "Definition gen_handle_timeout_closes_and_raises : bool := %s." % _bool(closes),
         "Definition gen_async_wait_for_handled : bool := %s." % _bool(wf),
         "Definition gen_async_cancel_reaches_wrapped : bool := %s." % _bool(cancel_ok),
         "(* %s *)" % ("; ".join(per_call_why + no_state_why).replace("*", "x") or "no finding"),
         "Definition gen_selection_per_call_context : bool := %s." % _bool(not per_call_why),
         "Definition gen_wrapper_keeps_no_state : bool := %s." % _bool(not no_state_why)]
    text = "\n".join(L) + "\n"
    path = os.path.join(outdir, "Gen_Timeout.v")
    if not os.path.exists(path) or open(path).read() != text:
        open(path, "w").write(text)
    info = {"msg_map": dict(mp), "msg_default": default, "thread_classes": thread_classes,
            "decorated": ["%s.%s%s" % (c, f, " (async)" if a else "") for c, f, a in decorated],
            "no_terminate_default": nt, "timeout_ops_default": t_ops, "timeout_transport_default": t_tr,
            "ast": {"signal_finally_restores": fin_ok, "pool_joins_worker": pool_cm,
                    "handle_timeout_closes_and_raises": closes, "async_wait_for_handled": wf,
                    "async_cancel_reaches_wrapped": cancel_ok,
                    "selection_per_call_context": not per_call_why, "wrapper_keeps_no_state": not no_state_why,
                    "per_call_findings": per_call_why + no_state_why}}
    return path, info


if __name__ == "__main__":
    print(generate(sys.argv[1]))
