"""Gen_Timeout.v — what the timeout machinery of the current source tree says, as Coq data (fail-closed):
the timeout message map and its default, the transport class names that select the worker-thread
mechanism, the functions decorated with @timeout_wrapper in the anchored modules, the defaults of
Settings.NO_TERMINATE_ON_TIMEOUT / timeout_ops / timeout_transport, and a few `ast` facts about the
shape of the decorator (finally restores handler and timer; the pool is a context manager, i.e. joins
its worker; _handle_timeout closes unless NO_TERMINATE and always raises ScrapliTimeout)."""
import ast
import os
import sys

ANCHORS = [
    ("scrapli/channel/sync_channel.py", "Channel"),
    ("scrapli/channel/async_channel.py", "AsyncChannel"),
    ("scrapli/transport/plugins/system/transport.py", "SystemTransport"),
    ("scrapli/transport/plugins/telnet/transport.py", "TelnetTransport"),
    ("scrapli/transport/plugins/asynctelnet/transport.py", "AsynctelnetTransport"),
    ("scrapli/transport/plugins/asyncssh/transport.py", "AsyncsshTransport"),
    ("scrapli/transport/plugins/paramiko/transport.py", "ParamikoTransport"),
    ("scrapli/transport/plugins/ssh2/transport.py", "Ssh2Transport"),
]


def _b(s):
    if isinstance(s, str):
        s = s.encode("ascii")
    return "[" + ";".join(str(x) for x in s) + "]"


def _bool(b):
    return "true" if b else "false"


def _ms(x):
    v = float(x) * 1000
    if v < 0 or v != int(v) or v > 10 ** 9:
        raise ValueError("unexpected timeout default %r" % (x,))
    return int(v)


def _dotted(node):
    if isinstance(node, ast.Name):
        return node.id
    if isinstance(node, ast.Attribute):
        return _dotted(node.value) + "." + node.attr
    return "?"


def _calls(nodes):
    out = []
    for n in nodes:
        for c in ast.walk(n):
            if isinstance(c, ast.Call):
                out.append(c)
    return out


def _decorated(repo):
    out = []
    for rel, cls in ANCHORS:
        tree = ast.parse(open(os.path.join(repo, rel)).read())
        found = [n for n in tree.body if isinstance(n, ast.ClassDef) and n.name == cls]
        if len(found) != 1:
            raise ValueError("class %s not found exactly once in %s" % (cls, rel))
        for f in found[0].body:
            if isinstance(f, (ast.FunctionDef, ast.AsyncFunctionDef)):
                decs = [_dotted(d) for d in f.decorator_list]
                if "timeout_wrapper" in decs:
                    out.append((cls, f.name, isinstance(f, ast.AsyncFunctionDef)))
    return out


def _structure(repo):
    tree = ast.parse(open(os.path.join(repo, "scrapli/decorators.py")).read())
    funcs = {n.name: n for n in tree.body if isinstance(n, ast.FunctionDef)}
    for need in ("timeout_wrapper", "_multiprocessing_timeout", "_handle_timeout", "_get_transport_logger_timeout"):
        if need not in funcs:
            raise ValueError("decorators.py: %s not found" % need)
    tw = funcs["timeout_wrapper"]
    # the class names that force the thread mechanism: `cls_name in (<str constants>)`
    names = []
    for n in ast.walk(tw):
        if isinstance(n, ast.Compare) and len(n.ops) == 1 and isinstance(n.ops[0], ast.In) \
                and isinstance(n.comparators[0], (ast.Tuple, ast.List, ast.Set)):
            elts = n.comparators[0].elts
            if not all(isinstance(e, ast.Constant) and isinstance(e.value, str) for e in elts):
                raise ValueError("mechanism selection: non-constant class name")
            names.append([e.value for e in elts])
    if len(names) != 1:
        raise ValueError("mechanism selection: expected exactly one `cls_name in (...)`, found %d" % len(names))
    # the sync decorate(): a try/finally whose finally re-installs the handler and touches the timer
    sync_dec = [n for n in ast.walk(tw) if isinstance(n, ast.FunctionDef) and n.name == "decorate"]
    async_dec = [n for n in ast.walk(tw) if isinstance(n, ast.AsyncFunctionDef) and n.name == "decorate"]
    if len(sync_dec) != 1 or len(async_dec) != 1:
        raise ValueError("timeout_wrapper: expected one sync and one async decorate()")
    fin_ok = False
    for t in ast.walk(sync_dec[0]):
        if isinstance(t, ast.Try) and t.finalbody:
            called = [_dotted(c.func) for c in _calls(t.finalbody)]
            body_calls = [_dotted(c.func) for c in _calls(t.body)]
            if "signal.signal" in called and "signal.setitimer" in called and "wrapped_func" in body_calls:
                fin_ok = True
    mp = funcs["_multiprocessing_timeout"]
    pool_cm = any(isinstance(w, ast.With) and any(isinstance(i.context_expr, ast.Call)
                  and _dotted(i.context_expr.func) == "ThreadPoolExecutor" for i in w.items)
                  for w in ast.walk(mp))
    ht = funcs["_handle_timeout"]
    closes = False
    for n in ht.body:
        if isinstance(n, ast.If) and _dotted(n.test) == "Settings.NO_TERMINATE_ON_TIMEOUT":
            in_then = [_dotted(c.func) for c in _calls(n.body)]
            in_else = [_dotted(c.func) for c in _calls(n.orelse)]
            closes = "transport.close" in in_else and "transport.close" not in in_then
    last = ht.body[-1]
    raises = isinstance(last, ast.Raise) and isinstance(last.exc, ast.Call) and _dotted(last.exc.func) == "ScrapliTimeout"
    # the asyncio decorate(): wait_for inside a try whose handler calls _handle_timeout
    wf = False
    for t in ast.walk(async_dec[0]):
        if isinstance(t, ast.Try):
            body_calls = [_dotted(c.func) for c in _calls(t.body)]
            h_calls = [_dotted(c.func) for h in t.handlers for c in _calls(h.body)]
            if "asyncio.wait_for" in body_calls and "_handle_timeout" in h_calls:
                wf = True
    # cancellation reaches the wrapped call: every call of wrapped_func in the asyncio decorate() is awaited on the spot
    # or is the awaitable handed to asyncio.wait_for (which cancels and awaits it when it is cancelled itself); a wrapped
    # call started any other way (a task of its own, asyncio.wait, gather, shield ...) is not tied to the model's c_cancel
    direct = set()
    for n in ast.walk(async_dec[0]):
        if isinstance(n, ast.Await) and isinstance(n.value, ast.Call):
            c = n.value
            if _dotted(c.func) == "wrapped_func":
                direct.add(id(c))
            elif _dotted(c.func) == "asyncio.wait_for" and c.args and isinstance(c.args[0], ast.Call) \
                    and _dotted(c.args[0].func) == "wrapped_func":
                direct.add(id(c.args[0]))
    wrapped_calls = [c for c in _calls([async_dec[0]]) if _dotted(c.func) == "wrapped_func"]
    cancel_ok = bool(wrapped_calls) and all(id(c) in direct for c in wrapped_calls)
    return names[0], fin_ok, pool_cm, closes and raises, wf, cancel_ok


def generate(outdir, repo=None):
    from scrapli import decorators
    from scrapli.channel.base_channel import BaseChannelArgs
    from scrapli.settings import Settings
    from scrapli.transport.base.base_transport import BaseTransportArgs

    repo = repo or os.environ.get("VERIF_REPO", "/repo")
    mp = decorators.FUNC_TIMEOUT_MESSAGE_MAP
    if not isinstance(mp, dict) or not mp:
        raise ValueError("FUNC_TIMEOUT_MESSAGE_MAP is not a non-empty dict")
    for k, v in mp.items():
        if not (isinstance(k, str) and isinstance(v, str) and k.isascii() and v.isascii() and v):
            raise ValueError("unexpected message map entry %r" % ((k, v),))
    default = decorators._get_timeout_message("\x00 no such function")
    if not (isinstance(default, str) and default.isascii() and default):
        raise ValueError("unexpected default message")
    for k, v in mp.items():
        if decorators._get_timeout_message(k) != v:
            raise ValueError("_get_timeout_message(%r) is not the map entry" % k)
    thread_classes, fin_ok, pool_cm, closes, wf, cancel_ok = _structure(repo)
    decorated = _decorated(repo)
    nt = Settings.NO_TERMINATE_ON_TIMEOUT
    if not isinstance(nt, bool):
        raise ValueError("Settings.NO_TERMINATE_ON_TIMEOUT is not a bool")
    t_ops = BaseChannelArgs().timeout_ops
    t_tr = BaseTransportArgs(transport_options={}, host="h").timeout_transport
    L = ["(* generated from the source tree by gen/gen_timeout.py — do not edit *)",
         "From Coq Require Import List NArith.", "Import ListNotations.", "Open Scope N_scope.",
         "Definition gen_msg_map : list (list N * list N) := ["
         + "; ".join("(%s, %s)" % (_b(k), _b(v)) for k, v in mp.items()) + "].",
         "Definition gen_msg_default : list N := %s." % _b(default),
         "Definition gen_thread_classes : list (list N) := [" + "; ".join(_b(c) for c in thread_classes) + "].",
         "(* (class, function, is coroutine) of every @timeout_wrapper in the anchored modules *)",
         "Definition gen_decorated : list (list N * list N * bool) := ["
         + "; ".join("(%s, %s, %s)" % (_b(c), _b(f), _bool(a)) for c, f, a in decorated) + "].",
         "Definition gen_no_terminate_default : bool := %s." % _bool(nt),
         "Definition gen_default_timeout_ops : N := %d." % _ms(t_ops),
         "Definition gen_default_timeout_transport : N := %d." % _ms(t_tr),
         "Definition gen_signal_finally_restores : bool := %s." % _bool(fin_ok),
         "Definition gen_pool_joins_worker : bool := %s." % _bool(pool_cm),
         "Definition gen_handle_timeout_closes_and_raises : bool := %s." % _bool(closes),
         "Definition gen_async_wait_for_handled : bool := %s." % _bool(wf),
         "Definition gen_async_cancel_reaches_wrapped : bool := %s." % _bool(cancel_ok)]
    text = "\n".join(L) + "\n"
    path = os.path.join(outdir, "Gen_Timeout.v")
    if not os.path.exists(path) or open(path).read() != text:
        open(path, "w").write(text)
    info = {"msg_map": dict(mp), "msg_default": default, "thread_classes": thread_classes,
            "decorated": ["%s.%s%s" % (c, f, " (async)" if a else "") for c, f, a in decorated],
            "no_terminate_default": nt, "timeout_ops_default": t_ops, "timeout_transport_default": t_tr,
            "ast": {"signal_finally_restores": fin_ok, "pool_joins_worker": pool_cm,
                    "handle_timeout_closes_and_raises": closes, "async_wait_for_handled": wf,
                    "async_cancel_reaches_wrapped": cancel_ok}}
    return path, info


if __name__ == "__main__":
    print(generate(sys.argv[1]))
