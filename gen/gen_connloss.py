"""Gen_ConnLoss.v -- the exception-handling facts of the current source tree that coq/model/ConnLoss.v is
parametrised by (a `cfg`), read off with `ast` (+ the real subclass relation from the imported classes).
Fail-closed: a construct the translator does not understand aborts the generation.

 * gen_supers: for every class of the model's universe, its superclasses (Python's own issubclass on the
   imported classes: builtins, asyncio, socket, paramiko, asyncssh, ptyprocess, scrapli.exceptions);
 * per transport: not-opened guards of read()/write(), the try/except/suppress tables around the low-level
   read / write / close / liveness-probe calls, whether the read handler sets _eof, whether an empty read is
   raised as ScrapliConnectionError, whether isalive() honours the EOF indication, whether read() is decorated
   with timeout_wrapper, the tables around every library step of open();
 * base_socket.Socket: tables around sock.send(b"") (isalive), sock.shutdown (close), getaddrinfo, connect;
 * channel: the except clauses of the two Telnet login loops, whether the asyncio loop sleeps on every path,
   the except / suppress tables around self.read() in the read-for-a-duration loop (_read_until_prompt_or_time:
   gen_rtime_sync / gen_rtime_async, checked by ConnLossTime.rtime_ok), that no other channel read/write loop contains
   a try / suppress, and that the channel lock context manager gives the lock back however its body is left
   (gen_chan_lock_released);
 * the writes INSIDE read() of the two Telnet transports (option negotiation replies): every send / write call
   reachable from read() (read, _read, _handle_control_chars, _handle_control_chars_response and the helpers they
   call), the try/except tables between its low-level send and the caller of read() (the transport's own write()
   included when the reply goes through it), and whether the handler's per-byte guard is the truth value of the
   Socket object (a liveness probe) -- an `ncfg` of coq/model/ConnLossNeg.v."""
import ast
import os
import sys

from harness import common

CLS = ["EException", "EOSError", "EConnectionError", "EConnReset", "EBrokenPipe", "EConnRefused", "EConnAborted",
       "ETimeout", "EGaiError", "EEOFError", "EIncompleteRead", "EAttributeError", "EPtyProcessError",
       "ESSHException", "EAuthException", "EChannelException", "EAsyncsshError", "EDisconnectError",
       "EConnectionLost", "EPermissionDenied", "EHostKeyNotVerifiable", "EKeyExchangeFailed", "EChannelOpenError",
       "SException", "SConnectionError", "SNotOpened", "SAuthFailed", "STimeout"]

# source spelling of an exception class in an except clause / suppress() / raise  ->  model class
NAMES = {
    "Exception": "EException", "OSError": "EOSError", "ConnectionError": "EConnectionError",
    "ConnectionResetError": "EConnReset", "BrokenPipeError": "EBrokenPipe", "ConnectionRefusedError": "EConnRefused",
    "ConnectionAbortedError": "EConnAborted", "TimeoutError": "ETimeout", "socket.timeout": "ETimeout",
    "asyncio.TimeoutError": "ETimeout", "socket.gaierror": "EGaiError", "gaierror": "EGaiError",
    "EOFError": "EEOFError", "asyncio.IncompleteReadError": "EIncompleteRead", "AttributeError": "EAttributeError",
    "PtyProcessError": "EPtyProcessError", "SSHException": "ESSHException",
    "AuthenticationException": "EAuthException", "ChannelException": "EChannelException",
    "DisconnectError": "EDisconnectError", "ConnectionLost": "EConnectionLost",
    "PermissionDenied": "EPermissionDenied", "HostKeyNotVerifiable": "EHostKeyNotVerifiable",
    "KeyExchangeFailed": "EKeyExchangeFailed", "ChannelOpenError": "EChannelOpenError",
    "ScrapliException": "SException", "ScrapliConnectionError": "SConnectionError",
    "ScrapliConnectionNotOpened": "SNotOpened", "ScrapliAuthenticationFailed": "SAuthFailed",
    "ScrapliTimeout": "STimeout",
}

FILES = {
    "telnet": "scrapli/transport/plugins/telnet/transport.py",
    "asynctelnet": "scrapli/transport/plugins/asynctelnet/transport.py",
    "system": "scrapli/transport/plugins/system/transport.py",
    "paramiko": "scrapli/transport/plugins/paramiko/transport.py",
    "asyncssh": "scrapli/transport/plugins/asyncssh/transport.py",
    "socket": "scrapli/transport/base/base_socket.py",
    "sync_channel": "scrapli/channel/sync_channel.py",
    "async_channel": "scrapli/channel/async_channel.py",
    "base_channel": "scrapli/channel/base_channel.py",
}
CLASSES = {"telnet": "TelnetTransport", "asynctelnet": "AsynctelnetTransport", "system": "SystemTransport",
           "paramiko": "ParamikoTransport", "asyncssh": "AsyncsshTransport"}
COQ_TR = {"telnet": "Telnet", "asynctelnet": "ATelnet", "system": "System", "paramiko": "Paramiko",
          "asyncssh": "Asyncssh"}


class Unknown(ValueError):
    pass


def py_classes():
    import asyncio
    import socket
    import asyncssh.misc as am
    import paramiko.ssh_exception as pe
    import scrapli.exceptions as se
    from scrapli.transport.plugins.system.ptyprocess import PtyProcessError
    return {
        "EException": Exception, "EOSError": OSError, "EConnectionError": ConnectionError,
        "EConnReset": ConnectionResetError, "EBrokenPipe": BrokenPipeError, "EConnRefused": ConnectionRefusedError,
        "EConnAborted": ConnectionAbortedError, "ETimeout": TimeoutError, "EGaiError": socket.gaierror,
        "EEOFError": EOFError, "EIncompleteRead": asyncio.IncompleteReadError, "EAttributeError": AttributeError,
        "EPtyProcessError": PtyProcessError, "ESSHException": pe.SSHException,
        "EAuthException": pe.AuthenticationException, "EChannelException": pe.ChannelException,
        "EAsyncsshError": am.Error, "EDisconnectError": am.DisconnectError, "EConnectionLost": am.ConnectionLost,
        "EPermissionDenied": am.PermissionDenied, "EHostKeyNotVerifiable": am.HostKeyNotVerifiable,
        "EKeyExchangeFailed": am.KeyExchangeFailed, "EChannelOpenError": am.ChannelOpenError,
        "SException": se.ScrapliException, "SConnectionError": se.ScrapliConnectionError,
        "SNotOpened": se.ScrapliConnectionNotOpened, "SAuthFailed": se.ScrapliAuthenticationFailed,
        "STimeout": se.ScrapliTimeout,
    }, {"socket.timeout": socket.timeout, "asyncio.TimeoutError": asyncio.TimeoutError}


# ---------------------------------------------------------------------------------------------- ast helpers
def parse(rel):
    with open(os.path.join(common.REPO, rel), encoding="utf-8") as f:
        return ast.parse(f.read())


def find_class(tree, name):
    for n in tree.body:
        if isinstance(n, ast.ClassDef) and n.name == name:
            return n
    raise Unknown("class %s not found" % name)


def find_func(scope, name):
    for n in scope.body:
        if isinstance(n, (ast.FunctionDef, ast.AsyncFunctionDef)) and n.name == name:
            return n
    raise Unknown("function %s not found" % name)


def exc_name(node):
    s = ast.unparse(node)
    if s not in NAMES:
        raise Unknown("exception class not in the model's universe: %s" % s)
    return NAMES[s]


def exc_list(node):
    if isinstance(node, ast.Tuple):
        return [exc_name(e) for e in node.elts]
    return [exc_name(node)]


def raised_class(r):
    """class of `raise X(...)` / `raise X` ; None for a bare raise"""
    if r.exc is None:
        return None
    e = r.exc.func if isinstance(r.exc, ast.Call) else r.exc
    return exc_name(e)


def handler_action(h, strict=None):
    """what the body of an except clause ends in"""
    body = [s for s in h.body if not (isinstance(s, ast.Expr) and isinstance(s.value, ast.Constant))]
    if not body:
        raise Unknown("empty handler")
    first = body[0]
    if isinstance(first, ast.If) and "auth_strict_key" in ast.unparse(first.test):
        # `if not strict: raise` in front of the mapping (asyncssh open)
        if not (ast.unparse(first.test) == "not self.plugin_transport_args.auth_strict_key" and len(first.body) == 1
                and isinstance(first.body[0], ast.Raise) and first.body[0].exc is None and not first.orelse):
            raise Unknown("conditional handler not understood: %s" % ast.unparse(first.test))
        if not strict:
            return "AReraise"
    last = body[-1]
    if isinstance(last, ast.Raise):
        c = raised_class(last)
        return "AReraise" if c is None else "ARaise %s" % c
    if isinstance(last, ast.Return):
        if isinstance(last.value, ast.Constant) and last.value.value is False:
            return "AFalse"
        raise Unknown("handler returns %s" % ast.unparse(last))
    if isinstance(last, ast.If) and not last.orelse and len(last.body) == 1 and isinstance(last.body[0], ast.Raise):
        # base_socket._connect: `if <last address family>: raise X` -- one address family: raised
        c = raised_class(last.body[0])
        if c is None:
            raise Unknown("conditional bare raise")
        return "ARaise %s" % c
    for s in ast.walk(ast.Module(body=body, type_ignores=[])):
        if isinstance(s, ast.Raise):
            raise Unknown("raise in the middle of a handler: %s" % ast.unparse(h)[:80])
    return "ASwallow"


def try_table(t, strict=None):
    return [(exc_list(h.type) if h.type is not None else ["EException"], handler_action(h, strict)) for h in t.handlers]


def suppress_table(w):
    """`with suppress(A, B):` -> [([A,B], ASwallow)] ; None when the with is not a suppress"""
    for item in w.items:
        c = item.context_expr
        if isinstance(c, ast.Call) and ast.unparse(c.func) in ("suppress", "contextlib.suppress"):
            return [([exc_name(a) for a in c.args], "ASwallow")]
    return None


def call_attr(c):
    f = c.func
    if isinstance(f, ast.Attribute):
        return f.attr
    if isinstance(f, ast.Name):
        return f.id
    return None


def enclosing_tables(fn, pred, strict=None, which=0):
    """tables (innermost first) of the try / suppress blocks of `fn` that enclose the `which`-th call
    satisfying pred (in source order); aborts when there is no such call"""
    found = []

    def walk(stmts, stack):
        for s in stmts:
            if isinstance(s, ast.Try):
                walk(s.body, [("try", s)] + stack)
                for h in s.handlers:
                    walk(h.body, stack)
                walk(s.orelse, stack)
                walk(s.finalbody, stack)
            elif isinstance(s, (ast.With, ast.AsyncWith)):
                st = suppress_table(s)
                walk(s.body, ([("sup", st)] + stack) if st is not None else stack)
            elif isinstance(s, (ast.If, ast.While, ast.For, ast.AsyncFor)):
                for c in ast.walk(s.test if hasattr(s, "test") else s.iter):
                    if isinstance(c, ast.Call) and pred(c):
                        found.append((c.lineno, c.col_offset, stack))
                walk(s.body, stack)
                walk(s.orelse, stack)
            elif isinstance(s, (ast.FunctionDef, ast.AsyncFunctionDef, ast.ClassDef)):
                continue
            else:
                for c in ast.walk(s):
                    if isinstance(c, ast.Call) and pred(c):
                        found.append((c.lineno, c.col_offset, stack))

    walk(fn.body, [])
    found.sort(key=lambda x: (x[0], x[1]))
    if len(found) <= which:
        raise Unknown("%s: expected low-level call not found" % fn.name)
    out = []
    for kind, node in found[which][2]:
        out.append(try_table(node, strict) if kind == "try" else node)
    return out


def attr_call(path):
    """predicate: the call's function is exactly the dotted path (e.g. self.socket.sock.recv)"""
    return lambda c: ast.unparse(c.func) == path


def has_guard(fn, before_pred):
    """the method raises ScrapliConnectionNotOpened under an `if` placed before the low-level call"""
    for s in fn.body:
        if isinstance(s, ast.If) and len(s.body) == 1 and isinstance(s.body[0], ast.Raise) \
                and raised_class(s.body[0]) == "SNotOpened":
            return True
        if any(isinstance(c, ast.Call) and before_pred(c) for c in ast.walk(s)):
            return False
    return False


def if_raising(fn, must_mention, cls):
    """a top-level `if` of fn whose test mentions all of must_mention and whose body ends in raise cls"""
    for s in fn.body:
        if isinstance(s, ast.If):
            t = ast.unparse(s.test)
            if all(m in t for m in must_mention) and isinstance(s.body[-1], ast.Raise) and raised_class(s.body[-1]) == cls:
                return True
    return False


def if_returning_false(fn, must_mention):
    for s in ast.walk(fn):
        if isinstance(s, ast.If):
            t = ast.unparse(s.test)
            if all(m in t for m in must_mention) and any(
                    isinstance(b, ast.Return) and isinstance(b.value, ast.Constant) and b.value.value is False for b in s.body):
                return True
    return False


def decorated(fn, name):
    return any(ast.unparse(d) == name for d in fn.decorator_list)


# ---------------------------------------------------------------------------------------------- emit
def coq_table(t):
    return "[" + "; ".join("([%s], %s)" % ("; ".join(cs), a) for cs, a in t) + "]"


def coq_tables(ts):
    return "[" + "; ".join(coq_table(t) for t in ts) + "]"


def coq_bool(b):
    return "true" if b else "false"


def transport_facts(strict):
    trees = {k: parse(v) for k, v in FILES.items()}
    out = {}
    sock = find_class(trees["socket"], "Socket")
    sock_getaddr = enclosing_tables(find_func(sock, "open"), attr_call("socket.getaddrinfo"))
    sock_connect = enclosing_tables(find_func(sock, "_connect"), attr_call("self.sock.connect"))
    sock_alive = enclosing_tables(find_func(sock, "isalive"), attr_call("self.sock.send"))
    sock_shutdown = enclosing_tables(find_func(sock, "close"), attr_call("self.sock.shutdown"))

    # ---- telnet / asynctelnet
    for k, low_read, low_write, rfn in (("telnet", "self.socket.sock.recv", "self.socket.sock.send", "_read"),
                                        ("asynctelnet", "self.stdout.read", "self.stdin.write", "_read")):
        cls = find_class(trees[k], CLASSES[k])
        read, _read, write, isalive = (find_func(cls, n) for n in ("read", rfn, "write", "isalive"))
        rt = enclosing_tables(_read, attr_call(low_read))
        sets_eof = False
        for n in ast.walk(_read):
            if isinstance(n, ast.Try):
                for h in n.handlers:
                    for s in ast.walk(h):
                        if isinstance(s, ast.Assign) and ast.unparse(s) == "self._eof = True":
                            sets_eof = True
        if k == "telnet":
            otb = [sock_getaddr, sock_connect]
        else:
            otb = [enclosing_tables(find_func(cls, "open"), lambda c: ast.unparse(c.func) == "asyncio.open_connection")]
        out[k] = dict(
            read_guard=has_guard(read, lambda c: call_attr(c) == "_read"),
            write_guard=has_guard(write, attr_call(low_write)),
            read_tbls=rt, write_tbls=enclosing_tables(write, attr_call(low_write)), close_tbls=[], alive_tbls=[],
            err_sets_eof=sets_eof,
            eof_raises=if_raising(read, ["self._eof", "not self._cooked_buf"], "SConnectionError"),
            alive_eof=if_returning_false(isalive, ["self._eof"]),
            read_decorated=decorated(read, "timeout_wrapper"), open_tbls=otb)
    # ---- system
    cls = find_class(trees["system"], CLASSES["system"])
    read, write, isalive, close = (find_func(cls, n) for n in ("read", "write", "isalive", "close"))
    out["system"] = dict(
        read_guard=has_guard(read, attr_call("self.session.read")),
        write_guard=has_guard(write, attr_call("self.session.write")),
        read_tbls=enclosing_tables(read, attr_call("self.session.read")),
        write_tbls=enclosing_tables(write, attr_call("self.session.write")),
        close_tbls=enclosing_tables(close, attr_call("self.session.close")),
        alive_tbls=enclosing_tables(isalive, attr_call("self.session.isalive")),
        err_sets_eof=False, eof_raises=True,
        alive_eof=any(ast.unparse(n) == "not self.session.eof()" for n in ast.walk(isalive)),
        read_decorated=decorated(read, "timeout_wrapper"),
        open_tbls=[enclosing_tables(find_func(cls, "open"), attr_call("PtyProcess.spawn"))])
    # ---- paramiko
    cls = find_class(trees["paramiko"], CLASSES["paramiko"])
    read, write, isalive, close, opn = (find_func(cls, n) for n in ("read", "write", "isalive", "close", "open"))
    och = find_func(cls, "_open_channel")
    out["paramiko"] = dict(
        read_guard=has_guard(read, attr_call("self.session_channel.recv")),
        write_guard=has_guard(write, attr_call("self.session_channel.send")),
        read_tbls=enclosing_tables(read, attr_call("self.session_channel.recv")),
        write_tbls=enclosing_tables(write, attr_call("self.session_channel.send")),
        close_tbls=enclosing_tables(close, attr_call("self.session_channel.close")),
        alive_tbls=enclosing_tables(isalive, attr_call("self.session.is_alive")),
        err_sets_eof=False,
        eof_raises=if_raising(read, ["not buf"], "SConnectionError"),
        alive_eof=if_returning_false(isalive, ["closed", "eof_received"]),
        read_decorated=decorated(read, "timeout_wrapper"),
        open_tbls=[sock_getaddr, sock_connect,
                   enclosing_tables(opn, attr_call("self.session.start_client")),
                   enclosing_tables(find_func(cls, "_authenticate_password"), attr_call("self.session.auth_password")),
                   enclosing_tables(och, attr_call("self.session.open_session")),
                   enclosing_tables(och, attr_call("self.session_channel.get_pty")),
                   enclosing_tables(och, attr_call("self.session_channel.invoke_shell"))])
    # the calls of open() that reach the steps above must not sit inside a try of open() itself that would
    # change the flow: _authenticate / _open_channel are called bare
    for name in ("self._authenticate", "self._open_channel"):
        if enclosing_tables(opn, attr_call(name)):
            raise Unknown("paramiko open(): %s is wrapped in a try; not understood" % name)
    # ---- asyncssh
    cls = find_class(trees["asyncssh"], CLASSES["asyncssh"])
    read, write, isalive, close, opn = (find_func(cls, n) for n in ("read", "write", "isalive", "close", "open"))
    deco = [ast.unparse(d) for d in opn.decorator_list]
    outer = []
    for dn in deco:
        dfn = find_func(trees["asyncssh"], dn)
        inner = [n for n in dfn.body if isinstance(n, (ast.FunctionDef, ast.AsyncFunctionDef))]
        if len(inner) != 1:
            raise Unknown("decorator %s not understood" % dn)
        outer += enclosing_tables(inner[0], lambda c: isinstance(c.func, ast.Name) and c.func.id == dfn.args.args[0].arg)
    out["asyncssh"] = dict(
        read_guard=has_guard(read, attr_call("self.stdout.read")),
        write_guard=has_guard(write, attr_call("self.stdin.write")),
        read_tbls=enclosing_tables(read, attr_call("self.stdout.read")),
        write_tbls=enclosing_tables(write, attr_call("self.stdin.write")),
        close_tbls=enclosing_tables(close, attr_call("self.session.close")),
        alive_tbls=enclosing_tables(isalive, lambda c: call_attr(c) == "is_closing"),
        err_sets_eof=False,
        eof_raises=if_raising(read, ["self.stdout.at_eof()"], "SConnectionError"),
        alive_eof=if_returning_false(isalive, ["at_eof()"]),
        read_decorated=decorated(read, "timeout_wrapper"),
        open_tbls=[enclosing_tables(opn, lambda c: isinstance(c.func, ast.Name) and c.func.id == "connect", strict) + outer,
                   enclosing_tables(opn, attr_call("self.session.open_session"), strict) + outer])
    return out, sock_alive, sock_shutdown, trees


WRITE_ATTRS = ("send", "sendall", "sendto", "sendmsg", "write", "writelines", "send_return")


def negotiation_facts(trees, facts):
    """per Telnet transport: (n_probe, n_reply tables) -- see the module docstring"""
    out = {}
    sock = find_class(trees["socket"], "Socket")
    sock_bool = [n for n in sock.body if isinstance(n, ast.FunctionDef) and n.name in ("__bool__", "__len__")]
    if [n.name for n in sock_bool] != ["__bool__"] or ast.unparse(sock_bool[0].body[-1]) != "return self.isalive()":
        raise Unknown("base_socket.Socket: truth value not understood")
    for k, low_write in (("telnet", "self.socket.sock.send"), ("asynctelnet", "self.stdin.write")):
        cls = find_class(trees[k], CLASSES[k])
        methods = {n.name: n for n in cls.body if isinstance(n, (ast.FunctionDef, ast.AsyncFunctionDef))}
        # the functions reachable from read() (self.<method>() calls, transitively), write() itself aside
        reach, todo = [], ["read"]
        while todo:
            m = todo.pop()
            if m in reach or m == "write":
                continue
            if m not in methods:
                raise Unknown("%s: read() reaches self.%s, not a method of the class" % (k, m))
            reach.append(m)
            for c in ast.walk(methods[m]):
                if isinstance(c, ast.Call) and isinstance(c.func, ast.Attribute) and ast.unparse(c.func.value) == "self":
                    todo.append(c.func.attr)
        handler = "_handle_control_chars_response"
        if reach[:1] != ["read"] or handler not in reach or "_handle_control_chars" not in reach:
            raise Unknown("%s: read() does not reach the option negotiation handler" % k)
        is_reply = lambda c: ast.unparse(c.func) in ("self.write", low_write)      # noqa: E731
        for m in reach:
            for c in ast.walk(methods[m]):
                if isinstance(c, ast.Call) and call_attr(c) in WRITE_ATTRS and not (m == handler and is_reply(c)):
                    raise Unknown("%s.%s: a write inside read() the model does not know: %s" % (k, m, ast.unparse(c)[:60]))
        nsites = sum(1 for c in ast.walk(methods[handler]) if isinstance(c, ast.Call) and is_reply(c))
        if not nsites:
            raise Unknown("%s: no reply to the server's options found" % k)
        # the way out: handler <- _handle_control_chars <- read (no other caller on the read path)
        outer = enclosing_tables(methods["_handle_control_chars"], attr_call("self." + handler)) + \
            enclosing_tables(methods["read"], attr_call("self._handle_control_chars"))
        chains = []
        sites = sorted(((c.lineno, c.col_offset, ast.unparse(c.func)) for c in ast.walk(methods[handler])
                        if isinstance(c, ast.Call) and is_reply(c)))
        for i, (_, _, path) in enumerate(sites):
            around = enclosing_tables(methods[handler], is_reply, which=i)
            inner = []
            if path == "self.write":
                if not facts[k]["write_guard"]:
                    raise Unknown("%s: write() without its guard" % k)
                inner = facts[k]["write_tbls"]
            chains.append(inner + around + outer)
        if any(ch != chains[0] for ch in chains):
            raise Unknown("%s: the reply sites of the negotiation handler differ in their exception handling" % k)
        # the per-byte guard
        probe = False
        first = [s for s in methods[handler].body if not (isinstance(s, ast.Expr) and isinstance(s.value, ast.Constant))][0]
        if isinstance(first, ast.If) and len(first.body) == 1 and isinstance(first.body[0], ast.Raise) \
                and raised_class(first.body[0]) == "SNotOpened":
            t = ast.unparse(first.test)
            if t == "not self.socket":
                probe = True
            elif t not in ("self.socket is None", "not self.stdout", "not self.stdin", "self.stdout is None",
                           "self.stdin is None", "not self.stdin or not self.stdout", "not self.stdout or not self.stdin"):
                raise Unknown("%s: guard of the negotiation handler not understood: %s" % (k, t))
        out[k] = (probe, chains[0], [p for _, _, p in sites])
    return out


def login_facts(trees):
    sc = find_func(find_class(trees["sync_channel"], "Channel"), "channel_authenticate_telnet")
    ac = find_func(find_class(trees["async_channel"], "AsyncChannel"), "channel_authenticate_telnet")
    sync_t = enclosing_tables(sc, attr_call("self.read"))
    async_t = enclosing_tables(ac, attr_call("self.read"))
    # asyncio: every way round the loop awaits asyncio.sleep: the handler that `continue`s, and the loop's end
    loops = [n for n in ast.walk(ac) if isinstance(n, ast.While)]
    if len(loops) != 1:
        raise Unknown("asyncio telnet login: expected one while loop")
    loop = loops[0]

    def is_sleep(s):
        return isinstance(s, ast.Expr) and isinstance(s.value, ast.Await) and ast.unparse(s.value.value.func) == "asyncio.sleep"

    sleeps = is_sleep(loop.body[-1])
    for n in ast.walk(loop):
        if isinstance(n, ast.ExceptHandler) and any(isinstance(s, ast.Continue) for s in ast.walk(n)):
            idx = [i for i, s in enumerate(n.body) if isinstance(s, ast.Continue)]
            if not idx or not any(is_sleep(s) for s in n.body[:idx[0]]):
                sleeps = False
    # no other read/write loop of the channels handles exceptions
    free = True
    bad = []
    for key, cname in (("sync_channel", "Channel"), ("async_channel", "AsyncChannel"), ("base_channel", "BaseChannel")):
        cls = find_class(trees[key], cname)
        for fn in cls.body:
            if not isinstance(fn, (ast.FunctionDef, ast.AsyncFunctionDef)):
                continue
            if fn.name in ("channel_authenticate_telnet", "_read_until_prompt_or_time", "__init__", "open", "close",
                           "_channel_lock"):
                continue
            touches = any(isinstance(c, ast.Call) and call_attr(c) in ("read", "write", "send_return", "_read_until_input",
                          "_read_until_prompt", "_read_until_explicit_prompt") for c in ast.walk(fn))
            if not touches:
                continue
            if cname == "AsyncChannel" and fn.name == "channel_authenticate_ssh":
                continue     # no core asyncio transport authenticates in the channel (system is sync only)
            io = ("read", "write", "send_return", "_read_until_input", "_read_until_prompt", "_read_until_explicit_prompt")
            for n in ast.walk(fn):
                if isinstance(n, ast.Try) or (isinstance(n, (ast.With, ast.AsyncWith)) and suppress_table(n) is not None):
                    if any(isinstance(c, ast.Call) and call_attr(c) in io for b in n.body for c in ast.walk(b)):
                        free = False
                        bad.append("%s.%s" % (cname, fn.name))
    return sync_t, async_t, sleeps, free, bad


def may_swallow_action(h):
    """handler_action, except that a handler with a raise on some paths only is read as one that may swallow (the
    check asks that a loss is never swallowed: the conservative reading)"""
    try:
        return handler_action(h)
    except Unknown as e:
        if "raise in the middle" in str(e) or "conditional bare raise" in str(e):
            return "ASwallow"
        raise


def rtime_facts(trees):
    """the tables (innermost first) around the one self.read() of _read_until_prompt_or_time, sync and asyncio"""
    out = []
    io = ("read", "write", "send_return", "_read_until_input", "_read_until_prompt", "_read_until_explicit_prompt")
    for key, cname in (("sync_channel", "Channel"), ("async_channel", "AsyncChannel")):
        fn = find_func(find_class(trees[key], cname), "_read_until_prompt_or_time")
        calls = [c for c in ast.walk(fn) if isinstance(c, ast.Call) and call_attr(c) in io
                 and isinstance(c.func, ast.Attribute) and ast.unparse(c.func.value) == "self"]
        if len(calls) != 1 or ast.unparse(calls[0].func) != "self.read":
            raise Unknown("%s._read_until_prompt_or_time: expected exactly one self.read()" % cname)
        for n in ast.walk(fn):
            if isinstance(n, ast.Try):
                # a finally that leaves by return / break / continue would swallow what passes through it
                for s in n.finalbody:
                    if any(isinstance(x, (ast.Return, ast.Break, ast.Continue)) for x in ast.walk(s)):
                        raise Unknown("%s._read_until_prompt_or_time: finally leaves the block" % cname)
        found = []

        def walk(stmts, stack):
            for s in stmts:
                if isinstance(s, ast.Try):
                    walk(s.body, [("try", s)] + stack)
                    for h in s.handlers:
                        walk(h.body, stack)
                    walk(s.orelse, stack)
                    walk(s.finalbody, stack)
                elif isinstance(s, (ast.With, ast.AsyncWith)):
                    st = suppress_table(s)
                    walk(s.body, ([("sup", st)] + stack) if st is not None else stack)
                elif isinstance(s, (ast.If, ast.While, ast.For, ast.AsyncFor)):
                    if any(c is calls[0] for c in ast.walk(s.test if hasattr(s, "test") else s.iter)):
                        found.append(stack)
                    walk(s.body, stack)
                    walk(s.orelse, stack)
                elif isinstance(s, (ast.FunctionDef, ast.AsyncFunctionDef, ast.ClassDef)):
                    continue
                elif any(c is calls[0] for c in ast.walk(s)):
                    found.append(stack)
        walk(fn.body, [])
        if len(found) != 1:
            raise Unknown("%s._read_until_prompt_or_time: self.read() not found where expected" % cname)
        tbls = []
        for kind, node in found[0]:
            if kind == "sup":
                tbls.append(node)
            else:
                tbls.append([(exc_list(h.type) if h.type is not None else ["EException"], may_swallow_action(h))
                             for h in node.handlers])
        out.append(tbls)
    return out[0], out[1]


def lock_facts(trees):
    """Channel / AsyncChannel._channel_lock: wherever the body runs (`yield`) with the lock taken, the lock is given
    back however the body is left: the yield sits inside `with self.channel_lock:` / `async with self.channel_lock:`,
    or -- the lock taken by an explicit acquire() -- inside a try whose finally calls self.channel_lock.release()"""
    ok = True
    for key, cname in (("sync_channel", "Channel"), ("async_channel", "AsyncChannel")):
        fn = find_func(find_class(trees[key], cname), "_channel_lock")
        acquires = [c.lineno for c in ast.walk(fn) if isinstance(c, ast.Call) and ast.unparse(c.func) == "self.channel_lock.acquire"]
        yields = []

        def walk(node, managed, guarded):
            for ch in ast.iter_child_nodes(node):
                m, g = managed, guarded
                if isinstance(ch, (ast.With, ast.AsyncWith)) and \
                        any(ast.unparse(i.context_expr) == "self.channel_lock" for i in ch.items):
                    m = True
                if isinstance(ch, ast.Try):
                    rel = any(isinstance(c, ast.Call) and ast.unparse(c.func) == "self.channel_lock.release"
                              for s in ch.finalbody for c in ast.walk(s))
                    for s in ch.body:
                        walk_stmt(s, m, g or rel)
                    for s in ch.handlers + ch.orelse + ch.finalbody:
                        walk_stmt(s, m, g)
                    continue
                walk_stmt(ch, m, g)

        def walk_stmt(ch, m, g):
            if isinstance(ch, (ast.Yield, ast.YieldFrom)):
                yields.append((ch.lineno, m, g))
            walk(ch, m, g)
        walk(fn, False, False)
        if not yields:
            raise Unknown("%s._channel_lock: no yield" % cname)
        if not any(m for _, m, _ in yields) and not acquires:
            raise Unknown("%s._channel_lock: the lock is never taken" % cname)
        for line, m, g in yields:
            if m:
                continue
            if acquires and line > min(acquires) and not g:
                ok = False
    return ok


def generate(outdir):
    pyc, aliases = py_classes()
    for k, v in aliases.items():
        if pyc[NAMES[k]] is not v:
            raise Unknown("%s is not %s on this interpreter: the model merges them" % (k, NAMES[k]))
    lines = ["(* generated from the scrapli source tree by gen/gen_connloss.py -- do not edit *)",
             "From Verif Require Import Bytes ConnLoss ConnLossNeg ConnLossTime.", ""]
    lines.append("Definition gen_supers (x : cls) : list cls :=\n  match x with")
    for a in CLS:
        sup = [b for b in CLS if issubclass(pyc[a], pyc[b])]
        lines.append("  | %s => [%s]" % (a, "; ".join(sup)))
    lines.append("  end.")
    lines.append("Definition gen_issub (a b : cls) : bool := mem_cls b (gen_supers a).")
    info = {}
    trees = None
    for strict in (False, True):
        facts, sock_alive, sock_shutdown, trees = transport_facts(strict)
        sfx = "_strict" if strict else ""
        for k in ("telnet", "asynctelnet", "system", "paramiko", "asyncssh"):
            f = facts[k]
            lines.append("Definition gen_tc_%s%s : tcfg := mkTcfg %s %s\n  %s\n  %s\n  %s\n  %s\n  %s %s %s %s\n  [%s]." % (
                k, sfx, coq_bool(f["read_guard"]), coq_bool(f["write_guard"]), coq_tables(f["read_tbls"]),
                coq_tables(f["write_tbls"]), coq_tables(f["close_tbls"]), coq_tables(f["alive_tbls"]),
                coq_bool(f["err_sets_eof"]), coq_bool(f["eof_raises"]), coq_bool(f["alive_eof"]),
                coq_bool(f["read_decorated"]), "; ".join(coq_tables(t) for t in f["open_tbls"])))
            if not strict:
                info[k] = {kk: (vv if isinstance(vv, bool) else [[list(map(list, t)) if False else [[cs, a] for cs, a in t] for t in ts] for ts in ([vv] if kk != "open_tbls" else vv)])
                           for kk, vv in f.items()}
        if not strict:
            neg = negotiation_facts(trees, facts)
            for k in ("telnet", "asynctelnet"):
                lines.append("Definition gen_ncfg_%s : ncfg := mkNcfg %s %s." % (k, coq_bool(neg[k][0]), coq_tables(neg[k][1])))
            lines.append("Definition gen_ncf (tr : transport) : ncfg :=\n  match tr with Telnet => gen_ncfg_telnet | _ => gen_ncfg_asynctelnet end.")
            info["negotiation"] = {k: {"guard_probes": v[0], "reply_tables": [[[cs, a] for cs, a in t] for t in v[1]],
                                       "reply_sites": v[2]} for k, v in neg.items()}
            lines.append("Definition gen_sock_alive : list table := %s." % coq_tables(sock_alive))
            lines.append("Definition gen_sock_shutdown : list table := %s." % coq_tables(sock_shutdown))
            info["sock_alive"] = [[[cs, a] for cs, a in t] for t in sock_alive]
            info["sock_shutdown"] = [[[cs, a] for cs, a in t] for t in sock_shutdown]
    sync_t, async_t, sleeps, free, bad = login_facts(trees)
    lines.append("Definition gen_login_sync : list table := %s." % coq_tables(sync_t))
    lines.append("Definition gen_login_async : list table := %s." % coq_tables(async_t))
    lines.append("Definition gen_login_async_sleeps : bool := %s." % coq_bool(sleeps))
    lines.append("Definition gen_chan_loops_try_free : bool := %s." % coq_bool(free))
    rt_sync, rt_async = rtime_facts(trees)
    lines.append("Definition gen_rtime_sync : list table := %s." % coq_tables(rt_sync))
    lines.append("Definition gen_rtime_async : list table := %s." % coq_tables(rt_async))
    lines.append("Definition gen_rtime (a : bool) : list table := if a then gen_rtime_async else gen_rtime_sync.")
    lock_ok = lock_facts(trees)
    lines.append("Definition gen_chan_lock_released : bool := %s." % coq_bool(lock_ok))
    info.update({"rtime_sync": [[[cs, a] for cs, a in t] for t in rt_sync], "rtime_async": [[[cs, a] for cs, a in t] for t in rt_async],
                 "chan_lock_released": lock_ok})
    info.update({"login_sync": [[[cs, a] for cs, a in t] for t in sync_t], "login_async": [[[cs, a] for cs, a in t] for t in async_t],
                 "login_async_sleeps": sleeps, "chan_loops_try_free": free, "chan_loops_with_try": bad})
    for sfx in ("", "_strict"):
        lines.append("Definition gen_tcf%s (tr : transport) : tcfg :=\n  match tr with Telnet => gen_tc_telnet%s | ATelnet => gen_tc_asynctelnet%s "
                     "| System => gen_tc_system%s\n  | Paramiko => gen_tc_paramiko%s | Asyncssh => gen_tc_asyncssh%s end." % ((sfx,) * 6))
        lines.append("Definition gen_cfg%s : cfg := mkCfg gen_issub gen_tcf%s gen_sock_alive gen_sock_shutdown\n"
                     "  (fun a => if a then gen_login_async else gen_login_sync) gen_login_async_sleeps." % (sfx, sfx))
    text = "\n".join(lines) + "\n"
    path = os.path.join(outdir, "Gen_ConnLoss.v")
    if not os.path.exists(path) or open(path).read() != text:
        with open(path, "w") as f:
            f.write(text)
    return path, info


if __name__ == "__main__":
    common.setup_env()
    p, i = generate(sys.argv[1])
    print(p)
