"""Gen_Channel.v — channel facts of the CURRENT source tree (fail-closed):
BaseChannelArgs defaults (search depth, return char, base prompt pattern), the comms_prompt_pattern a
CONSTRUCTED driver of each kind hands to its channel (Generic, Network over the IOS-XE table, the five
core platforms; sync and asyncio must agree), the flags _get_prompt_pattern compiles it with,
ANSI_ESCAPE_PATTERN and ANSI_ESCAPE_PARTIAL_PATTERN, which of the two known shapes the escape-sequence
carry-over of read() has (AST), that every use of the prompt pattern in the channel classes compiles the pattern TEXT of
_base_channel_args at that use through the static, text-keyed _get_prompt_pattern (AST; no compiled pattern kept on the channel)
and that the helpers follow a changed text (probe), and the unit-level behaviour of _process_read_buf, _process_output
(called with EVERY signature it accepts: a parameter beyond buf / strip_prompt is fed values derived from the buffer),
_get_prompt_pattern and of Channel.read / AsyncChannel.read themselves (one transport chunk in, what read() returns
and what it carries over out) observed by calling them on probe inputs (compiled as obligations over the model)."""
import ast
import inspect
import os
import re
import sys
import textwrap

from gen import regex as rx

KINDS = ["generic", "network", "cisco_iosxe", "cisco_iosxr", "cisco_nxos", "arista_eos", "juniper_junos"]


def _driver(kind, sync):
    from copy import deepcopy

    import scrapli.driver.core as core
    from scrapli.driver import AsyncGenericDriver, AsyncNetworkDriver, GenericDriver, NetworkDriver
    cls = {"generic": (GenericDriver, AsyncGenericDriver), "network": (NetworkDriver, AsyncNetworkDriver),
           "cisco_iosxe": (core.IOSXEDriver, core.AsyncIOSXEDriver), "cisco_iosxr": (core.IOSXRDriver, core.AsyncIOSXRDriver),
           "cisco_nxos": (core.NXOSDriver, core.AsyncNXOSDriver), "arista_eos": (core.EOSDriver, core.AsyncEOSDriver),
           "juniper_junos": (core.JunosDriver, core.AsyncJunosDriver)}[kind][0 if sync else 1]
    args = dict(host="h", transport="telnet" if sync else "asynctelnet", auth_bypass=True)
    if kind == "network":
        from scrapli.driver.core.cisco_iosxe.base_driver import PRIVS
        args.update(privilege_levels=deepcopy(PRIVS), default_desired_privilege_level="privilege_exec")
    return cls(**args)


def _func_ast(fn):
    return ast.parse(textwrap.dedent(inspect.getsource(fn))).body[0]


def _cb(b):
    return "[" + ";".join(str(x) for x in b) + "]"


def _probes():
    """unit-level behaviour of the channel helpers the model hard-codes, observed by CALLING them on probe inputs (robust
    against refactoring, sensitive to behaviour): _process_read_buf, _process_output, _get_prompt_pattern"""
    from io import BytesIO
    d = _driver("generic", True)
    ch = d.channel
    args = ch._base_channel_args
    saved = (args.comms_prompt_search_depth, args.comms_return_char)
    prb, po = [], []
    try:
        long1 = b"".join(b"line %03d of the output\n" % i for i in range(60))          # 1380 bytes
        long2 = b"x" * 1100 + b"\nrouter1#"
        long3 = b"first\n" + b"y" * 1200
        bufs = [b"", b"abc", b"ab\n", b"ab\ncd", b"\n", b"\n\n", b"a\nb\nc", b"a\nb\nc\n", b"0123456789\nxyz", b"  \nrouter1#",
                long1, long1 + b"router1# ", long2, long3, long3 + b"\n", b"q" * 999 + b"\n", b"q" * 1000 + b"\nr", b"\n" + b"q" * 999]
        for depth in (1, 2, 5, 8, 9, 1000):
            args.comms_prompt_search_depth = depth
            for buf in bufs:
                if len(buf) > 100 and depth not in (8, 1000):
                    continue
                r = ch._process_read_buf(read_buf=BytesIO(buf))
                if not isinstance(r, bytes):
                    raise ValueError("_process_read_buf returned %r" % type(r))
                prb.append((depth, buf, r))
        args.comms_prompt_search_depth = saved[0]
        texts = [b"", b"router1#", b"\nrouter1#", b" \nout\nrouter1# ", b"\n  indented first\nsecond  \n\n\nlast\t\nrouter1#",
                 b"\n\n\nx\n\n\nrouter1#", b"\nabc# \nnot last\nrouter1#", b"\nline\x0b\x0c \nrouter1#", b"\nno prompt at the end\n",
                 b"\r\nwith cr\r\nrouter1#", b"\n\xe9\xff bytes \nrouter1#"]
        # longer than the search depth, every line ends in a word that alone reads as a prompt ("... strategy#"), and the
        # byte `depth` before the end lies inside such a word: output cleaning must not look at line suffixes
        base = b"\n" + b"\n".join(b"  Port-channel%02d, queueing strategy#" % i for i in range(31))
        for k in range(1, 40):
            t = base + b"\n" + b"=" * k + b"\nrouter1#"
            if re.fullmatch(rb"[a-z]{3,6}#", t[-saved[0]:].split(b"\n")[0]) and t[-saved[0] - 1:-saved[0]].isalpha():
                texts.append(t)
                break
        else:
            raise ValueError("no probe text whose search-depth point lies inside a word")
        # outputs that hold the text of the command that asked for them as a line of their own (first / inner / last / only line,
        # other case, other blanks, twice): cleaning is a function of the buffer alone
        cmd_texts = [b"\nshow clock\n12:00:00 UTC\nrouter1#", b"\n\nShow  Clock \n12:00\nrouter1#", b"\nhostname\nrouter1#",
                     b"\n12:00\nshow clock\nrouter1#", b"\nfirst\nshow clock\nlast\nrouter1#", b"\nshow clock\nshow clock\nrouter1# "]
        texts += cmd_texts
        # every signature the REAL _process_output accepts: (buf, strip_prompt) and, should it have grown further parameters, each
        # of them given values derived from the buffer itself (its lines as bytes and as text, as they are / lower case / without
        # blanks / with the return character, the whole buffer) and the usual flags - by keyword and by position.  All calls are
        # probes of the model's process_output, which is a function of (return char, pattern, buffer, strip_prompt) only.
        sig = inspect.signature(ch._process_output)
        params = list(sig.parameters.values())
        if [p.name for p in params[:2]] != ["buf", "strip_prompt"] or any(p.kind in (p.VAR_POSITIONAL, p.VAR_KEYWORD) for p in params):
            raise ValueError("_process_output: unexpected signature %s" % sig)
        extras = params[2:]
        extra_calls = 0

        def values_for(t):
            vals = []
            for line in [l for l in t.split(b"\n") if l.strip()][:3] + [t]:
                for v in (line, line.strip(), line.lower(), b"".join(line.split()), line.strip() + b"\n", line.strip() + b"\r\n"):
                    for w in (v, v.decode("latin-1")):
                        if w not in vals:
                            vals.append(w)
            return vals + [True, False, None, 0, 1, b"", ""]

        for ret in ("\n", "\r\n"):
            args.comms_return_char = ret
            for strip in (True, False):
                for t in texts:
                    r = ch._process_output(buf=t, strip_prompt=strip)
                    if not isinstance(r, bytes):
                        raise ValueError("_process_output returned %r" % type(r))
                    po.append((ret.encode(), strip, t, r))
                for i, p in enumerate(extras):
                    accepted = 0
                    for t in cmd_texts + texts[3:5]:
                        for v in values_for(t):
                            calls = [lambda: ch._process_output(buf=t, strip_prompt=strip, **{p.name: v})] if p.kind != p.POSITIONAL_ONLY else []
                            if p.kind in (p.POSITIONAL_ONLY, p.POSITIONAL_OR_KEYWORD) and all(q.default is not q.empty for q in extras[:i]):
                                calls.append(lambda: ch._process_output(t, strip, *([q.default for q in extras[:i]] + [v])))
                            for call in calls:
                                try:
                                    r = call()
                                except Exception:  # noqa  (a value the parameter does not take: not a signature it accepts)
                                    continue
                                if not isinstance(r, bytes):
                                    raise ValueError("_process_output returned %r" % type(r))
                                accepted += 1
                                item = (ret.encode(), strip, t, r)
                                if item not in po:
                                    po.append(item)
                    if not accepted:
                        raise ValueError("_process_output: no value found that its parameter %r accepts" % p.name)
                    extra_calls += accepted
        facts_sig = {"names": [p.name for p in params], "calls_with_further_parameters": extra_calls}
    finally:
        args.comms_prompt_search_depth, args.comms_return_char = saved
    cls = args.comms_prompt_pattern
    gp = ch._get_prompt_pattern
    p_empty, p_re, p_lit = gp(class_pattern=cls, pattern=""), gp(class_pattern=cls, pattern="^a.c$"), gp(class_pattern=cls, pattern="a.c [y/n]?")
    mask = re.M | re.I | re.S | re.X
    facts = {
        "xpat_empty_is_class": p_empty.pattern == cls.encode() and (p_empty.flags & mask) == (re.M | re.I),
        "xpat_anchored_is_regex_MI": p_re.pattern == b"^a.c$" and (p_re.flags & mask) == (re.M | re.I),
        "xpat_other_is_literal": (p_lit.flags & mask) == 0 and p_lit.search(b"xx a.c [y/n]? yy") is not None
        and p_lit.search(b"abc [y/n]?") is None and p_lit.search(b"A.C [Y/N]?") is None,
    }
    return prb, po, facts, facts_sig


PROMPT_USERS = {"BaseChannel": ["_process_output", "_interaction_complete", "_pre_channel_authenticate_ssh", "_pre_channel_authenticate_telnet"],
                "Channel": ["_read_until_prompt", "_read_until_explicit_prompt", "get_prompt"],
                "AsyncChannel": ["_read_until_prompt", "_read_until_explicit_prompt", "get_prompt"]}


def _is_self_attr(node, *path):
    """node is self.<path[0]>.<path[1]>..."""
    for name in reversed(path):
        if not isinstance(node, ast.Attribute) or node.attr != name:
            return False
        node = node.value
    return isinstance(node, ast.Name) and node.id == "self"


def _pattern_reads():
    """AST tie: the channel reads the prompt pattern TEXT `self._base_channel_args.comms_prompt_pattern` at each use and compiles
    it through `_get_prompt_pattern`, a static function of its text arguments (cached by them, so a changed text is a cache miss).
    No channel attribute holds a compiled (or copied) prompt pattern.  Returns the number of uses seen; raises otherwise."""
    from scrapli.channel import async_channel, base_channel, sync_channel
    uses = 0
    for mod, cname in ((base_channel, "BaseChannel"), (sync_channel, "Channel"), (async_channel, "AsyncChannel")):
        tree = ast.parse(inspect.getsource(mod))
        cdef = [n for n in tree.body if isinstance(n, ast.ClassDef) and n.name == cname]
        if len(cdef) != 1:
            raise ValueError("class %s not found" % cname)
        funcs = {f.name: f for f in cdef[0].body if isinstance(f, (ast.FunctionDef, ast.AsyncFunctionDef))}
        for fname, f in funcs.items():
            parent = {}
            for n in ast.walk(f):
                for c in ast.iter_child_nodes(n):
                    parent[c] = n
            ok_locals = set()
            for n in ast.walk(f):
                # anything named *prompt_pattern* on self other than the static compiler is a second home of the pattern
                if isinstance(n, ast.Attribute) and isinstance(n.value, ast.Name) and n.value.id == "self" and \
                        "prompt_pattern" in n.attr and n.attr != "_get_prompt_pattern":
                    raise ValueError("%s.%s uses self.%s: the prompt pattern has a second home on the channel" % (cname, fname, n.attr))
                if isinstance(n, ast.Attribute) and n.attr == "comms_prompt_pattern":
                    if not _is_self_attr(n, "_base_channel_args", "comms_prompt_pattern"):
                        raise ValueError("%s.%s: comms_prompt_pattern read from somewhere else than self._base_channel_args" % (cname, fname))
                    if not isinstance(n.ctx, ast.Load):
                        raise ValueError("%s.%s writes comms_prompt_pattern" % (cname, fname))
                    up = parent.get(n)
                    if isinstance(up, ast.keyword) and up.arg == "class_pattern":
                        continue
                    if isinstance(up, ast.Assign) and len(up.targets) == 1 and isinstance(up.targets[0], ast.Name):
                        ok_locals.add(up.targets[0].id)      # class_pattern = self._base_channel_args.comms_prompt_pattern
                        continue
                    raise ValueError("%s.%s: the pattern text is used otherwise than as class_pattern of _get_prompt_pattern" % (cname, fname))
            for n in ast.walk(f):
                if isinstance(n, ast.Name) and n.id in ok_locals and isinstance(n.ctx, ast.Load):
                    up = parent.get(n)
                    if not (isinstance(up, ast.keyword) and up.arg == "class_pattern"):
                        raise ValueError("%s.%s: local copy of the pattern text used otherwise than as class_pattern" % (cname, fname))
                if isinstance(n, ast.Call) and isinstance(n.func, ast.Attribute) and n.func.attr == "_get_prompt_pattern":
                    if not _is_self_attr(n.func, "_get_prompt_pattern") or n.args:
                        raise ValueError("%s.%s: unexpected call of _get_prompt_pattern" % (cname, fname))
                    kws = {k.arg: k.value for k in n.keywords}
                    cp = kws.get("class_pattern")
                    if set(kws) - {"class_pattern", "pattern"} or not (
                            _is_self_attr(cp, "_base_channel_args", "comms_prompt_pattern") or (isinstance(cp, ast.Name) and cp.id in ok_locals)):
                        raise ValueError("%s.%s: _get_prompt_pattern not called with the pattern text of _base_channel_args" % (cname, fname))
                    # the compiled object lives in a local of this call of the function (or is used in place), never on self
                    up = parent.get(n)
                    while isinstance(up, ast.keyword) or (isinstance(up, ast.Call) and up is not n):
                        up = parent.get(up)
                    if isinstance(up, (ast.Assign, ast.AnnAssign)):
                        tg = up.targets if isinstance(up, ast.Assign) else [up.target]
                        if not all(isinstance(t, ast.Name) for t in tg):
                            raise ValueError("%s.%s keeps a compiled prompt pattern outside a local variable" % (cname, fname))
                    uses += 1
        for fname in PROMPT_USERS[cname]:
            f = funcs.get(fname)
            if f is None or not any(isinstance(n, ast.Call) and isinstance(n.func, ast.Attribute) and n.func.attr == "_get_prompt_pattern"
                                    for n in ast.walk(f)):
                raise ValueError("%s.%s does not compile the pattern text at its use" % (cname, fname))
        if cname == "BaseChannel":
            g = funcs.get("_get_prompt_pattern")
            decos = sorted(ast.unparse(d).split("(")[0] for d in g.decorator_list) if g is not None else []
            if decos != ["lru_cache", "staticmethod"]:
                raise ValueError("_get_prompt_pattern is not a cached static method: %r" % decos)
            if [a.arg for a in g.args.args] != ["class_pattern", "pattern"] or g.args.vararg or g.args.kwarg or g.args.kwonlyargs:
                raise ValueError("_get_prompt_pattern: unexpected parameters")
            loaded = {n.id for n in ast.walk(g) if isinstance(n, ast.Name)} - {"Optional", "Pattern", "bytes", "str"}
            if not loaded <= {"class_pattern", "pattern", "bytes_pattern", "re", "lru_cache", "staticmethod"}:
                raise ValueError("_get_prompt_pattern depends on more than its arguments: %r" % sorted(loaded))
    return uses


def _pattern_follow_probe():
    """behaviour: the helpers follow the pattern text after it is changed on a constructed channel whose pattern was already used
    (driver attribute, then the channel's arguments), sync and asyncio"""
    ok = True
    t = b"\nPort counters\nRX>\nrouter1#"
    for sync in (True, False):
        d = _driver("generic", sync)
        ch = d.channel
        r1 = ch._process_output(buf=t, strip_prompt=True)
        p1 = ch._pre_channel_authenticate_ssh()[2].pattern
        d.comms_prompt_pattern = r"^router1#\s*$"
        r2 = ch._process_output(buf=t, strip_prompt=True)
        p2 = ch._pre_channel_authenticate_ssh()[2].pattern
        ch._base_channel_args.comms_prompt_pattern = r"^\S{0,48}[#>]\s*$"
        r3 = ch._process_output(buf=t, strip_prompt=True)
        p3 = ch._pre_channel_authenticate_telnet()[2].pattern
        ok = ok and (r1, r2, r3) == (b"Port counters", b"Port counters\nRX>", b"Port counters") and \
            p2 == rb"^router1#\s*$" and p3 == rb"^\S{0,48}[#>]\s*$" and p1 not in (p2, p3)
    return ok


class _ChunkTransport:
    """stands in for the transport of a constructed channel: read() hands out one given chunk"""

    def __init__(self, chunk, is_async):
        self.chunk, self.is_async = chunk, is_async

    def read(self):
        if not self.is_async:
            return self.chunk

        async def _r():
            return self.chunk
        return _r()


# UTF-8 characters whose last byte is 0x9b / 0x9d (ordinary continuation bytes; as single bytes the 8-bit CSI / OSC codes)
_C9B = ["\u041b", "\u015b", "\u4f9b", "\U0001f61b"]        # Cyrillic El, s acute, CJK 4F9B, an emoji
_C9D = ["\u041d", "\u00dd", "\u601d", "\U0001f61d"]
# what ANSI_ESCAPE_PATTERN can consume after its first byte
_FOLLOW = [b"7", b"8", b"M", b"E", b"[0m", b"[1;32m", b"[K", b"[?25h", b"[lab]", b"[12 34 x", b"]0;title\x07", b"]2 a b\x07"]


def _read_probes():
    """(carried over before, transport chunk, read() result, carried over after) observed on the REAL Channel.read and
    AsyncChannel.read of a constructed GenericDriver.  Chunks WITHOUT an escape character in which the bytes 0x9b / 0x9d
    (as the last byte of a UTF-8 character) are followed by everything the ANSI pattern could consume: read() is to hand
    them on verbatim (minus CR); chunks with escape sequences, whole, cut at the end (carried over), completed by the
    carry-over; chunks whose only ESC is held back while a 0x9b.. pair stays in front of it"""
    import asyncio
    chunks = []
    for chars in (_C9B, _C9D):
        for i, f in enumerate(_FOLLOW):
            ch = chars[i % len(chars)].encode("utf-8")
            ws = [b"", b" ", b"\t", b"\n"][i % 4]
            chunks.append((b"", b"Vlan name \xd0\x92" + ch + b"\xd0\x90" + ch + ws + f + b" up\r\n"))
            chunks.append((b"", ch + f))
        chunks.append((b"", b"".join(c.encode("utf-8") + f for c, f in zip(chars * 3, _FOLLOW))))
    chunks.append((b"", bytes([0x9b]) + b"7 " + bytes([0x9d]) + b"[0m bare 8-bit codes, no ESC\r\n"))
    esc = [b"\x1b[0m", b"\x1b[1;32m", b"\x1b[K", b"\x1b7", b"\x1b 8", b"\x1b]0;title\x07", b"\x1b[?25h"]
    for i, e in enumerate(esc):
        chunks.append((b"", b"ab" + e + b"cd\r\n"))
        chunks.append((b"", b"\xd0\x9b7 " + e + b" \xe6\x80\x9d[lab] x"))       # ESC present: the whole chunk is stripped
        for cut in range(1, len(e)):
            chunks.append((b"", b"\xd0\x9b7 \xd0\x9d[K text " + e[:cut]))        # the only ESC is held back
            chunks.append((e[:cut], e[cut:] + b" tail \xc5\x9bM"))
    chunks.append((b"\x1b", b"\xd0\x9d8 no sequence after all"))
    chunks.append((b"", b"plain text\r\nrouter1#"))
    chunks.append((b"", b"\r"))
    out = []
    for is_async in (False, True):
        ch = _driver("generic", not is_async).channel
        loop = asyncio.new_event_loop() if is_async else None
        try:
            for partial, chunk in chunks:
                ch.transport = _ChunkTransport(chunk, is_async)
                ch._ansi_partial = partial
                r = ch.read()
                if is_async:
                    r = loop.run_until_complete(r)
                held = ch._ansi_partial
                if not isinstance(r, bytes) or not isinstance(held, bytes):
                    raise ValueError("read() returned %r / carried over %r" % (type(r), type(held)))
                item = (partial, chunk, r, held)
                if item not in out:
                    out.append(item)
        finally:
            if loop is not None:
                loop.close()
    return out


def generate(outdir):
    from scrapli.channel import base_channel as bc
    from scrapli.channel.base_channel import BaseChannelArgs

    args = BaseChannelArgs()
    depth = args.comms_prompt_search_depth
    if not isinstance(depth, int) or not (1 <= depth <= 100000):
        raise ValueError("unexpected search depth %r" % (depth,))
    ret = args.comms_return_char
    if ret not in ("\n", "\r\n"):
        raise ValueError("unexpected default return char %r" % (ret,))
    flags = re.M | re.I
    lines = ["(* generated from the source tree by gen/gen_channel.py — do not edit *)",
             "From Verif Require Import Bytes Regex.",
             "Definition gen_depth : nat := %d%%nat." % depth,
             "Definition gen_ret : bytes := [%s]." % ";".join(str(x) for x in ret.encode())]
    info = {"depth": depth, "ret": ret, "patterns": {}}
    term, _ = rx.translate(args.comms_prompt_pattern.encode(), flags)
    lines.append("Definition gen_pat_base : re := %s." % term)
    info["patterns"]["base"] = args.comms_prompt_pattern
    for kind in KINDS:
        ds, da = _driver(kind, True), _driver(kind, False)
        ps = ds.channel._base_channel_args.comms_prompt_pattern
        pa = da.channel._base_channel_args.comms_prompt_pattern
        if ps != pa:
            raise ValueError("sync/async prompt patterns differ for %s" % kind)
        if ps != ds.comms_prompt_pattern:
            raise ValueError("channel pattern differs from driver pattern for %s" % kind)
        for d in (ds, da):
            if d.channel._base_channel_args.comms_prompt_search_depth != depth:
                raise ValueError("driver %s overrides the search depth" % kind)
            if d.channel._base_channel_args.comms_return_char != ret:
                raise ValueError("driver %s overrides the return char" % kind)
            if d.channel._base_channel_args.comms_roughly_match_inputs is not False:
                raise ValueError("driver %s: rough matching on by default" % kind)
        cp = ds.channel._get_prompt_pattern(class_pattern=ps)
        if cp.flags & (re.M | re.I | re.S | re.X) != flags or cp.pattern != ps.encode():
            raise ValueError("_get_prompt_pattern compiles %s with unexpected flags" % kind)
        term, _ = rx.translate(ps.encode(), flags)
        lines.append("Definition gen_pat_%s : re := %s." % (kind, term))
        info["patterns"][kind] = ps
    # ANSI
    ap = bc.ANSI_ESCAPE_PATTERN
    if ap.flags & ~(re.X) & (re.M | re.I | re.S | re.X):
        raise ValueError("ANSI_ESCAPE_PATTERN flags %r" % ap.flags)
    term, _ = rx.translate(ap.pattern, ap.flags & re.X)
    lines.append("Definition gen_ansi : re := %s." % term)
    pp = bc.ANSI_ESCAPE_PARTIAL_PATTERN
    if pp.flags & (re.M | re.I | re.S | re.X):
        raise ValueError("ANSI_ESCAPE_PARTIAL_PATTERN flags %r" % pp.flags)
    src = pp.pattern
    if not src.endswith(rb"\Z") or src.count(rb"\Z") != 1:
        raise ValueError("ANSI_ESCAPE_PARTIAL_PATTERN is not anchored by one final \\Z")
    term, _ = rx.translate(src[:-2], 0)
    lines.append("(* without its final \\Z: the model requires the match to end at the end of the buffer *)")
    lines.append("Definition gen_ansi_partial : re := %s." % term)
    # which carry-over walk the tree has: leftmost suffix (re.search of the partial pattern) or the
    # re.finditer walk over "whole sequence | partial" of the follow-up repair
    hsrc = ast.unparse(_func_ast(bc.BaseChannel._hold_back_partial_ansi))
    if "re.finditer(pattern=ANSI_ESCAPE_OR_PARTIAL_PATTERN, string=buf)" in hsrc:
        op = bc.ANSI_ESCAPE_OR_PARTIAL_PATTERN
        if op.pattern != ap.pattern + rb"|(?P<partial>" + pp.pattern + rb")" or (op.flags & (re.M | re.I | re.S | re.X)) != re.X:
            raise ValueError("ANSI_ESCAPE_OR_PARTIAL_PATTERN is not 'whole | (?P<partial>partial)'")
        if "sequence.group('partial') is not None" not in hsrc or "buf = buf[:sequence.start()]" not in hsrc:
            raise ValueError("_hold_back_partial_ansi: unexpected finditer walk")
        scan = True
    elif "re.search(pattern=ANSI_ESCAPE_PARTIAL_PATTERN, string=buf)" in hsrc and "buf = buf[:partial.start()]" in hsrc:
        scan = False
    else:
        raise ValueError("_hold_back_partial_ansi: unknown shape")
    for needle in ("buf = self._ansi_partial + buf", "self._ansi_partial = b''", "if b'\\x1b' not in buf:\n        return buf"):
        if needle not in hsrc:
            raise ValueError("_hold_back_partial_ansi: expected %r" % needle)
    lines.append("Definition gen_hold_scan : bool := %s." % ("true" if scan else "false"))
    info["hold_scan"] = scan
    prb, po, facts, po_sig = _probes()
    info["pattern_text_uses"] = _pattern_reads()
    facts["pattern_read_at_each_use"] = _pattern_follow_probe()
    lines.append("(* (depth, buffer, _process_read_buf(buffer)) observed on the real helper *)")
    lines.append("Definition gen_prb_probes : list (nat * bytes * bytes) := [\n  %s]." % ";\n  ".join(
        "(%d%%nat, %s, %s)" % (dd, _cb(b), _cb(r)) for dd, b, r in prb))
    lines.append("(* (return char, strip_prompt, buffer, _process_output(buffer)) observed on a GenericDriver channel *)")
    lines.append("Definition gen_po_probes : list (bytes * bool * bytes * bytes) := [\n  %s]." % ";\n  ".join(
        "(%s, %s, %s, %s)" % (_cb(rt), "true" if st else "false", _cb(b), _cb(r)) for rt, st, b, r in po))
    rd = _read_probes()
    lines.append("(* (carried over before, transport chunk, read() result, carried over after) observed on Channel.read / AsyncChannel.read *)")
    lines.append("Definition gen_read_probes : list (bytes * bytes * bytes * bytes) := [\n  %s]." % ";\n  ".join(
        "(%s, %s, %s, %s)" % (_cb(a), _cb(b), _cb(c), _cb(d)) for a, b, c, d in rd))
    for k, v in sorted(facts.items()):
        lines.append("Definition gen_%s : bool := %s." % (k, "true" if v else "false"))
    info["probes"] = {"prb": len(prb), "process_output": len(po), "process_output_signature": po_sig, "read": len(rd),
                      "read_without_esc": sum(1 for a, b, _, _ in rd if 27 not in a + b), "xpat": facts}
    text = "\n".join(lines) + "\n"
    path = os.path.join(outdir, "Gen_Channel.v")
    if not os.path.exists(path) or open(path).read() != text:
        open(path, "w").write(text)
    return path, info


if __name__ == "__main__":
    print(generate(sys.argv[1]))
