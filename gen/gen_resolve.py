"""Gen_Resolve.v — facts of the CURRENT source tree that the C17 model relies on (fail-closed):
core transport table (name, "telnet" in name, member of the ssh-config tuple of BaseDriver.__init__ [ast],
PluginTransportArgs has the ssh fields [dataclasses.fields], default port [constructor run]), magic strings,
candidate default files of _resolve_ssh_config/_resolve_ssh_known_hosts [ast], constructor defaults
[inspect.signature], CPython's str whitespace set, and the argv produced by the real _build_open_cmd on the
full product of its branch conditions."""
import ast
import dataclasses
import inspect
import itertools
import os
import sys
import textwrap

SSH_FIELDS = ["auth_username", "auth_private_key", "auth_strict_key", "ssh_config_file", "ssh_known_hosts_file"]


def cs(s):
    if not isinstance(s, str):
        raise ValueError("not a str: %r" % (s,))
    return "[" + ";".join(str(ord(c)) for c in s) + "]"


def cb(b):
    if not isinstance(b, bool):
        raise ValueError("not a bool: %r" % (b,))
    return "true" if b else "false"


def clist(items):
    return "[" + "; ".join(items) + "]"


def _method(cls_node, name):
    for n in cls_node.body:
        if isinstance(n, ast.FunctionDef) and n.name == name:
            return n
    raise ValueError("method %s not found" % name)


def _class(tree, name):
    for n in tree.body:
        if isinstance(n, ast.ClassDef) and n.name == name:
            return n
    raise ValueError("class %s not found" % name)


def _library_tuple(init):
    found = []
    for n in ast.walk(init):
        if (isinstance(n, ast.Compare) and len(n.ops) == 1 and isinstance(n.ops[0], ast.In)
                and isinstance(n.left, ast.Attribute) and n.left.attr == "transport_name"
                and isinstance(n.comparators[0], (ast.Tuple, ast.List, ast.Set))):
            elts = n.comparators[0].elts
            if not all(isinstance(e, ast.Constant) and isinstance(e.value, str) for e in elts):
                raise ValueError("non-constant member in the ssh-config transport tuple")
            found.append([e.value for e in elts])
    if len(found) != 1:
        raise ValueError("expected exactly one `self.transport_name in (...)` in __init__, got %r" % (found,))
    return found[0]


def _candidates(fn, argname):
    """the tuple iterated by `for path in (<arg>, "...", "...")`"""
    found = []
    for n in ast.walk(fn):
        if isinstance(n, ast.For) and isinstance(n.iter, (ast.Tuple, ast.List)):
            elts = n.iter.elts
            if not (elts and isinstance(elts[0], ast.Name) and elts[0].id == argname):
                raise ValueError("candidate tuple of %s does not start with the argument" % fn.name)
            rest = elts[1:]
            if not all(isinstance(e, ast.Constant) and isinstance(e.value, str) for e in rest):
                raise ValueError("non-constant candidate in %s" % fn.name)
            found.append([e.value for e in rest])
    if len(found) != 1:
        raise ValueError("expected exactly one candidate loop in %s" % fn.name)
    return found[0]


def generate(outdir):
    from harness.c17_env import ensure_ssh2_importable
    ssh2_kind = ensure_ssh2_importable()
    import importlib
    import scrapli.driver.base.base_driver as bd
    from scrapli.driver.base.base_driver import BaseDriver
    from scrapli.transport import ASYNCIO_TRANSPORTS, CORE_TRANSPORTS
    from scrapli.transport.base.base_transport import BaseTransportArgs
    from scrapli.transport.plugins.system.transport import PluginTransportArgs as SysArgs
    from scrapli.transport.plugins.system.transport import SystemTransport

    tree = ast.parse(open(bd.__file__).read())
    cls = _class(tree, "BaseDriver")
    library = _library_tuple(_method(cls, "__init__"))
    cfg_c = _candidates(_method(cls, "_resolve_ssh_config"), "ssh_config_file")
    kh_c = _candidates(_method(cls, "_resolve_ssh_known_hosts"), "ssh_known_hosts")

    if not (isinstance(CORE_TRANSPORTS, tuple) and all(isinstance(x, str) for x in CORE_TRANSPORTS)):
        raise ValueError("CORE_TRANSPORTS: %r" % (CORE_TRANSPORTS,))
    for x in library:
        if x not in CORE_TRANSPORTS:
            raise ValueError("ssh-config transport %r is not a core transport" % x)
    rows, info_rows = [], []
    for name in CORE_TRANSPORTS:
        mod = importlib.import_module("scrapli.transport.plugins.%s.transport" % name)
        fields = [f.name for f in dataclasses.fields(mod.PluginTransportArgs)]
        has = all(f in fields for f in SSH_FIELDS)
        if not has and fields:
            raise ValueError("%s: PluginTransportArgs has some but not all ssh fields: %r" % (name, fields))
        d = BaseDriver(host="h", transport=name)
        for f in fields:
            if not hasattr(d, f):
                raise ValueError("%s: plugin field %s is not a driver attribute" % (name, f))
        if not isinstance(d.port, int) or isinstance(d.port, bool) or d.port < 0:
            raise ValueError("default port of %s: %r" % (name, d.port))
        if d._base_transport_args.port != d.port:
            raise ValueError("default port of %s differs between driver and transport" % name)
        rows.append("(%s, %s, %s, %s, %d)" % (cs(name), cb("telnet" in name), cb(name in library), cb(has), d.port))
        info_rows.append([name, "telnet" in name, name in library, has, d.port, name in ASYNCIO_TRANSPORTS])

    sig = inspect.signature(BaseDriver.__init__)
    dflt = {k: v.default for k, v in sig.parameters.items()}
    if dflt["port"] is not None:
        raise ValueError("port default is not None: %r" % (dflt["port"],))
    for k in ("ssh_config_file", "ssh_known_hosts_file"):
        if dflt[k] is not False:
            raise ValueError("%s default is not False" % k)
    for k in ("auth_username", "auth_private_key"):
        if dflt[k] != "":
            raise ValueError("%s default is not ''" % k)

    ws = [c for c in range(sys.maxunicode + 1) if (chr(c) + "x").strip() != chr(c) + "x"]
    ws_r = [c for c in range(sys.maxunicode + 1) if ("x" + chr(c)).strip() != "x" + chr(c)]
    if ws != ws_r:
        raise ValueError("strip() is not symmetric?")

    # the real _build_open_cmd over the product of its branch conditions
    magic_c, magic_k = SystemTransport.SSH_SYSTEM_CONFIG_MAGIC_STRING, SystemTransport.SSH_SYSTEM_KNOWN_HOSTS_FILE_MAGIC_STRING
    samples = []
    for (host, port), strict, key, user, kh, cfg, extra in itertools.product(
            [("r1", 22), ("a b", 2022)], [True, False], ["", "/k y"], ["", "u"], ["", magic_k, "/kh"],
            ["", magic_c, "/c f"], [[], ["-o", "X=y"], "single"]):
        if extra == "single" and not (strict and key and user):
            continue
        to = {} if extra == [] else {"open_cmd": extra}
        t = SystemTransport(BaseTransportArgs(transport_options=to, host=host, port=port, timeout_socket=15.0, timeout_transport=30.9),
                            SysArgs(auth_username=user, auth_private_key=key, auth_strict_key=strict,
                                    ssh_config_file=cfg, ssh_known_hosts_file=kh))
        t._build_open_cmd()
        first = list(t.open_cmd)
        t._build_open_cmd()       # idempotent (open() after close())
        if list(t.open_cmd) != first:
            raise ValueError("_build_open_cmd is not idempotent")
        ex = [extra] if isinstance(extra, str) else extra
        samples.append("(mkB %s %d, 15, 30, mkP %s %s %s %s %s, %s, %s)" % (
            cs(host), port, cs(user), cs(key), cb(strict), cs(cfg), cs(kh), clist([cs(x) for x in ex]),
            clist([cs(x) for x in first])))

    lines = ["(* generated from the scrapli source tree by gen/gen_resolve.py — do not edit *)",
             "From Verif Require Import Bytes Resolve.",
             "Definition gen_str_whitespace : list N := %s." % clist([str(c) for c in ws]),
             "Definition gen_transport_table : list (str * bool * bool * bool * N) :=\n  %s." % clist(rows),
             "Definition gen_magic_cfg : str := %s." % cs(magic_c),
             "Definition gen_magic_kh : str := %s." % cs(magic_k),
             "Definition gen_cfg_candidates : list str := %s." % clist([cs(x) for x in cfg_c]),
             "Definition gen_kh_candidates : list str := %s." % clist([cs(x) for x in kh_c]),
             "Definition gen_default_transport : str := %s." % cs(dflt["transport"]),
             "Definition gen_default_strict : bool := %s." % cb(dflt["auth_strict_key"]),
             "Definition gen_open_cmd_samples : list (base_targs * N * N * plugin_targs * list str * list str) :=\n  %s."
             % textwrap.fill(clist(samples), 4000)]
    text = "\n".join(lines) + "\n"
    path = os.path.join(outdir, "Gen_Resolve.v")
    if not os.path.exists(path) or open(path).read() != text:
        open(path, "w").write(text)
    return path, {"transports": info_rows, "library_tuple": library, "cfg_candidates": cfg_c, "kh_candidates": kh_c,
                  "whitespace_chars": len(ws), "open_cmd_samples": len(samples), "ssh2_package": ssh2_kind,
                  "defaults": {"transport": dflt["transport"], "auth_strict_key": dflt["auth_strict_key"]}}


if __name__ == "__main__":
    print(generate(sys.argv[1]))
