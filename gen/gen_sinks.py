"""Gen_Sinks.v — every logging call, `raise` and `__repr__/__str__` of EVERY module of the scrapli package (the
anchored files are flagged as such) with the identifiers that flow into its message (fail-closed).

Identifier-level value flow, computed from the `ast` of the CURRENT source tree:
  * flows(expr): names / attribute names / `v[i]` pseudo-identifiers whose VALUE can end up in the
    expression's value (conditions of `x if c else y`, comparisons, `not`, `bool()`, `len()`, `type()`,
    `isinstance()` do not carry the value);
  * closed under the local assignments of the enclosing function (for-targets, with-as, augmented
    assignments, comprehension targets included);
  * closed under call edges: an identifier that is a parameter of the enclosing function also stands for
    the argument expressions of every call site (resolved by function name over the whole scrapli package,
    keywords by name, positionals by position) — so `channel_input` inside `BaseChannel.write` stands for
    `auth_password` at the login call sites, `interact_events` inside `send_inputs_interact` for the tuples
    built in `_escalate`, and so on;
  * closed under attribute stores: an identifier loaded as an attribute (`self.channel_input`,
    `response.channel_input`) also stands for every value stored under that attribute name (`self.X = v`: in the
    class family when the receiver is self/cls, package-wide otherwise) — so `channel_input` inside
    `Response.__repr__` / `raise_for_status` stands for the constructor argument of `Response(...)`, i.e. the
    command of `_pre_send_command` and the joined inputs of `_pre_send_interactive` (hidden ones included);
  * closed under attribute ASSIGNMENT hooks, which have no call sites: the value parameter of a property setter
    (`@X.setter def X(self, value)`) stands for the attribute X — the name itself (what a user assigns to
    `conn.auth_password` IS the password) and every value the package stores under it; the value parameter of a
    `__setattr__(self, name, value)` stands for every attribute stored on self in the class family.  (Descriptor
    classes with `__set__` are not followed.)
  * guards: a flow that only happens when a boolean identifier G is FALSE carries the guard G
    (`if G: ... else: <sink>`, `x if not G else "REDACTED"`).  Crossing a call edge the guard is resolved
    against the call site: constant True -> the flow is dead (dropped); constant False / defaulted to False ->
    the guard is discharged (unguarded flow); `bool(H)` / `H` -> renamed to H; otherwise kept.
    The hidden flag of an interact event is the co-indexed guard of the event input (`event[2]` guards
    `event[0]`): resolved per tuple literal at the call sites.
  * objects with a generated repr: an identifier that holds an instance of a `@dataclass` of the package (no
    `__repr__` of its own) and flows into a sink AS A WHOLE (`f"{self.plugin_transport_args}"`, `repr(args)`,
    `"%s" % args`, `asdict(args)`; NOT `args.host`, which is the flow of `host` only) stands for every field the
    generated repr prints (inherited ones included, `field(repr=False)` excluded) and for what the constructor calls
    of the package store into those fields.  Which identifiers hold such an object: parameters / annotated
    assignments whose annotation names the dataclass (resolved in the same file first, by name over the package
    otherwise), `x = C(...)`, attribute stores of such identifiers (class family for self, package-wide otherwise),
    and — the objects travel through untyped factories — any identifier with the name of such a holder (leading
    underscores ignored).

  * stores into what a __repr__ prints ("store" rows): a `__repr__` / `__str__` that formats a CONTAINER held by
    reference (BaseDriver.__repr__ prints the user's own `transport_options` dict) shows whatever is put into that
    container later, anywhere.  Every in-place store — `x[k] = v`, `x[k] += v`, `x.update(..)`, `x.setdefault(k, v)`,
    `x.append / extend / insert / add(..)` — whose receiver may BE (alias_flows: names, attributes, subscripts,
    `.get()/.setdefault()/.pop()` results, `a or b`, `a if c else b`; through local assignments, attribute stores and
    call edges — not copies, literals or other calls) an object named like one a __repr__/__str__ of the package
    formats as a whole, is a row of kind "store" with the flows of the stored values (closed like any other flow).

What is decided about the table (no secret identifier reaches a sink unguarded) is decided in Coq
(model/Secrets.v [sinks_ok], props/C12.v by vm_compute).  This file only extracts."""
import ast
import os
import sys

ANCHORED = [
    "scrapli/channel/base_channel.py",
    "scrapli/channel/sync_channel.py",
    "scrapli/channel/async_channel.py",
    "scrapli/driver/network/sync_driver.py",
    "scrapli/driver/network/async_driver.py",
    "scrapli/driver/base/base_driver.py",
    "scrapli/logging.py",
    "scrapli/transport/plugins/paramiko/transport.py",
    "scrapli/transport/plugins/asyncssh/transport.py",
    "scrapli/transport/plugins/system/transport.py",
]
# files on the path between the secrets and the anchored sinks: their sinks are obligations as well
ON_PATH = [
    "scrapli/driver/base/sync_driver.py",
    "scrapli/driver/base/async_driver.py",
    "scrapli/driver/generic/base_driver.py",
    "scrapli/driver/generic/sync_driver.py",
    "scrapli/driver/generic/async_driver.py",
    "scrapli/driver/network/base_driver.py",
    "scrapli/decorators.py",
    "scrapli/transport/plugins/telnet/transport.py",
    "scrapli/transport/plugins/asynctelnet/transport.py",
    "scrapli/transport/plugins/ssh2/transport.py",
    "scrapli/transport/base/base_transport.py",
    "scrapli/transport/base/sync_transport.py",
    "scrapli/transport/base/async_transport.py",
]
# modules outside the anchors that see a secret after the operation (the Response objects hold the channel input:
# for send_interactive the join of all event inputs) or on the way to the drivers (factory): they MUST be present;
# every other module of the package is scanned as well (generate() walks the whole package)
OBSERVERS = [
    "scrapli/response.py",
    "scrapli/factory.py",
    "scrapli/helper.py",
    "scrapli/transport/plugins/system/ptyprocess.py",
    "scrapli/transport/base/base_socket.py",
]
LOG_METHODS = {"debug", "info", "warning", "warn", "error", "critical", "exception", "log"}
SANITIZERS = {"bool", "len", "type", "isinstance", "issubclass", "id", "hash", "callable", "hasattr", "any", "all"}
# methods whose result carries the receiver's value
VALUE_METHODS = {"encode", "decode", "lower", "upper", "strip", "lstrip", "rstrip", "format", "join", "replace",
                 "split", "splitlines", "partition", "rpartition", "title", "capitalize", "casefold", "center",
                 "ljust", "rjust", "zfill", "expandtabs", "format_map", "get", "pop", "copy", "items", "values",
                 "keys", "getvalue", "read", "group", "groups", "__repr__", "__str__", "__format__", "hex",
                 "translate", "swapcase", "removeprefix", "removesuffix", "setdefault"}


class Func:
    def __init__(self, file, cls, node):
        self.file, self.cls, self.node = file, cls, node
        self.name = node.name
        a = node.args
        params = [x.arg for x in a.posonlyargs + a.args]
        self.skip_self = bool(params) and params[0] in ("self", "cls")
        self.pos = params[1:] if self.skip_self else params
        self.kwonly = [x.arg for x in a.kwonlyargs]
        self.params = set(self.pos + self.kwonly)
        self.vararg = a.vararg.arg if a.vararg else None
        self.kwarg = a.kwarg.arg if a.kwarg else None
        self.defaults = {}
        for p, d in zip(reversed(a.posonlyargs + a.args), reversed(a.defaults)):
            self.defaults[p.arg] = d
        for p, d in zip(a.kwonlyargs, a.kw_defaults):
            if d is not None:
                self.defaults[p.arg] = d
        self.assign = {}     # var -> list of (expr, ctx_guards)   (value expressions assigned to var)
        self.calls = []      # (Call node, ctx_guards)
        self.sinks = []      # (kind, node, [exprs], ctx_guards)
        self.mutations = []  # (receiver expr, [stored value exprs], ctx_guards, node)   in-place stores into a container
        self.tuple_guard = {}  # var -> (guard var)  : var[0] is guarded by guard var (co-indexed element 2)
        self.self_loads = set()   # attribute names loaded from self / cls
        self.other_loads = set()  # attribute names loaded from any other receiver
        for n in ast.walk(node):
            if isinstance(n, ast.Attribute) and isinstance(n.ctx, ast.Load):
                if isinstance(n.value, ast.Name) and n.value.id in ("self", "cls"):
                    self.self_loads.add(n.attr)
                else:
                    self.other_loads.add(n.attr)
        self.qual = "%s%s" % (cls + "." if cls else "", self.name)
        # attribute assignment hooks: `@X.setter` / `@X.deleter`-style decorators make this function the code that runs
        # on `obj.X = v` (setter_of = "X"); `__setattr__` runs on EVERY `obj.<attr> = v` of the class
        self.setter_of = None
        for d in node.decorator_list:
            if isinstance(d, ast.Attribute) and d.attr == "setter":
                self.setter_of = d.value.id if isinstance(d.value, ast.Name) else d.value.attr if isinstance(d.value, ast.Attribute) else None
                if self.setter_of is None:
                    raise ValueError("gen_sinks: unexpected setter decorator on %s" % self.name)
        # identifiers annotated with a type: ident -> set of class names mentioned by the annotation
        self.annot = {}
        for x in a.posonlyargs + a.args + a.kwonlyargs:
            if x.annotation is not None:
                self.annot.setdefault(x.arg, set()).update(_annot_names(x.annotation))


def _annot_names(e):
    """class names an annotation mentions (Optional[C], "C", mod.C, Union[...] ...)"""
    out = set()
    for n in ast.walk(e):
        if isinstance(n, ast.Name):
            out.add(n.id)
        elif isinstance(n, ast.Attribute):
            out.add(n.attr)
        elif isinstance(n, ast.Constant) and isinstance(n.value, str):
            for w in n.value.replace("[", " ").replace("]", " ").replace(",", " ").replace(".", " ").split():
                out.add(w)
    return out


def _is_dataclass_deco(d):
    if isinstance(d, ast.Call):
        d = d.func
    return (isinstance(d, ast.Name) and d.id == "dataclass") or (isinstance(d, ast.Attribute) and d.attr == "dataclass")


def _dataclass_fields(node):
    """(is dataclass with a GENERATED repr, [field names the generated repr prints]) of a ClassDef"""
    deco = [d for d in node.decorator_list if _is_dataclass_deco(d)]
    if not deco:
        return False, []
    for d in deco:
        if isinstance(d, ast.Call):
            for k in d.keywords:
                if k.arg == "repr" and _const_bool(k.value) is False:
                    return False, []
    fields = []
    for st in node.body:
        if isinstance(st, (ast.FunctionDef, ast.AsyncFunctionDef)) and st.name == "__repr__":
            return False, []          # its own __repr__: a sink row of its own
        if isinstance(st, ast.AnnAssign) and isinstance(st.target, ast.Name):
            if "ClassVar" in _annot_names(st.annotation):
                continue
            v = st.value
            if isinstance(v, ast.Call) and (getattr(v.func, "id", None) == "field" or getattr(v.func, "attr", None) == "field") \
                    and any(k.arg == "repr" and _const_bool(k.value) is False for k in v.keywords):
                continue
            fields.append(st.target.id)
    return True, fields


def _const_bool(e):
    if isinstance(e, ast.Constant) and isinstance(e.value, bool):
        return e.value
    return None


def _guard_of_test(test):
    """(ident, polarity)  polarity True: test is true when ident is true.  None if not a simple test."""
    if isinstance(test, ast.UnaryOp) and isinstance(test.op, ast.Not):
        g = _guard_of_test(test.operand)
        return (g[0], not g[1]) if g else None
    if isinstance(test, ast.Name):
        return (test.id, True)
    if isinstance(test, ast.Call) and isinstance(test.func, ast.Name) and test.func.id == "bool" and len(test.args) == 1:
        return _guard_of_test(test.args[0])
    if isinstance(test, ast.Compare) and len(test.ops) == 1 and isinstance(test.left, ast.Name):
        c = _const_bool(test.comparators[0])
        if c is not None and isinstance(test.ops[0], (ast.Is, ast.Eq)):
            return (test.left.id, c)
        if c is not None and isinstance(test.ops[0], (ast.IsNot, ast.NotEq)):
            return (test.left.id, not c)
    return None


def flows(e, g=frozenset()):
    """set of (ident, guards) whose value may be part of the value of expression e"""
    if e is None:
        return set()
    if isinstance(e, ast.Name):
        return {(e.id, g)}
    if isinstance(e, ast.Attribute):
        return {(e.attr, g)}
    if isinstance(e, ast.Constant):
        return set()
    if isinstance(e, ast.Subscript):
        if isinstance(e.value, ast.Name) and isinstance(e.slice, ast.Constant) and isinstance(e.slice.value, int):
            return {("%s[%d]" % (e.value.id, e.slice.value), g)}
        return flows(e.value, g)
    if isinstance(e, (ast.Tuple, ast.List, ast.Set)):
        return set().union(*[flows(x, g) for x in e.elts]) if e.elts else set()
    if isinstance(e, ast.Dict):
        out = set()
        for k, v in zip(e.keys, e.values):
            out |= flows(k, g) | flows(v, g)
        return out
    if isinstance(e, ast.JoinedStr):
        return set().union(*[flows(x, g) for x in e.values]) if e.values else set()
    if isinstance(e, ast.FormattedValue):
        return flows(e.value, g) | flows(e.format_spec, g)
    if isinstance(e, ast.BinOp):
        return flows(e.left, g) | flows(e.right, g)
    if isinstance(e, ast.BoolOp):
        return set().union(*[flows(x, g) for x in e.values])
    if isinstance(e, ast.UnaryOp):
        return set() if isinstance(e.op, ast.Not) else flows(e.operand, g)
    if isinstance(e, ast.Compare):
        return set()
    if isinstance(e, ast.IfExp):
        gd = _guard_of_test(e.test)
        gb, go = g, g
        if gd is not None:
            ident, pol = gd
            if pol:          # body when ident true, orelse when ident false
                go = g | {ident}
            else:            # body when ident false
                gb = g | {ident}
        return flows(e.body, gb) | flows(e.orelse, go)
    if isinstance(e, ast.Call):
        f = e.func
        if isinstance(f, ast.Name) and f.id in SANITIZERS:
            return set()
        out = set()
        for a in e.args:
            out |= flows(a, g)
        for k in e.keywords:
            out |= flows(k.value, g)
        if isinstance(f, ast.Attribute) and f.attr in VALUE_METHODS:
            out |= flows(f.value, g)
        return out
    if isinstance(e, ast.Starred):
        return flows(e.value, g)
    if isinstance(e, ast.Await):
        return flows(e.value, g)
    if isinstance(e, (ast.ListComp, ast.SetComp, ast.GeneratorExp)):
        out = flows(e.elt, g)
        return _comp(out, e.generators, g)
    if isinstance(e, ast.DictComp):
        out = flows(e.key, g) | flows(e.value, g)
        return _comp(out, e.generators, g)
    if isinstance(e, ast.Lambda):
        return set()
    if isinstance(e, ast.NamedExpr):
        return flows(e.value, g)
    if isinstance(e, ast.Slice):
        return set()
    if isinstance(e, ast.Yield):
        return flows(e.value, g)
    raise ValueError("gen_sinks: unexpected expression node %s" % type(e).__name__)


# methods that store their arguments into the receiver, in place
MUTATORS = {"update", "setdefault", "append", "extend", "insert", "add", "appendleft", "extendleft", "__setitem__"}
# methods whose result IS (an element of) the receiver, not a copy
ALIAS_METHODS = {"get", "setdefault", "pop"}


def alias_flows(e):
    """identifiers the expression's value may BE (the same object, or an element held by it): an in-place store into
    the value is a store into what those identifiers hold.  Copies, literals and other calls break the alias."""
    if e is None:
        return set()
    if isinstance(e, ast.Name):
        return {e.id}
    if isinstance(e, ast.Attribute):
        return {e.attr}
    if isinstance(e, ast.Subscript):
        return alias_flows(e.value)
    if isinstance(e, ast.IfExp):
        return alias_flows(e.body) | alias_flows(e.orelse)
    if isinstance(e, ast.BoolOp):
        return set().union(*[alias_flows(x) for x in e.values])
    if isinstance(e, (ast.NamedExpr, ast.Await, ast.Starred)):
        return alias_flows(e.value)
    if isinstance(e, ast.Call) and isinstance(e.func, ast.Attribute) and e.func.attr in ALIAS_METHODS:
        out = alias_flows(e.func.value)
        for a in list(e.args)[1:] + [k.value for k in e.keywords]:
            out |= alias_flows(a)       # the default handed back when the key is missing
        return out
    return set()


# calls whose result shows the argument object itself (its repr / its fields)
SHOWING_CALLS = {"str", "repr", "ascii", "format", "asdict", "astuple", "vars", "dict", "list", "tuple", "sorted", "pformat"}
SHOWING_METHODS = {"format", "join", "format_map", "__repr__", "__str__", "__format__"}


def whole_flows(e):
    """identifiers whose OBJECT (not a value derived from it by an attribute access or an opaque call) is formatted into
    the value of expression e: `f"{x}"`, `"%s" % x`, `"..." + str(x)`, `repr(x)`, `(x, y)`, `x if c else y` -> x;
    `x.host`, `len(x)`, `self.transport.read()` -> nothing"""
    if e is None or isinstance(e, (ast.Constant, ast.Compare, ast.Lambda, ast.Slice)):
        return set()
    if isinstance(e, ast.Name):
        return {e.id}
    if isinstance(e, ast.Attribute):
        return {e.attr}
    if isinstance(e, ast.Subscript):
        return whole_flows(e.value)
    if isinstance(e, (ast.Tuple, ast.List, ast.Set)):
        return set().union(*[whole_flows(x) for x in e.elts]) if e.elts else set()
    if isinstance(e, ast.Dict):
        return set().union(*[whole_flows(x) for x in list(e.keys) + list(e.values)]) if e.values else set()
    if isinstance(e, ast.JoinedStr):
        return set().union(*[whole_flows(x) for x in e.values]) if e.values else set()
    if isinstance(e, ast.FormattedValue):
        return whole_flows(e.value)
    if isinstance(e, ast.BinOp):
        return whole_flows(e.left) | whole_flows(e.right)
    if isinstance(e, ast.BoolOp):
        return set().union(*[whole_flows(x) for x in e.values])
    if isinstance(e, ast.UnaryOp):
        return set()
    if isinstance(e, ast.IfExp):
        return whole_flows(e.body) | whole_flows(e.orelse)
    if isinstance(e, (ast.Starred, ast.Await, ast.NamedExpr, ast.Yield)):
        return whole_flows(e.value)
    if isinstance(e, ast.Call):
        f = e.func
        args = list(e.args) + [k.value for k in e.keywords]
        if isinstance(f, ast.Name) and f.id in SHOWING_CALLS:
            return set().union(*[whole_flows(x) for x in args]) if args else set()
        if isinstance(f, ast.Attribute) and (f.attr in SHOWING_METHODS or f.attr in SHOWING_CALLS):
            return whole_flows(f.value) | (set().union(*[whole_flows(x) for x in args]) if args else set())
        if isinstance(f, ast.Name) and f.id[:1].isupper():
            # construction of an exception / message object around the arguments: `raise Err(f"... {x}")`
            return set().union(*[whole_flows(x) for x in args]) if args else set()
        return set()
    if isinstance(e, (ast.ListComp, ast.SetComp, ast.GeneratorExp)):
        return whole_flows(e.elt) | set().union(*[whole_flows(g.iter) for g in e.generators])
    if isinstance(e, ast.DictComp):
        return whole_flows(e.key) | whole_flows(e.value) | set().union(*[whole_flows(g.iter) for g in e.generators])
    raise ValueError("gen_sinks: unexpected expression node %s" % type(e).__name__)


def _targets(t):
    if isinstance(t, ast.Name):
        return [t.id]
    if isinstance(t, (ast.Tuple, ast.List)):
        return [x for e in t.elts for x in _targets(e)]
    if isinstance(t, ast.Starred):
        return _targets(t.value)
    if isinstance(t, ast.Attribute):
        return ["." + t.attr]   # attribute store: recorded package-wide under ".attr"
    if isinstance(t, ast.Subscript):
        return _targets(t.value)
    raise ValueError("gen_sinks: unexpected assignment target %s" % type(t).__name__)


def _comp(out, generators, g):
    """substitute comprehension targets by their iterables (one level; nested generators in order)"""
    for gen in reversed(generators):
        tg = set(_targets(gen.target))
        it = flows(gen.iter, g)
        new = set()
        for (i, gs) in out:
            base = i.split("[")[0]
            if base in tg:
                new |= {(j, gs | gs2) for (j, gs2) in it}
                new.add((i, gs))
            else:
                new.add((i, gs))
        out = new
    return out


class Collector(ast.NodeVisitor):
    """walk ONE function body (not nested defs): assignments, calls, sinks with their lexical guards"""

    def __init__(self, fn):
        self.fn = fn
        self.g = frozenset()

    def body(self, stmts, g=None):
        old = self.g
        if g is not None:
            self.g = g
        for s in stmts:
            self.visit(s)
        self.g = old

    # nested definitions are separate functions
    def visit_FunctionDef(self, node):
        pass

    visit_AsyncFunctionDef = visit_FunctionDef
    visit_ClassDef = visit_FunctionDef

    def _assign(self, target, value, node=None):
        for t in _targets(target):
            self.fn.assign.setdefault(t, []).append((value, self.g))
        self._stores(target, value, node)

    def _stores(self, target, value, node):
        """x[k] = v (also inside tuple targets): an in-place store into x"""
        if isinstance(target, ast.Subscript):
            self.fn.mutations.append((target.value, [value], self.g, node or target))
        elif isinstance(target, (ast.Tuple, ast.List)):
            for e in target.elts:
                self._stores(e, value, node)
        elif isinstance(target, ast.Starred):
            self._stores(target.value, value, node)

    def visit_Assign(self, node):
        for t in node.targets:
            if isinstance(t, (ast.Tuple, ast.List)) and isinstance(node.value, (ast.Tuple, ast.List)) \
                    and len(t.elts) == len(node.value.elts):
                for a, b in zip(t.elts, node.value.elts):
                    self._assign(a, b)
            else:
                self._assign(t, node.value)
            # co-indexed guard:  G = v[2]
            if isinstance(t, ast.Name) and isinstance(node.value, ast.Subscript) and isinstance(node.value.value, ast.Name) \
                    and isinstance(node.value.slice, ast.Constant) and node.value.slice.value == 2:
                self.fn.tuple_guard[node.value.value.id] = t.id
        self.generic_visit(node)

    def visit_AnnAssign(self, node):
        if node.value is not None:
            self._assign(node.target, node.value)
        for t in _targets(node.target):
            self.fn.annot.setdefault(t, set()).update(_annot_names(node.annotation))
        self.generic_visit(node)

    def visit_AugAssign(self, node):
        self._assign(node.target, node.value)
        self.generic_visit(node)

    def visit_NamedExpr(self, node):
        self._assign(node.target, node.value)
        self.generic_visit(node)

    def visit_For(self, node):
        self._assign(node.target, node.iter)
        self.generic_visit(node)

    visit_AsyncFor = visit_For

    def visit_With(self, node):
        for it in node.items:
            if it.optional_vars is not None:
                self._assign(it.optional_vars, it.context_expr)
        self.generic_visit(node)

    visit_AsyncWith = visit_With

    def visit_ExceptHandler(self, node):
        self.generic_visit(node)

    def visit_If(self, node):
        self.visit(node.test)
        gd = _guard_of_test(node.test)
        gb, go = self.g, self.g
        if gd is not None:
            ident, pol = gd
            if pol:
                go = self.g | {ident}
            else:
                gb = self.g | {ident}
        self.body(node.body, gb)
        self.body(node.orelse, go)

    def visit_Call(self, node):
        f = node.func
        if isinstance(f, ast.Attribute) and f.attr in LOG_METHODS and _is_logger(f.value):
            exprs = list(node.args) + [k.value for k in node.keywords if k.arg not in ("exc_info", "stack_info", "stacklevel")]
            self.fn.sinks.append(("log", node, exprs, self.g))
        elif isinstance(f, ast.Name) and f.id in ("user_warning", "warn"):
            exprs = list(node.args) + [k.value for k in node.keywords]
            self.fn.sinks.append(("log", node, exprs, self.g))
        if isinstance(f, ast.Attribute) and f.attr in MUTATORS and not _is_logger(f.value):
            self.fn.mutations.append((f.value, list(node.args) + [k.value for k in node.keywords], self.g, node))
        self.fn.calls.append((node, self.g))
        self.generic_visit(node)

    def visit_Raise(self, node):
        e = node.exc
        if e is None:
            exprs = []
        elif isinstance(e, ast.Call):
            exprs = list(e.args) + [k.value for k in e.keywords]
        else:
            exprs = [e]
        self.fn.sinks.append(("raise", node, exprs, self.g))
        self.generic_visit(node)

    def visit_Return(self, node):
        if self.fn.name in ("__repr__", "__str__"):
            self.fn.sinks.append(("repr", node, [node.value], self.g))
        self.generic_visit(node)


def _is_logger(e):
    last = e.id if isinstance(e, ast.Name) else e.attr if isinstance(e, ast.Attribute) else None
    if last is None:
        return False
    return "logger" in last.lower() or last in ("log", "LOG")


def parse_package(repo):
    funcs = []
    files = []
    bases = {}
    dataclasses = {}     # (file, class name) -> (own fields printed by the generated repr, base names)
    root = os.path.join(repo, "scrapli")
    for d, _, fs in sorted(os.walk(root)):
        for f in sorted(fs):
            if f.endswith(".py"):
                files.append(os.path.relpath(os.path.join(d, f), repo))
    if len(files) < 40:
        raise ValueError("gen_sinks: scrapli package not found / too small under %s" % repo)
    for rel in files:
        tree = ast.parse(open(os.path.join(repo, rel), encoding="utf8").read(), rel)

        def walk(node, cls):
            for ch in ast.iter_child_nodes(node):
                if isinstance(ch, ast.ClassDef):
                    bases.setdefault(ch.name, [])
                    for b in ch.bases:
                        n = b.id if isinstance(b, ast.Name) else b.attr if isinstance(b, ast.Attribute) else None
                        if n:
                            bases[ch.name].append(n)
                    isdc, flds = _dataclass_fields(ch)
                    if isdc:
                        dataclasses[(rel, ch.name)] = (flds, [b.id if isinstance(b, ast.Name) else b.attr
                                                              for b in ch.bases if isinstance(b, (ast.Name, ast.Attribute))])
                    walk(ch, ch.name)
                elif isinstance(ch, (ast.FunctionDef, ast.AsyncFunctionDef)):
                    fn = Func(rel, cls, ch)
                    Collector(fn).body(ch.body)
                    funcs.append(fn)
                    walk(ch, cls)
                else:
                    walk(ch, cls)

        walk(tree, None)
    return files, funcs, bases, dataclasses


class Analysis:
    def __init__(self, repo):
        self.files, self.funcs, self.bases, self.dataclasses = parse_package(repo)
        self.by_name = {}
        for f in self.funcs:
            self.by_name.setdefault(f.name, []).append(f)
        # class hierarchy by name (package-local)
        self.anc = {}
        for c in self.bases:
            seen, todo = set(), [c]
            while todo:
                x = todo.pop()
                for b in self.bases.get(x, []):
                    if b not in seen:
                        seen.add(b)
                        todo.append(b)
            self.anc[c] = seen
        self.family = {c: {c} | self.anc[c] | {d for d in self.bases if c in self.anc[d]} for c in self.bases}
        self.elem_guards = set()
        for f in self.funcs:
            for p in f.params:
                g = self.elem_guard(f, p)
                if g:
                    self.elem_guards.add(g)
        # attribute stores, package-wide:  attr -> [(function, value expression)]
        self.attr_stores = {}
        for f in self.funcs:
            for t, vals in f.assign.items():
                if t.startswith("."):
                    for (val, _ctx) in vals:
                        self.attr_stores.setdefault(t[1:], []).append((f, val))
        # dataclasses with a generated repr: fields (inherited included), constructor calls, holders
        self.dc_by_name = {}
        for (rel, name) in self.dataclasses:
            self.dc_by_name.setdefault(name, []).append((rel, name))
        self.ctor_sites = {}
        for f in self.funcs:
            for (c, _g) in f.calls:
                n = c.func.id if isinstance(c.func, ast.Name) else c.func.attr if isinstance(c.func, ast.Attribute) else None
                if n in self.dc_by_name:
                    self.ctor_sites.setdefault(n, []).append((f, c))
        self.attr_types = {}     # attribute name -> [(storing function, dataclass keys)]
        self.holder_names = {}   # identifier name without leading underscores -> dataclass keys
        for f in self.funcs:
            for ident in set(f.annot) | set(f.assign):
                ks = self.local_types(f, ident)
                if ks and not ident.startswith("."):
                    self.holder_names.setdefault(ident.lstrip("_"), set()).update(ks)
            for t, vals in f.assign.items():
                if not t.startswith("."):
                    continue
                ks = set(self.local_types(f, t))
                for (val, _ctx) in vals:
                    if isinstance(val, ast.Name):
                        ks |= self.local_types(f, val.id)
                if ks:
                    self.attr_types.setdefault(t[1:], []).append((f, ks))
                    self.holder_names.setdefault(t[1:].lstrip("_"), set()).update(ks)
        # call sites per callee function
        self.sites = {}
        for f in self.funcs:
            for (c, g) in f.calls:
                for callee in self.resolve(f, c):
                    self.sites.setdefault(id(callee), []).append((f, c, g))

    def dc_resolve(self, file, names):
        """dataclass keys the class names stand for: the class of that name in the same file, any of the package else"""
        out = set()
        for n in names:
            if (file, n) in self.dataclasses:
                out.add((file, n))
            else:
                out.update(self.dc_by_name.get(n, []))
        return out

    def dc_fields(self, key, _seen=None):
        """fields the generated repr of the dataclass prints (base classes' fields included)"""
        seen = _seen if _seen is not None else set()
        if key in seen:
            return []
        seen.add(key)
        own, bs = self.dataclasses[key]
        out = []
        for b in bs:
            for k in sorted(self.dc_resolve(key[0], [b])):
                out += [x for x in self.dc_fields(k, seen) if x not in out]
        return out + [x for x in own if x not in out]

    def local_types(self, f, ident):
        """dataclass keys of what `ident` holds inside f, from its annotation or a constructor call assigned to it"""
        ks = self.dc_resolve(f.file, f.annot.get(ident, ()))
        for (val, _ctx) in f.assign.get(ident, []):
            if isinstance(val, ast.Call):
                n = val.func.id if isinstance(val.func, ast.Name) else val.func.attr if isinstance(val.func, ast.Attribute) else None
                if n in self.dc_by_name:
                    ks |= self.dc_resolve(f.file, [n])
        return ks

    def holder_types(self, f, ident):
        """dataclass keys of the object the identifier holds when it is used as a whole (most specific source first:
        annotation / constructor in the function, typed attribute stores, the holder's name over the package)"""
        ks = self.local_types(f, ident)
        if ks:
            return ks
        if ident in f.self_loads or ident in f.other_loads:
            fam = self.family.get(f.cls, {f.cls}) if f.cls else set()
            for (g, k2) in self.attr_types.get(ident, []):
                if ident in f.other_loads or g.cls in fam:
                    ks |= k2
            if ks:
                return ks
        return set(self.holder_names.get(ident.lstrip("_"), ()))

    def resolve(self, caller, call):
        """functions a call may reach (by name, narrowed by what the receiver expression says)"""
        f = call.func
        if isinstance(f, ast.Name):
            if f.id in self.bases:      # construction
                return [x for x in self.by_name.get("__init__", []) if x.cls in ({f.id} | self.anc[f.id])][:]
            return [x for x in self.by_name.get(f.id, []) if x.cls is None or x.cls == caller.cls]
        if not isinstance(f, ast.Attribute):
            return []
        cands = self.by_name.get(f.attr, [])
        if not cands:
            return []
        r = f.value
        if isinstance(r, ast.Name) and r.id in ("self", "cls") and caller.cls:
            fam = self.family.get(caller.cls, {caller.cls})
            return [x for x in cands if x.cls in fam]
        if isinstance(r, ast.Call) and isinstance(r.func, ast.Name) and r.func.id == "super" and caller.cls:
            return [x for x in cands if x.cls in self.anc.get(caller.cls, set())]
        last = r.id if isinstance(r, ast.Name) else r.attr if isinstance(r, ast.Attribute) else ""
        low = last.lower()
        if "transport" in low:
            return [x for x in cands if x.cls and x.cls.endswith("Transport")]
        if low in ("channel", "chan", "_channel"):
            return [x for x in cands if x.cls and x.cls.endswith("Channel")]
        if low in ("conn", "driver", "connection", "scrapli_conn", "instance", "driver_instance"):
            return [x for x in cands if x.cls and x.cls.endswith("Driver")]
        # any other receiver (stdin, session, sock, file objects, buffers ...): scrapli's channel, transport and
        # driver objects are only ever referenced through self / super() / .transport / .channel / conn
        return [x for x in cands if not (x.cls and x.cls.endswith(("Channel", "Transport", "Driver")))]

    # -- binding of a callee parameter at a call site ---------------------------------------------
    @staticmethod
    def bound(fn, call, param):
        for k in call.keywords:
            if k.arg == param:
                return k.value
        if param in fn.pos:
            i = fn.pos.index(param)
            if i < len(call.args) and not any(isinstance(a, ast.Starred) for a in call.args[: i + 1]):
                return call.args[i]
        return None

    def close(self, fn, items):
        """all (ident, guards) reachable from `items` of function fn through local assignments and call
        edges (breadth-first over states (function, identifier, guards))"""
        out = set()
        todo = [(fn, i, g) for (i, g) in items]
        seen = set()
        while todo:
            st = todo.pop()
            key = (id(st[0]), st[1], st[2])
            if key in seen:
                continue
            seen.add(key)
            f, ident, gs = st
            out.add((ident, gs))
            base = ident.split("[")[0]
            idx = int(ident[len(base) + 1:-1]) if "[" in ident else None
            stores = [(f, val) for (val, _ctx) in f.assign.get(base, [])]
            # attribute loads: the values stored under that attribute name
            if base in f.self_loads or base in f.other_loads:
                fam = self.family.get(f.cls, {f.cls}) if f.cls else set()
                for (g, val) in self.attr_stores.get(base, []):
                    if base in f.other_loads or g.cls in fam:
                        stores.append((g, val))
            for (sf, val) in stores:
                if idx is not None and isinstance(val, (ast.Tuple, ast.List)) and idx < len(val.elts) \
                        and not all(isinstance(t, ast.Tuple) for t in val.elts):
                    fl = flows(val.elts[idx])
                elif idx is not None:
                    # element idx of (an element of) the value: keep the index on plain names
                    fl = set()
                    for (j, g2) in flows(val):
                        fl.add((j if "[" in j else "%s[%d]" % (j, idx), g2))
                    if isinstance(val, (ast.List, ast.Tuple)) and val.elts and all(isinstance(t, ast.Tuple) for t in val.elts):
                        fl = set()
                        for t in val.elts:
                            if idx < len(t.elts):
                                fl |= flows(t.elts[idx])
                else:
                    fl = flows(val)
                for (j, g2) in fl:
                    todo.append((sf, j, gs | g2))
            if base in f.params:
                for (caller, call, _cg) in self.sites.get(id(f), []):
                    arg = self.bound(f, call, base)
                    if arg is None:
                        continue
                    for (j, g) in self.arg_flows(f, call, arg, idx, gs):
                        todo.append((caller, j, g))
                # attribute assignment hooks have no call sites: `obj.X = v` runs the setter of X with value = v,
                # `obj.<any attr> = v` runs __setattr__(name, value).  The value parameter stands for the attribute(s)
                # it is assigned to — the NAME (what a user assigns to `conn.auth_password` is the password) and every
                # value the package stores under that name
                for attr in self.assigned_attrs(f, base):
                    out.add((attr, gs))
                    for (g, val) in self.attr_stores.get(attr, []):
                        for (j, g2) in flows(val):
                            todo.append((g, j, gs | g2))
        return out

    def assigned_attrs(self, f, param):
        """attribute names whose assignment hands its value to parameter `param` of f: f is the property setter of X
        (value = first parameter after self), or f is a __setattr__ (value = second parameter after self: every
        attribute stored on self in the class family, and every attribute with that class's name stored anywhere)"""
        if f.setter_of is not None and f.skip_self and f.pos and f.pos[0] == param:
            return [f.setter_of]
        if f.name == "__setattr__" and f.skip_self and len(f.pos) >= 2 and f.pos[1] == param and f.cls:
            fam = self.family.get(f.cls, {f.cls})
            return sorted({a for a, sts in self.attr_stores.items() if any(g.cls in fam for (g, _v) in sts)})
        return []

    def whole_objects(self, fn, exprs):
        """[(function, identifier)] that reach the sink expressions AS A WHOLE OBJECT in a formatting position (see
        whole_flows), through local assignments, parameters <- call-site arguments and attribute loads <- stores"""
        todo = [(fn, i) for e in exprs for i in whole_flows(e)]
        seen, out = set(), []
        while todo:
            f, ident = todo.pop()
            if (id(f), ident) in seen:
                continue
            seen.add((id(f), ident))
            out.append((f, ident))
            for (val, _ctx) in f.assign.get(ident, []):
                todo += [(f, j) for j in whole_flows(val)]
            if ident in f.self_loads or ident in f.other_loads:
                fam = self.family.get(f.cls, {f.cls}) if f.cls else set()
                for (g, val) in self.attr_stores.get(ident, []):
                    if ident in f.other_loads or g.cls in fam:
                        todo += [(g, j) for j in whole_flows(val)]
            if ident in f.params:
                for (caller, call, _cg) in self.sites.get(id(f), []):
                    arg = self.bound(f, call, ident)
                    if arg is not None:
                        todo += [(caller, j) for j in whole_flows(arg)]
        return out

    def aliases(self, fn, expr):
        """identifier names the object `expr` evaluates to inside fn may be known under (see alias_flows), through local
        assignments, attribute loads <- stores under that name, parameters <- call-site arguments"""
        todo = [(fn, i) for i in alias_flows(expr)]
        seen, out = set(), set()
        while todo:
            f, ident = todo.pop()
            if (id(f), ident) in seen:
                continue
            seen.add((id(f), ident))
            out.add(ident)
            for (val, _ctx) in f.assign.get(ident, []):
                todo += [(f, j) for j in alias_flows(val)]
            if ident in f.self_loads or ident in f.other_loads:
                fam = self.family.get(f.cls, {f.cls}) if f.cls else set()
                for (g, val) in self.attr_stores.get(ident, []):
                    if ident in f.other_loads or g.cls in fam:
                        todo += [(g, j) for j in alias_flows(val)]
            if ident in f.params:
                for (caller, call, _cg) in self.sites.get(id(f), []):
                    arg = self.bound(f, call, ident)
                    if arg is not None:
                        todo += [(caller, j) for j in alias_flows(arg)]
        return out

    def repr_shown(self):
        """names of the objects some __repr__ / __str__ of the package formats as a whole -> the functions doing so"""
        out = {}
        for fn in self.funcs:
            if fn.name not in ("__repr__", "__str__"):
                continue
            for (kind, _node, exprs, _g) in fn.sinks:
                if kind == "repr":
                    for (_f, ident) in self.whole_objects(fn, exprs):
                        if ident not in ("self", "cls"):
                            out.setdefault(ident, set()).add(fn.qual)
        return out

    def object_field_flows(self, fn, exprs, ctxg):
        """flows a sink gets from objects with a generated repr that reach it as a whole: every field the repr prints
        and what the package's constructor calls store into those fields (closed like any other flow)"""
        res = set()
        for (f, ident) in self.whole_objects(fn, exprs):
            for key in sorted(self.holder_types(f, ident)):
                flds = self.dc_fields(key)
                for fld in flds:
                    res.add((fld, frozenset(ctxg)))
                for (caller, call) in self.ctor_sites.get(key[1], []):
                    for i, fld in enumerate(flds):
                        arg = None
                        for k in call.keywords:
                            if k.arg == fld:
                                arg = k.value
                        if arg is None and i < len(call.args) and not any(isinstance(x, ast.Starred) for x in call.args[: i + 1]):
                            arg = call.args[i]
                        if arg is not None:
                            res |= self.close(caller, {(j, frozenset(ctxg) | g2) for (j, g2) in flows(arg)})
        return res

    def resolve_guards(self, fn, call, gs):
        """guards of a flow inside fn, seen from the call site: None = dead flow"""
        out = set()
        for gname in gs:
            if gname not in fn.params:
                out.add(gname)
                continue
            b = self.bound(fn, call, gname)
            if b is None:
                b = fn.defaults.get(gname)
                if b is None:
                    out.add(gname)
                    continue
            c = _const_bool(b)
            if c is True:
                return None            # the flow requires the guard to be false: dead at this call site
            if c is False or (isinstance(b, ast.Constant) and b.value is None):
                continue               # discharged: always flows
            gd = _guard_of_test(b)
            if gd is not None and gd[1]:
                out.add(gd[0])
            else:
                out.add(gname)
        return frozenset(out)

    def elem_guard(self, fn, param):
        """name of the co-indexed guard of the elements of list parameter `param` (G = v[2], v iterating over param)"""
        for v, gname in fn.tuple_guard.items():
            for (val, _) in fn.assign.get(v, []):
                if isinstance(val, ast.Name) and val.id == param:
                    return gname
        return None

    def arg_flows(self, fn, call, arg, idx, gs):
        """flows of the argument expression bound to a parameter (element idx of its elements if idx is
        given), with the flow's guards resolved at this call site"""
        res = []
        base_param = None
        for p in fn.params:
            if self.bound(fn, call, p) is arg:
                base_param = p
        eg = self.elem_guard(fn, base_param) if base_param else None
        if eg is None and idx == 0:
            # the co-indexed guard keeps its meaning across pass-through call edges (events handed on unchanged)
            for g in gs:
                if g in self.elem_guards:
                    eg = g
        if isinstance(arg, (ast.List, ast.Tuple)) and arg.elts and all(isinstance(t, ast.Tuple) for t in arg.elts):
            for t in arg.elts:
                g_t = gs
                if eg is not None and eg in gs:
                    hidden = _const_bool(t.elts[2]) if len(t.elts) > 2 else False
                    if hidden is True:
                        continue                   # guarded flow, guard true for this tuple: dead
                    if hidden is False:
                        g_t = gs - {eg}            # discharged
                r = self.resolve_guards(fn, call, g_t)
                if r is None:
                    continue
                elts = [t.elts[idx]] if (idx is not None and idx < len(t.elts)) else ([] if idx is not None else list(t.elts))
                for e in elts:
                    for (j, g2) in flows(e):
                        res.append((j, r | g2))
            return res
        rg = self.resolve_guards(fn, call, gs)
        if rg is None:
            return res
        for (j, g2) in flows(arg):
            if idx is not None and "[" not in j:
                j = "%s[%d]" % (j, idx)
            res.append((j, rg | g2))
        return res


def generate(outdir, repo=None):
    if repo is None:
        from harness import common
        repo = common.REPO
    an = Analysis(repo)
    for rel in ANCHORED + ON_PATH + OBSERVERS:
        if rel not in an.files:
            raise ValueError("gen_sinks: anchored file missing: %s" % rel)
    rows = []
    counts = {"log": 0, "raise": 0, "repr": 0, "store": 0}
    for fn in an.funcs:
        for (kind, node, exprs, ctxg) in fn.sinks:
            fl = set()
            for e in exprs:
                fl |= flows(e, ctxg)
            closed = an.close(fn, fl) | an.object_field_flows(fn, exprs, ctxg)
            # a sink with an element-guarded loop variable: v[0] carries the guard only if it is on the path
            merged = {}
            for (i, gs) in closed:
                merged.setdefault(i, []).append(gs)
            flat = []
            for i in sorted(merged):
                # the identifier reaches the sink unguarded if ANY path is unguarded: keep the minimal guard sets
                gss = merged[i]
                mins = [g for g in gss if not any(h < g for h in gss)]
                for g in sorted(set(mins), key=lambda s: (len(s), sorted(s))):
                    flat.append((i, sorted(g)))
            counts[kind] += 1
            rows.append((kind, fn.file, node.lineno, fn.qual, flat, fn.file in ANCHORED))
    # in-place stores into a container that a __repr__ / __str__ prints
    shown = an.repr_shown()
    if "transport_options" not in shown:
        raise ValueError("gen_sinks: no __repr__ formats transport_options any more (BaseDriver.__repr__ changed: revisit the store rows)")
    nmut = 0
    store_into = {}
    for fn in an.funcs:
        for (recv, vals, ctxg, node) in fn.mutations:
            nmut += 1
            hit = sorted(an.aliases(fn, recv) & set(shown))
            if not hit:
                continue
            fl = set()
            for e in vals:
                fl |= flows(e, ctxg)
            closed = an.close(fn, fl) | an.object_field_flows(fn, vals, ctxg)
            merged = {}
            for (i, gs) in closed:
                merged.setdefault(i, []).append(gs)
            flat = []
            for i in sorted(merged):
                gss = merged[i]
                mins = [g for g in gss if not any(h < g for h in gss)]
                for g in sorted(set(mins), key=lambda s: (len(s), sorted(s))):
                    flat.append((i, sorted(g)))
            counts["store"] += 1
            rows.append(("store", fn.file, node.lineno, fn.qual, flat, fn.file in ANCHORED))
            store_into["%s:%d %s" % (fn.file, node.lineno, fn.qual)] = hit
    if nmut < 20:
        raise ValueError("gen_sinks: implausibly few in-place stores found: %d" % nmut)
    rows.sort(key=lambda r: (r[1], r[2], r[0]))
    if counts["log"] < 60 or counts["raise"] < 60 or counts["repr"] < 2:
        raise ValueError("gen_sinks: implausibly few sinks found: %r" % counts)

    def q(s):
        if '"' in s or "\\" in s or "\n" in s:
            raise ValueError("gen_sinks: identifier not representable: %r" % s)
        return '"%s"' % s

    kinds = {"log": "SLog", "raise": "SRaise", "repr": "SRepr", "store": "SStore"}
    lines = ["(* generated from the scrapli source tree by gen/gen_sinks.py — do not edit *)",
             "From Coq Require Import String List.", "From Verif Require Import Secrets.",
             "Import ListNotations.", "Open Scope string_scope.",
             "Definition gen_sinks : list sink := ["]
    body = []
    for (kind, file, line, qual, flat, anchored) in rows:
        fl = "; ".join("(%s, [%s])" % (q(i), "; ".join(q(g) for g in gs)) for (i, gs) in flat)
        body.append("  mkSink %s %s %d %s %s [%s]" % (kinds[kind], q(file), line, q(qual), "true" if anchored else "false", fl))
    lines.append(";\n".join(body))
    lines.append("].")
    lines.append("Definition gen_nsinks : nat := %d." % len(rows))
    text = "\n".join(lines) + "\n"
    path = os.path.join(outdir, "Gen_Sinks.v")
    if not os.path.exists(path) or open(path).read() != text:
        open(path, "w").write(text)
    info = {"sinks": len(rows), "log": counts["log"], "raise": counts["raise"], "repr": counts["repr"],
            "files": len(set(r[1] for r in rows)), "store": counts["store"], "inplace_stores_seen": nmut,
            "repr_shown_objects": sorted(shown), "stores_into_shown": store_into,
            "secret_reaching": [{"kind": r[0], "file": r[1], "line": r[2], "func": r[3],
                                 "flows": [[i, g] for (i, g) in r[4] if i.split("[")[0] in SECRET_HINT or i in SECRET_HINT]}
                                for r in rows if any(i in SECRET_HINT for (i, _) in r[4])]}
    return path, info, rows


# only used for the evidence listing (the decision uses Secrets.secret_idents in Coq)
SECRET_HINT = {"auth_password", "auth_private_key_passphrase", "auth_secondary", "interact_event[0]",
               "interact_events[0]", "interact_event", "interact_events"}

if __name__ == "__main__":
    p, info, rows = generate(sys.argv[1], sys.argv[2] if len(sys.argv) > 2 else "/repo")
    import json
    print(json.dumps(info, indent=1))
