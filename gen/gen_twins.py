"""Gen_Twins.v — sync/asyncio twin facts of the current source tree (fail-closed).

For every sync/async module pair of property C06 (channel, base/generic/network drivers, the five
platform drivers, the two Telnet transports) this translator emits

  gen_classes : per class pair, the PUBLIC attribute tables of both classes obtained from the imported
                classes with `inspect` (so inherited methods count): method name, parameter list
                (name, kind, default repr), coroutine-ness;
  gen_funcs   : per function/method of the two modules (ast, docstrings removed, canonical `ast.unparse`
                text, tokenised with `tokenize`): the RAW interned token streams of both twins (the Coq
                model Twins.normalise drops async/await and renames the twin names itself), and the
                sha256 of the zero-context token diff of the normalised streams (computed here, over
                token TEXT, so that it does not depend on the interning);
  gen_allowed : the committed difference list harness/c06_allowed.json (function -> diff hash).

The two variants of each decorator of scrapli/decorators.py (`if asyncio.iscoroutinefunction(wrapped_func): async def
decorate ... else: def decorate ...`) are a twin pair as well: pair id "decorators", function name = the decorator's.

props/C06.v decides the obligations over these tables by vm_compute."""
import ast
import difflib
import hashlib
import importlib
import inspect
import io
import json
import os
import sys
import tokenize

HERE = os.path.dirname(os.path.abspath(__file__))
ALLOWED_JSON = os.path.join(os.path.dirname(HERE), "harness", "c06_allowed.json")

# (pair id, sync module, async module, [(sync class, async class)])
PAIRS = [
    ("channel", "scrapli.channel.sync_channel", "scrapli.channel.async_channel", [("Channel", "AsyncChannel")]),
    ("driver_base", "scrapli.driver.base.sync_driver", "scrapli.driver.base.async_driver", [("Driver", "AsyncDriver")]),
    ("driver_generic", "scrapli.driver.generic.sync_driver", "scrapli.driver.generic.async_driver",
     [("GenericDriver", "AsyncGenericDriver")]),
    ("driver_network", "scrapli.driver.network.sync_driver", "scrapli.driver.network.async_driver",
     [("NetworkDriver", "AsyncNetworkDriver")]),
    ("cisco_iosxe", "scrapli.driver.core.cisco_iosxe.sync_driver", "scrapli.driver.core.cisco_iosxe.async_driver",
     [("IOSXEDriver", "AsyncIOSXEDriver")]),
    ("cisco_iosxr", "scrapli.driver.core.cisco_iosxr.sync_driver", "scrapli.driver.core.cisco_iosxr.async_driver",
     [("IOSXRDriver", "AsyncIOSXRDriver")]),
    ("cisco_nxos", "scrapli.driver.core.cisco_nxos.sync_driver", "scrapli.driver.core.cisco_nxos.async_driver",
     [("NXOSDriver", "AsyncNXOSDriver")]),
    ("arista_eos", "scrapli.driver.core.arista_eos.sync_driver", "scrapli.driver.core.arista_eos.async_driver",
     [("EOSDriver", "AsyncEOSDriver")]),
    ("juniper_junos", "scrapli.driver.core.juniper_junos.sync_driver", "scrapli.driver.core.juniper_junos.async_driver",
     [("JunosDriver", "AsyncJunosDriver")]),
    ("telnet", "scrapli.transport.plugins.telnet.transport", "scrapli.transport.plugins.asynctelnet.transport",
     [("TelnetTransport", "AsynctelnetTransport"), ("PluginTransportArgs", "PluginTransportArgs")]),
]

# async name -> sync name (single tokens; applied by the Coq normaliser to BOTH streams)
RENAME = {
    "AsyncChannel": "Channel", "AsyncTransport": "Transport", "AsyncDriver": "Driver",
    "AsyncGenericDriver": "GenericDriver", "AsyncNetworkDriver": "NetworkDriver",
    "AsyncIOSXEDriver": "IOSXEDriver", "AsyncIOSXRDriver": "IOSXRDriver", "AsyncNXOSDriver": "NXOSDriver",
    "AsyncEOSDriver": "EOSDriver", "AsyncJunosDriver": "JunosDriver", "AsynctelnetTransport": "TelnetTransport",
    "__aenter__": "__enter__", "__aexit__": "__exit__",
    "asynccontextmanager": "contextmanager", "AsyncIterator": "Iterator",
}
for _k, _v in list(RENAME.items()):
    if _k[0] == "A":
        RENAME["'%s'" % _k] = "'%s'" % _v   # quoted forward references in annotations
DROP = ["async", "await"]

# methods with a dunder twin: sync name -> async name (for the public attribute tables)
DUNDER_TWIN = {"__enter__": "__aenter__", "__exit__": "__aexit__"}

KINDS = {"POSITIONAL_ONLY": 0, "POSITIONAL_OR_KEYWORD": 1, "VAR_POSITIONAL": 2, "KEYWORD_ONLY": 3, "VAR_KEYWORD": 4}


def _strip_docstrings(node):
    for n in ast.walk(node):
        if isinstance(n, (ast.FunctionDef, ast.AsyncFunctionDef, ast.ClassDef, ast.Module)):
            b = n.body
            if b and isinstance(b[0], ast.Expr) and isinstance(b[0].value, ast.Constant) and isinstance(b[0].value.value, str):
                n.body = b[1:] or [ast.Pass()]
    return node


def _tokens(src):
    out = []
    for t in tokenize.generate_tokens(io.StringIO(src).readline):
        if t.type in (tokenize.COMMENT, tokenize.NL, tokenize.ENCODING, tokenize.ENDMARKER):
            continue
        if t.type == tokenize.NEWLINE:
            out.append("<NL>")
        elif t.type == tokenize.INDENT:
            out.append("<IN>")
        elif t.type == tokenize.DEDENT:
            out.append("<DE>")
        else:
            out.append(t.string)
    return out


def module_functions(path):
    """{qualified name: token list} for every function of the module (top level and methods)."""
    tree = _strip_docstrings(ast.parse(open(path).read()))
    out = {}
    classes = []
    for node in tree.body:
        if isinstance(node, (ast.FunctionDef, ast.AsyncFunctionDef)):
            out[node.name] = _tokens(ast.unparse(node))
        elif isinstance(node, ast.ClassDef):
            classes.append(node.name)
            for sub in node.body:
                if isinstance(sub, (ast.FunctionDef, ast.AsyncFunctionDef)):
                    key = node.name + "." + sub.name
                    if key in out:
                        raise ValueError("duplicate method %s in %s" % (key, path))
                    out[key] = _tokens(ast.unparse(sub))
                elif isinstance(sub, ast.ClassDef):
                    raise ValueError("nested class in %s" % path)
    return out, classes


DECORATORS_MODULE = "scrapli.decorators"
DECORATORS_EXPECTED = ("timeout_modifier", "timeout_wrapper")


def decorator_variants(path):
    """{decorator name: (sync `decorate` tokens, async `decorate` tokens)} for every top-level function of the module that
    picks a variant by asyncio.iscoroutinefunction; fail-closed on any other shape of such a function."""
    tree = _strip_docstrings(ast.parse(open(path).read()))
    out = {}
    for node in tree.body:
        if not isinstance(node, ast.FunctionDef) or "iscoroutinefunction" not in ast.unparse(node):
            continue
        ifs = [n for n in node.body if isinstance(n, ast.If) and "iscoroutinefunction" in ast.unparse(n.test)]
        if len(ifs) != 1 or ast.unparse(ifs[0].test) != "asyncio.iscoroutinefunction(wrapped_func)":
            raise ValueError("decorator %s: unexpected variant selection" % node.name)
        a = [n for n in ifs[0].body if isinstance(n, (ast.FunctionDef, ast.AsyncFunctionDef))]
        b = [n for n in ifs[0].orelse if isinstance(n, (ast.FunctionDef, ast.AsyncFunctionDef))]
        if len(a) != 1 or len(b) != 1 or len(ifs[0].body) != 1 or len(ifs[0].orelse) != 1 or a[0].name != b[0].name \
                or not isinstance(a[0], ast.AsyncFunctionDef) or not isinstance(b[0], ast.FunctionDef):
            raise ValueError("decorator %s: expected exactly `async def f` / `def f` as the two variants" % node.name)
        rest = [n for n in node.body if n is not ifs[0]]
        for n in rest:       # whatever else the decorator does is shared by both variants; it must not define functions
            if any(isinstance(x, (ast.FunctionDef, ast.AsyncFunctionDef, ast.Lambda)) for x in ast.walk(n)):
                raise ValueError("decorator %s: function defined outside the variant selection" % node.name)
        out[node.name] = (_tokens(ast.unparse(b[0])), _tokens(ast.unparse(a[0])))
    if sorted(out) != sorted(DECORATORS_EXPECTED):
        raise ValueError("decorators with a sync and a coroutine variant: expected %r, found %r" % (DECORATORS_EXPECTED, sorted(out)))
    return out


def normalise(toks):
    return [RENAME.get(t, t) for t in toks if t not in DROP]


def norm_key(name):
    parts = name.split(".")
    return ".".join(RENAME.get(p, p) for p in parts)


def diff_hash(s, a):
    """sha256 of the zero-context token diff of the two normalised streams ('' when equal)."""
    if s == a:
        return ""
    sm = difflib.SequenceMatcher(a=s, b=a, autojunk=False)
    hunks = [[tag, s[i1:i2], a[j1:j2]] for tag, i1, i2, j1, j2 in sm.get_opcodes() if tag != "equal"]
    return hashlib.sha256(json.dumps(hunks).encode()).hexdigest()[:16], hunks


def _default_repr(d):
    """canonical text of a parameter default (a function default is named, never printed with its address)"""
    if inspect.isfunction(d):
        return "<function %s>" % d.__qualname__
    r = repr(d)
    if " at 0x" in r:
        raise ValueError("parameter default without a canonical repr: %s" % r)
    return r


def public_table(cls, twin_names):
    """public attribute table of a class through its MRO: name -> (is_callable, is_coroutine, params)"""
    out = {}
    for name in sorted(dir(cls)):
        if name.startswith("_") and name not in ("__init__",) and name not in twin_names:
            continue
        attr = inspect.getattr_static(cls, name)
        if isinstance(attr, (staticmethod, classmethod)):
            fn = attr.__func__
        elif isinstance(attr, property):
            out[name] = (2, False, [])
            continue
        elif inspect.isfunction(attr):
            fn = attr
        else:
            out[name] = (3, False, [])   # plain class attribute
            continue
        sig = inspect.signature(fn)   # follows __wrapped__: the decorated function's own parameters
        params = []
        for p in sig.parameters.values():
            if p.kind.name not in KINDS:
                raise ValueError("unknown parameter kind %r" % (p.kind,))
            params.append((p.name, KINDS[p.kind.name], None if p.default is inspect.Parameter.empty else _default_repr(p.default)))
        out[name] = (1, inspect.iscoroutinefunction(fn), params)
    return out


def _b(s):
    b = s.encode("utf8")
    return "[" + ";".join(str(x) for x in b) + "]"


def generate(outdir, repo=None):
    repo = repo or os.environ.get("VERIF_REPO", "/repo")
    allowed = json.load(open(ALLOWED_JSON))
    if not isinstance(allowed, dict) or "functions" not in allowed:
        raise ValueError("c06_allowed.json malformed")
    funcs = []          # (pair, key, sync toks|None, async toks|None)
    classes = []
    for pid, smod, amod, cls_pairs in PAIRS:
        sm, am = importlib.import_module(smod), importlib.import_module(amod)
        for m in (sm, am):
            if not os.path.abspath(m.__file__).startswith(os.path.abspath(repo) + os.sep):
                raise ValueError("module %s imported from %s, not from %s" % (m.__name__, m.__file__, repo))
        sf, sclasses = module_functions(sm.__file__)
        af, aclasses = module_functions(am.__file__)
        if sorted(sclasses) != sorted(c for c, _ in cls_pairs) or sorted(aclasses) != sorted(c for _, c in cls_pairs):
            raise ValueError("unexpected classes in pair %s: %r / %r" % (pid, sclasses, aclasses))
        akeys = {}
        for k in af:
            nk = norm_key(k)
            if nk in akeys:
                raise ValueError("async functions %s and %s collide after renaming" % (akeys[nk], k))
            akeys[nk] = k
        for k in sorted(set(sf) | set(akeys)):
            funcs.append((pid, k, sf.get(k), af.get(akeys[k]) if k in akeys else None))
        for sc, ac in cls_pairs:
            scls, acls = getattr(sm, sc), getattr(am, ac)
            st = public_table(scls, set(DUNDER_TWIN))
            at = public_table(acls, set(DUNDER_TWIN.values()))
            # the async table is keyed by the sync name of dunder twins
            inv = {v: k for k, v in DUNDER_TWIN.items()}
            at = {inv.get(k, k): v for k, v in at.items()}
            classes.append((sc, ac, st, at))
    dm = importlib.import_module(DECORATORS_MODULE)
    if not os.path.abspath(dm.__file__).startswith(os.path.abspath(repo) + os.sep):
        raise ValueError("module %s imported from %s, not from %s" % (dm.__name__, dm.__file__, repo))
    for k, (st_, at_) in sorted(decorator_variants(dm.__file__).items()):
        funcs.append(("decorators", k, st_, at_))
    # interning (deterministic: sorted token text)
    vocab = set(DROP) | set(RENAME) | set(RENAME.values())
    for _, _, s, a in funcs:
        vocab |= set(s or []) | set(a or [])
    ids = {t: i + 1 for i, t in enumerate(sorted(vocab))}
    lines = ["(* generated from the source tree by gen/gen_twins.py — do not edit *)",
             "From Verif Require Import Bytes Twins.", "Open Scope N_scope.",
             "Definition gen_drop : list N := [%s]." % ";".join(str(ids[t]) for t in DROP),
             "Definition gen_rename : list (N * N) := [%s]." % ";".join(
                 "(%d,%d)" % (ids[k], ids[v]) for k, v in sorted(RENAME.items()))]
    info = {"functions": 0, "identical": 0, "differ": [], "only_one_side": [], "classes": {}, "hunks": {}}
    fl = []
    for pid, k, s, a in funcs:
        info["functions"] += 1
        name = pid + ":" + k
        if s is None or a is None:
            h = hashlib.sha256(json.dumps(["only", "sync" if a is None else "async"]).encode()).hexdigest()[:16]
            info["only_one_side"].append(name)
            info["hunks"][name] = [["only-sync" if a is None else "only-async", [], []]]
        else:
            r = diff_hash(normalise(s), normalise(a))
            if r == "":
                h = ""
                info["identical"] += 1
            else:
                h, hunks = r
                info["differ"].append(name)
                info["hunks"][name] = hunks
        info.setdefault("hashes", {})[name] = h
        fl.append("  mkFn %s %s %s [%s] [%s] %s" % (
            _b(name), "true" if s is not None else "false", "true" if a is not None else "false",
            ";".join(str(ids[t]) for t in (s or [])), ";".join(str(ids[t]) for t in (a or [])), _b(h)))
    lines.append("Definition gen_funcs : list twin_fn := [\n%s\n]." % ";\n".join(fl))
    al = []
    for name in sorted(allowed["functions"]):
        e = allowed["functions"][name]
        if not isinstance(e, dict) or not e.get("reason") or "hash" not in e or e.get("class") not in (
                "behaviour-preserving", "finding", "runtime-only"):
            raise ValueError("allowed entry %s needs hash, reason and class" % name)
        al.append("  (%s, %s)" % (_b(name), _b(e["hash"])))
    lines.append("Definition gen_allowed : list (bytes * bytes) := [\n%s\n]." % ";\n".join(al))

    def meth(name, v):
        kind, coro, params = v
        ps = ";".join("mkParam %s %d %s" % (_b(p[0]), p[1], "None" if p[2] is None else "(Some %s)" % _b(p[2])) for p in params)
        return "mkMeth %s %d %s [%s]" % (_b(name), kind, "true" if coro else "false", ps)

    cl = []
    for sc, ac, st, at in classes:
        info["classes"][sc] = {"sync_public": len(st), "async_public": len(at)}
        cl.append("  mkCls %s %s\n   [%s]\n   [%s]" % (
            _b(sc), _b(ac), ";\n    ".join(meth(n, st[n]) for n in sorted(st)), ";\n    ".join(meth(n, at[n]) for n in sorted(at))))
    lines.append("Definition gen_classes : list twin_cls := [\n%s\n]." % ";\n".join(cl))
    # does the asyncio Telnet login catch ScrapliConnectionError like the sync one? (model parameter l_catch)
    catches = {}
    for stack, modname in (("sync", "scrapli.channel.sync_channel"), ("async", "scrapli.channel.async_channel")):
        tree = ast.parse(open(importlib.import_module(modname).__file__).read())
        found = None
        for n in ast.walk(tree):
            if isinstance(n, (ast.FunctionDef, ast.AsyncFunctionDef)) and n.name == "channel_authenticate_telnet":
                found = any(isinstance(h, ast.ExceptHandler) and h.type is not None
                            and "ScrapliConnectionError" in ast.unparse(h.type) for h in ast.walk(n))
        if found is None:
            raise ValueError("channel_authenticate_telnet not found in %s" % modname)
        catches[stack] = found
        lines.append("Definition gen_%s_login_catches : bool := %s." % (stack, "true" if found else "false"))
    info["login_catches"] = catches
    text = "\n".join(lines) + "\n"
    path = os.path.join(outdir, "Gen_Twins.v")
    if not os.path.exists(path) or open(path).read() != text:
        open(path, "w").write(text)
    info["tokens"] = len(ids)
    info["class_tables"] = {sc: {"async_name": ac, "sync": st, "async": at} for sc, ac, st, at in classes}
    return path, info


if __name__ == "__main__":
    p, i = generate(sys.argv[1])
    i.pop("class_tables")
    hunks = i.pop("hunks")
    print(p)
    print(json.dumps(i, indent=1))
    if len(sys.argv) > 2:
        for k, v in hunks.items():
            print("==", k, i["hashes"][k])
            for h in v:
                print("   ", h[0], " ".join(h[1])[:300], " ||| ", " ".join(h[2])[:300])
