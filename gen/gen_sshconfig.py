"""Gen_SshConfig.v — facts of scrapli/ssh_config.py of the current source tree (fail-closed).

* HOST_ATTRS (the options _merge_hosts inherits) and the defaults of Host()
* the Host-pattern -> regex translation of _lookup_fuzzy_match: the expression assigned to
  `cleaned_host_pattern` is taken out of the source with `ast`, evaluated for every printable
  ASCII character, compiled with the flags the source passes to re.compile, and each character is
  classified BY BEHAVIOUR under CPython's re (literal, case-insensitive / (.*) group / (.) group);
  the translation must be character-wise (checked on multi-character samples)
* which re function does the matching (search / match / fullmatch) and the comparison operator of
  the best-match choice
* the constants of SSHKnownHosts.lookup ("|1|", "|", "sha1", ",")
"""
import ast
import os
import re
import sys

from harness import common


def _b(s):
    return "[" + ";".join(str(x) for x in s.encode("ascii")) + "]"


def _find_func(tree, cls, name):
    for node in tree.body:
        if isinstance(node, ast.ClassDef) and node.name == cls:
            for f in node.body:
                if isinstance(f, ast.FunctionDef) and f.name == name:
                    return f
    raise ValueError("%s.%s not found" % (cls, name))


def _assign_value(func, target):
    vals = [n.value for n in ast.walk(func) if isinstance(n, ast.Assign) and len(n.targets) == 1
            and isinstance(n.targets[0], ast.Name) and n.targets[0].id == target]
    if len(vals) != 1:
        raise ValueError("expected exactly one assignment to %s, found %d" % (target, len(vals)))
    return vals[0]


def _classify(rx, c):
    """0 literal (case-insensitive, ASCII) / 1 star group / 2 one-char group; anything else aborts"""
    asc = [chr(i) for i in range(128)]
    if rx.groups == 0:
        ok = all((rx.fullmatch(x) is not None) == (x.lower() == c.lower()) for x in asc)
        if ok and rx.fullmatch("") is None and rx.fullmatch(c + c) is None:
            return 0
    elif rx.groups == 1:
        m = rx.fullmatch("ab")
        if (rx.fullmatch("") is not None and m is not None and m.group(1) == "ab"
                and rx.fullmatch("a\nb") is None and rx.fullmatch("x" * 7).group(1) == "x" * 7):
            return 1
        if (rx.fullmatch("") is None and rx.fullmatch("ab") is None and rx.fullmatch("\n") is None
                and all(rx.fullmatch(x) is not None and rx.fullmatch(x).group(1) == x for x in asc if x != "\n")):
            return 2
    raise ValueError("pattern character %r translates to a regex of unknown behaviour: %r" % (c, rx.pattern))


def generate(outdir):
    path_src = os.path.join(common.REPO, "scrapli", "ssh_config.py")
    src = open(path_src).read()
    tree = ast.parse(src)
    import scrapli.ssh_config as sc

    lines = ["(* generated from scrapli/ssh_config.py by gen/gen_sshconfig.py — do not edit *)",
             "From Coq Require Import NArith List.", "Import ListNotations.", "Open Scope N_scope."]
    # HOST_ATTRS and Host() defaults
    attrs = sc.HOST_ATTRS
    if not (isinstance(attrs, tuple) and all(isinstance(a, str) and a.isidentifier() for a in attrs)):
        raise ValueError("unexpected HOST_ATTRS %r" % (attrs,))
    lines.append("Definition gen_host_attrs : list (list N) := [%s]." % "; ".join(_b(a) for a in attrs))
    h = sc.Host()
    defaults = []
    for k, v in h.__dict__.items():
        if v is None:
            kind = 0
        elif v == "":
            kind = 1
        else:
            raise ValueError("Host().%s has an unexpected default %r" % (k, v))
        defaults.append("(%s, %d)" % (_b(k), kind))
    lines.append("Definition gen_host_defaults : list (list N * N) := [%s]." % "; ".join(defaults))

    # the pattern translation
    f = _find_func(tree, "SSHConfig", "_lookup_fuzzy_match")
    expr = compile(ast.Expression(_assign_value(f, "cleaned_host_pattern")), "<cleaned_host_pattern>", "eval")

    def clean(p):
        return eval(expr, {"re": re, "host_pattern": p})  # noqa: S307 — the source's own expression

    comp = _assign_value(f, "search_pattern")
    if not (isinstance(comp, ast.Call) and isinstance(comp.func, ast.Attribute) and comp.func.attr == "compile"
            and isinstance(comp.func.value, ast.Name) and comp.func.value.id == "re"):
        raise ValueError("search_pattern is not built by re.compile")
    flags = 0
    for kw in comp.keywords:
        if kw.arg == "flags":
            flags = int(eval(compile(ast.Expression(kw.value), "<flags>", "eval"), {"re": re}))
    if len(comp.args) > 1:
        flags = int(eval(compile(ast.Expression(comp.args[1]), "<flags>", "eval"), {"re": re}))
    res = _assign_value(f, "result")
    if not (isinstance(res, ast.Call) and isinstance(res.func, ast.Attribute)
            and isinstance(res.func.value, ast.Name) and res.func.value.id == "re"):
        raise ValueError("result is not produced by an re.<function> call")
    fn = {"search": 0, "match": 1, "fullmatch": 2}.get(res.func.attr)
    if fn is None:
        raise ValueError("unknown matching function re.%s" % res.func.attr)
    classes = []
    for i in range(33, 127):
        c = chr(i)
        rx = re.compile(clean(c), flags)
        classes.append("(%d, %d)" % (i, _classify(rx, c)))
    for p in ["a*b?c.d", "sw-[1]+(x)|y$^{2}", "*.example.com", "??*a", "10.0.*.?"]:
        if clean(p) != "".join(clean(c) for c in p):
            raise ValueError("the pattern translation is not character-wise on %r: %r" % (p, clean(p)))
    lines.append("Definition gen_tok_class : list (N * N) := [%s]." % "; ".join(classes))
    lines.append("Definition gen_match_fn : N := %d." % fn)
    lines.append("Definition gen_flags : N := %d." % flags)
    lines.append("Definition gen_flag_ignorecase : N := %d." % int(re.I))

    # best-match comparison:  if chars_replaced < best_match_chars_replaced
    cmps = [n for n in ast.walk(f) if isinstance(n, ast.Compare) and isinstance(n.left, ast.Name)
            and n.left.id == "chars_replaced"]
    if len(cmps) != 1 or len(cmps[0].ops) != 1 or not isinstance(cmps[0].comparators[0], ast.Name) \
            or cmps[0].comparators[0].id != "best_match_chars_replaced":
        raise ValueError("best-match comparison not found in the expected shape")
    op = {"Lt": 0, "LtE": 1, "Gt": 2, "GtE": 3}.get(type(cmps[0].ops[0]).__name__)
    if op is None:
        raise ValueError("unknown best-match comparison %s" % type(cmps[0].ops[0]).__name__)
    lines.append("Definition gen_best_cmp : N := %d." % op)

    # SSHKnownHosts.lookup / _parse constants
    kl = _find_func(tree, "SSHKnownHosts", "lookup")
    consts = [n.value for n in ast.walk(kl) if isinstance(n, ast.Constant) and isinstance(n.value, str)
              and n is not getattr(kl.body[0], "value", None)]
    for need in ("|1|", "|", "sha1"):
        if need not in consts:
            raise ValueError("SSHKnownHosts.lookup no longer mentions %r" % need)
    kp = _find_func(tree, "SSHKnownHosts", "_parse")
    seps = [n.args[0].value for n in ast.walk(kp) if isinstance(n, ast.Call) and isinstance(n.func, ast.Attribute)
            and n.func.attr == "split" and n.args and isinstance(n.args[0], ast.Constant)]
    if seps != [","]:
        raise ValueError("SSHKnownHosts._parse splits the host field on %r" % (seps,))
    lines.append("Definition gen_kh_prefix : list N := %s." % _b("|1|"))
    lines.append("Definition gen_kh_bar : N := %d." % ord("|"))
    lines.append("Definition gen_kh_comma : N := %d." % ord(seps[0]))
    text = "\n".join(lines) + "\n"
    path = os.path.join(outdir, "Gen_SshConfig.v")
    if not os.path.exists(path) or open(path).read() != text:
        open(path, "w").write(text)
    return path, {"host_attrs": list(attrs), "match_fn": res.func.attr, "flags": flags,
                  "best_cmp": type(cmps[0].ops[0]).__name__, "classified_chars": len(classes)}


if __name__ == "__main__":
    common.setup_env()
    print(generate(sys.argv[1]))
