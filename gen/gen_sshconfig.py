"""Gen_SshConfig.v — facts of scrapli/ssh_config.py of the current source tree (fail-closed).

* HOST_ATTRS (the options _merge_hosts inherits) and the defaults of Host()
* the Host-pattern -> regex translation of _lookup_fuzzy_match: the expression assigned to
  `cleaned_host_pattern` is taken out of the source with `ast`, evaluated for every printable
  ASCII character, compiled with the flags the source passes to re.compile, and each character is
  classified BY BEHAVIOUR under CPython's re (literal, case-insensitive / (.*) group / (.) group);
  the translation must be character-wise (checked on multi-character samples)
* which re function does the matching (search / match / fullmatch) and the comparison operator of
  the best-match choice
* the constants of SSHKnownHosts.lookup ("|1|", "|", "sha1", ",")
* the per-path cache: ssh_config_factory keys SSHConfig._config_files by the path it is given and
  stores the object it parsed from that path; and whether anything WRITES to the live Host object
  SSHConfig.lookup hands out of the cached parse (scrapli/ssh_config.py lookup/_lookup_fuzzy_match
  themselves, and every function of ssh_config.py / driver/base/base_driver.py that binds the
  result of a `.lookup(...)` call): attribute store / delete / augmented assignment, setattr /
  delattr.  Any other use of the result than reading an attribute (passing it on, aliasing,
  returning it, calling a method, __dict__) aborts the generation: fail-closed.
"""
import ast
import os
import re
import sys

from harness import common


def _b(s):
    return "[" + ";".join(str(x) for x in s.encode("ascii")) + "]"


def _find_func(tree, cls, name):
    for node in tree.body:
        if isinstance(node, ast.ClassDef) and node.name == cls:
            for f in node.body:
                if isinstance(f, ast.FunctionDef) and f.name == name:
                    return f
    raise ValueError("%s.%s not found" % (cls, name))


def _assign_value(func, target):
    vals = [n.value for n in ast.walk(func) if isinstance(n, ast.Assign) and len(n.targets) == 1
            and isinstance(n.targets[0], ast.Name) and n.targets[0].id == target]
    if len(vals) != 1:
        raise ValueError("expected exactly one assignment to %s, found %d" % (target, len(vals)))
    return vals[0]


def _classify(rx, c):
    """0 literal (case-insensitive, ASCII) / 1 star group / 2 one-char group; anything else aborts"""
    asc = [chr(i) for i in range(128)]
    if rx.groups == 0:
        ok = all((rx.fullmatch(x) is not None) == (x.lower() == c.lower()) for x in asc)
        if ok and rx.fullmatch("") is None and rx.fullmatch(c + c) is None:
            return 0
    elif rx.groups == 1:
        m = rx.fullmatch("ab")
        if (rx.fullmatch("") is not None and m is not None and m.group(1) == "ab"
                and rx.fullmatch("a\nb") is None and rx.fullmatch("x" * 7).group(1) == "x" * 7):
            return 1
        if (rx.fullmatch("") is None and rx.fullmatch("ab") is None and rx.fullmatch("\n") is None
                and all(rx.fullmatch(x) is not None and rx.fullmatch(x).group(1) == x for x in asc if x != "\n")):
            return 2
    raise ValueError("pattern character %r translates to a regex of unknown behaviour: %r" % (c, rx.pattern))


MUTATING_METHODS = {"update", "pop", "clear", "setdefault", "popitem", "__setitem__", "__setattr__", "__delattr__",
                    "__delitem__", "_merge_hosts", "_parse", "append", "extend", "insert", "remove", "sort"}


def _parents(tree):
    par = {}
    for n in ast.walk(tree):
        for c in ast.iter_child_nodes(n):
            par[c] = n
    return par


def _funcs(tree):
    return [n for n in ast.walk(tree) if isinstance(n, (ast.FunctionDef, ast.AsyncFunctionDef))]


def _is_lookup_call(n):
    return isinstance(n, ast.Call) and isinstance(n.func, ast.Attribute) and n.func.attr == "lookup"


def lookup_result_writes(tree, label, skip_classes=()):
    """attribute names written on an object bound from `<x>.lookup(...)`, in every function of the module"""
    par = _parents(tree)
    written = []
    skip = set()
    for node in tree.body:
        if isinstance(node, ast.ClassDef) and node.name in skip_classes:
            skip.update(id(x) for x in ast.walk(node))
    for f in _funcs(tree):
        if id(f) in skip:
            continue
        names = set()
        for n in ast.walk(f):
            if _is_lookup_call(n):
                p = par.get(n)
                if (isinstance(p, ast.Assign) and p.value is n and len(p.targets) == 1 and isinstance(p.targets[0], ast.Name)):
                    names.add(p.targets[0].id)
                elif isinstance(p, ast.AnnAssign) and p.value is n and isinstance(p.target, ast.Name):
                    names.add(p.target.id)
                else:
                    raise ValueError("%s:%s: the result of .lookup() is used without being bound to a name (line %d)"
                                     % (label, f.name, n.lineno))
        if not names:
            continue
        for n in ast.walk(f):
            if not (isinstance(n, ast.Name) and n.id in names):
                continue
            p = par.get(n)
            if isinstance(n.ctx, ast.Store):
                if isinstance(p, (ast.Assign, ast.AnnAssign)) and _is_lookup_call(p.value):
                    continue
                raise ValueError("%s:%s: %s is rebound (line %d)" % (label, f.name, n.id, n.lineno))
            if isinstance(p, ast.Attribute) and p.value is n:
                if isinstance(p.ctx, (ast.Store, ast.Del)):
                    written.append(p.attr)
                    continue
                pp = par.get(p)
                if isinstance(pp, ast.AugAssign) and pp.target is p:
                    written.append(p.attr)
                    continue
                if p.attr.startswith("__") or (isinstance(pp, ast.Call) and pp.func is p):
                    raise ValueError("%s:%s: %s.%s is not a plain attribute read (line %d)" % (label, f.name, n.id, p.attr, n.lineno))
                continue
            if isinstance(p, ast.Call) and isinstance(p.func, ast.Name) and p.func.id in ("setattr", "delattr") \
                    and p.args and p.args[0] is n:
                a = p.args[1] if len(p.args) > 1 else None
                written.append(a.value if isinstance(a, ast.Constant) and isinstance(a.value, str) else "?")
                continue
            if isinstance(p, ast.Call) and isinstance(p.func, ast.Name) and p.func.id in ("getattr", "hasattr", "bool", "repr", "str") \
                    and p.args and p.args[0] is n:
                continue
            raise ValueError("%s:%s: the object returned by lookup (%s) escapes (line %d): only attribute reads are understood"
                             % (label, f.name, n.id, n.lineno))
    return written


def read_only_function(func, label):
    """stores performed by a function that must only read (SSHConfig.lookup / _lookup_fuzzy_match)"""
    bad = []
    # names only ever bound to a fresh list / dict literal in this function: private scratch
    binds = {}
    for n in ast.walk(func):
        if isinstance(n, ast.Assign):
            for t in n.targets:
                if isinstance(t, ast.Name):
                    binds.setdefault(t.id, []).append(isinstance(n.value, (ast.List, ast.Dict, ast.ListComp, ast.DictComp)))
    scratch = {k for k, v in binds.items() if all(v)}

    def root(e):
        while isinstance(e, (ast.Attribute, ast.Subscript, ast.Call)):
            e = e.func if isinstance(e, ast.Call) else e.value
        return e.id if isinstance(e, ast.Name) else None
    for n in ast.walk(func):
        if isinstance(n, (ast.Attribute, ast.Subscript)) and isinstance(n.ctx, (ast.Store, ast.Del)):
            bad.append("%s:store@%d" % (label, n.lineno))
        if isinstance(n, ast.Call):
            if isinstance(n.func, ast.Name) and n.func.id in ("setattr", "delattr"):
                bad.append("%s:%s@%d" % (label, n.func.id, n.lineno))
            if isinstance(n.func, ast.Attribute) and n.func.attr in MUTATING_METHODS and root(n.func.value) not in scratch:
                bad.append("%s:.%s()@%d" % (label, n.func.attr, n.lineno))
        if isinstance(n, (ast.Global, ast.Nonlocal)):
            bad.append("%s:global@%d" % (label, n.lineno))
    return bad


def factory_keyed_by_path(tree):
    """ssh_config_factory(path): membership test, read and store of SSHConfig._config_files all use the
    parameter as the key; the stored object is SSHConfig(<the parameter>)"""
    fs = [n for n in tree.body if isinstance(n, ast.FunctionDef) and n.name == "ssh_config_factory"]
    if len(fs) != 1 or len(fs[0].args.args) != 1:
        raise ValueError("ssh_config_factory not found in the expected shape")
    f = fs[0]
    param = f.args.args[0].arg
    ok = True
    subs = [n for n in ast.walk(f) if isinstance(n, ast.Subscript)]
    stores = [n for n in subs if isinstance(n.ctx, ast.Store)]
    loads = [n for n in subs if isinstance(n.ctx, ast.Load)]
    if len(stores) != 1 or not loads:
        raise ValueError("ssh_config_factory: expected one store into the cache and a read of it")
    for n in subs:
        ok = ok and isinstance(n.slice, ast.Name) and n.slice.id == param
    cmps = [n for n in ast.walk(f) if isinstance(n, ast.Compare)]
    if len(cmps) != 1 or len(cmps[0].ops) != 1 or not isinstance(cmps[0].ops[0], ast.In):
        raise ValueError("ssh_config_factory: expected exactly one `in` test")
    ok = ok and isinstance(cmps[0].left, ast.Name) and cmps[0].left.id == param
    ctor = [n for n in ast.walk(f) if isinstance(n, ast.Call) and isinstance(n.func, ast.Name) and n.func.id == "SSHConfig"]
    if len(ctor) != 1:
        raise ValueError("ssh_config_factory: expected exactly one SSHConfig(...) call")
    cargs = list(ctor[0].args) + [k.value for k in ctor[0].keywords]
    ok = ok and len(cargs) == 1 and isinstance(cargs[0], ast.Name) and cargs[0].id == param
    # the stored value is the constructed object
    st = [n for n in ast.walk(f) if isinstance(n, ast.Assign) and any(t is stores[0] for t in n.targets)]
    bound = [n.targets[0].id for n in ast.walk(f) if isinstance(n, ast.Assign) and n.value is ctor[0]
             and len(n.targets) == 1 and isinstance(n.targets[0], ast.Name)]
    ok = ok and len(st) == 1 and ((isinstance(st[0].value, ast.Name) and st[0].value.id in bound) or st[0].value is ctor[0])
    return ok


def generate(outdir):
    path_src = os.path.join(common.REPO, "scrapli", "ssh_config.py")
    src = open(path_src).read()
    tree = ast.parse(src)
    import scrapli.ssh_config as sc

    lines = ["(* generated from scrapli/ssh_config.py by gen/gen_sshconfig.py — do not edit *)",
             "From Coq Require Import NArith List.", "Import ListNotations.", "Open Scope N_scope."]
    # HOST_ATTRS and Host() defaults
    attrs = sc.HOST_ATTRS
    if not (isinstance(attrs, tuple) and all(isinstance(a, str) and a.isidentifier() for a in attrs)):
        raise ValueError("unexpected HOST_ATTRS %r" % (attrs,))
    lines.append("Definition gen_host_attrs : list (list N) := [%s]." % "; ".join(_b(a) for a in attrs))
    h = sc.Host()
    defaults = []
    for k, v in h.__dict__.items():
        if v is None:
            kind = 0
        elif v == "":
            kind = 1
        else:
            raise ValueError("Host().%s has an unexpected default %r" % (k, v))
        defaults.append("(%s, %d)" % (_b(k), kind))
    lines.append("Definition gen_host_defaults : list (list N * N) := [%s]." % "; ".join(defaults))

    # the pattern translation
    f = _find_func(tree, "SSHConfig", "_lookup_fuzzy_match")
    expr = compile(ast.Expression(_assign_value(f, "cleaned_host_pattern")), "<cleaned_host_pattern>", "eval")

    def clean(p):
        return eval(expr, {"re": re, "host_pattern": p})  # noqa: S307 — the source's own expression

    comp = _assign_value(f, "search_pattern")
    if not (isinstance(comp, ast.Call) and isinstance(comp.func, ast.Attribute) and comp.func.attr == "compile"
            and isinstance(comp.func.value, ast.Name) and comp.func.value.id == "re"):
        raise ValueError("search_pattern is not built by re.compile")
    flags = 0
    for kw in comp.keywords:
        if kw.arg == "flags":
            flags = int(eval(compile(ast.Expression(kw.value), "<flags>", "eval"), {"re": re}))
    if len(comp.args) > 1:
        flags = int(eval(compile(ast.Expression(comp.args[1]), "<flags>", "eval"), {"re": re}))
    res = _assign_value(f, "result")
    if not (isinstance(res, ast.Call) and isinstance(res.func, ast.Attribute)
            and isinstance(res.func.value, ast.Name) and res.func.value.id == "re"):
        raise ValueError("result is not produced by an re.<function> call")
    fn = {"search": 0, "match": 1, "fullmatch": 2}.get(res.func.attr)
    if fn is None:
        raise ValueError("unknown matching function re.%s" % res.func.attr)
    classes = []
    for i in range(33, 127):
        c = chr(i)
        rx = re.compile(clean(c), flags)
        classes.append("(%d, %d)" % (i, _classify(rx, c)))
    for p in ["a*b?c.d", "sw-[1]+(x)|y$^{2}", "*.example.com", "??*a", "10.0.*.?"]:
        if clean(p) != "".join(clean(c) for c in p):
            raise ValueError("the pattern translation is not character-wise on %r: %r" % (p, clean(p)))
    lines.append("Definition gen_tok_class : list (N * N) := [%s]." % "; ".join(classes))
    lines.append("Definition gen_match_fn : N := %d." % fn)
    lines.append("Definition gen_flags : N := %d." % flags)
    lines.append("Definition gen_flag_ignorecase : N := %d." % int(re.I))

    # best-match comparison:  if chars_replaced < best_match_chars_replaced
    cmps = [n for n in ast.walk(f) if isinstance(n, ast.Compare) and isinstance(n.left, ast.Name)
            and n.left.id == "chars_replaced"]
    if len(cmps) != 1 or len(cmps[0].ops) != 1 or not isinstance(cmps[0].comparators[0], ast.Name) \
            or cmps[0].comparators[0].id != "best_match_chars_replaced":
        raise ValueError("best-match comparison not found in the expected shape")
    op = {"Lt": 0, "LtE": 1, "Gt": 2, "GtE": 3}.get(type(cmps[0].ops[0]).__name__)
    if op is None:
        raise ValueError("unknown best-match comparison %s" % type(cmps[0].ops[0]).__name__)
    lines.append("Definition gen_best_cmp : N := %d." % op)

    # SSHKnownHosts.lookup / _parse constants
    kl = _find_func(tree, "SSHKnownHosts", "lookup")
    consts = [n.value for n in ast.walk(kl) if isinstance(n, ast.Constant) and isinstance(n.value, str)
              and n is not getattr(kl.body[0], "value", None)]
    for need in ("|1|", "|", "sha1"):
        if need not in consts:
            raise ValueError("SSHKnownHosts.lookup no longer mentions %r" % need)
    kp = _find_func(tree, "SSHKnownHosts", "_parse")
    seps = [n.args[0].value for n in ast.walk(kp) if isinstance(n, ast.Call) and isinstance(n.func, ast.Attribute)
            and n.func.attr == "split" and n.args and isinstance(n.args[0], ast.Constant)]
    if seps != [","]:
        raise ValueError("SSHKnownHosts._parse splits the host field on %r" % (seps,))
    lines.append("Definition gen_kh_prefix : list N := %s." % _b("|1|"))
    lines.append("Definition gen_kh_bar : N := %d." % ord("|"))
    lines.append("Definition gen_kh_comma : N := %d." % ord(seps[0]))
    # the per-path cache and the consumers of the live object lookup returns
    path_drv = os.path.join(common.REPO, "scrapli", "driver", "base", "base_driver.py")
    writes = lookup_result_writes(ast.parse(open(path_drv).read()), "base_driver.py")
    writes += lookup_result_writes(tree, "ssh_config.py", skip_classes=("SSHKnownHosts",))
    writes += read_only_function(_find_func(tree, "SSHConfig", "lookup"), "SSHConfig.lookup")
    writes += read_only_function(f, "SSHConfig._lookup_fuzzy_match")
    keyed = factory_keyed_by_path(tree)
    lines.append("Definition gen_lookup_result_written : bool := %s." % ("true" if writes else "false"))
    lines.append("Definition gen_factory_keyed_by_path : bool := %s." % ("true" if keyed else "false"))
    text = "\n".join(lines) + "\n"
    path = os.path.join(outdir, "Gen_SshConfig.v")
    if not os.path.exists(path) or open(path).read() != text:
        open(path, "w").write(text)
    return path, {"host_attrs": list(attrs), "match_fn": res.func.attr, "flags": flags,
                  "best_cmp": type(cmps[0].ops[0]).__name__, "classified_chars": len(classes),
                  "lookup_result_writes": sorted(set(writes)), "factory_keyed_by_path": keyed}


if __name__ == "__main__":
    common.setup_env()
    print(generate(sys.argv[1]))
