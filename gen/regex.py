"""Translate a Python regular expression into the Coq AST of coq/base/Regex.v (DESIGN.md A.1).

Uses CPython's OWN parser (re._parser.parse) and, for every character-class atom, CPython's own
compiler: the atom's parsed op is compiled on its own and asked which of the 256 one-character
strings it matches under the pattern's flags.  Case-insensitivity, str-vs-bytes \\w and escapes are
therefore exactly Python's.  Fail-closed: any op / flag / value not known here raises Unsupported."""
import re
import re._compiler as _compiler
import re._constants as C
import re._parser as _parser


class Unsupported(Exception):
    pass


ATOM_OPS = (C.LITERAL, C.NOT_LITERAL, C.ANY, C.IN)


class Tr:
    """AST nodes as tuples:
    ("emp",) ("eps",) ("bol",) ("eol",) ("cls", frozenset of ints) ("cat", [..]) ("alt", [..])
    ("rep", node, min, max|None, greedy)"""

    def __init__(self, pattern, flags):
        self.is_bytes = isinstance(pattern, (bytes, bytearray))
        self.flags = flags
        allowed = re.M | re.I | re.S | re.X | re.U | re.A
        if flags & ~allowed:
            raise Unsupported("flags %r" % flags)
        self.parsed = _parser.parse(pattern, flags)
        # flags may be extended by inline (?i) etc.
        self.pflags = self.parsed.state.flags
        if (self.pflags & ~allowed):
            raise Unsupported("inline flags %r" % self.pflags)
        self._cache = {}
        self.node = self.seq(self.parsed)

    def members(self, op, av):
        key = repr((op, av))
        if key in self._cache:
            return self._cache[key]
        sp = _parser.SubPattern(self.parsed.state, [(op, av)])
        pat = _compiler.compile(sp, self.pflags & (re.I | re.S | re.U | re.A | re.M))
        out = set()
        for b in range(256):
            ch = bytes([b]) if self.is_bytes else chr(b)
            if pat.fullmatch(ch):
                out.add(b)
        if op is C.LITERAL and av > 255:
            raise Unsupported("literal beyond latin-1: %r" % av)
        self._cache[key] = frozenset(out)
        return self._cache[key]

    def seq(self, sub):
        items = [self.one(op, av) for op, av in sub]
        items = [i for i in items if i != ("eps",)]
        if not items:
            return ("eps",)
        if len(items) == 1:
            return items[0]
        return ("cat", items)

    def one(self, op, av):
        if op in ATOM_OPS:
            return ("cls", self.members(op, av))
        if op is C.AT:
            if av is C.AT_BEGINNING:
                if not self.pflags & re.M:
                    raise Unsupported("^ without re.M")
                return ("bol",)
            if av is C.AT_END:
                if not self.pflags & re.M:
                    raise Unsupported("$ without re.M")
                return ("eol",)
            raise Unsupported("AT %r" % (av,))
        if op is C.SUBPATTERN:
            group, add_flags, del_flags, p = av
            if add_flags or del_flags:
                raise Unsupported("scoped flags")
            return self.seq(p)
        if op is C.BRANCH:
            _, branches = av
            return ("alt", [self.seq(b) for b in branches])
        if op in (C.MAX_REPEAT, C.MIN_REPEAT):
            mn, mx, p = av
            if mx is C.MAXREPEAT:
                mx = None
            if mn > 3000 or (mx is not None and mx > 3000):
                raise Unsupported("repeat bound too large")
            return ("rep", self.seq(p), int(mn), None if mx is None else int(mx), op is C.MAX_REPEAT)
        raise Unsupported("op %r" % (op,))


def ranges(s):
    out, run = [], None
    for b in sorted(s):
        if run and b == run[1] + 1:
            run[1] = b
        else:
            run = [b, b]
            out.append(run)
    return [(a, b) for a, b in out]


def to_coq(node):
    k = node[0]
    if k == "emp":
        return "Emp"
    if k == "eps":
        return "Eps"
    if k == "bol":
        return "Bol"
    if k == "eol":
        return "Eol"
    if k == "cls":
        return "(Cls [%s])" % "; ".join("(%d, %d)" % r for r in ranges(node[1]))
    if k == "cat":
        items = node[1]
        s = to_coq(items[-1])
        for it in reversed(items[:-1]):
            s = "(Cat %s %s)" % (to_coq(it), s)
        return s
    if k == "alt":
        items = node[1]
        s = to_coq(items[-1])
        for it in reversed(items[:-1]):
            s = "(Alt %s %s)" % (to_coq(it), s)
        return s
    if k == "rep":
        _, a, mn, mx, g = node
        return "(Rep %s %d%%nat %s %s)" % (to_coq(a), mn, "None" if mx is None else "(Some %d%%nat)" % mx,
                                          "true" if g else "false")
    raise Unsupported(k)


def relax(node):
    """a superset of the node's language without length counters: every repeat with a bound above 1 becomes
    unbounded (minimum 0 or 1).  Used as a search hint only; the claim `language(node) inside language(relax(node))`
    is decided by the Coq checker before it is used."""
    k = node[0]
    if k in ("cat", "alt"):
        return (k, [relax(i) for i in node[1]])
    if k == "rep":
        _, a, mn, mx, g = node
        if mx is None or mx > 1:
            return ("rep", relax(a), min(mn, 1), None, g)
        return ("rep", relax(a), mn, mx, g)
    return node


def translate(pattern, flags):
    """returns (coq term, ast node)"""
    t = Tr(pattern, flags)
    return to_coq(t.node), t.node


def classes(node, acc=None):
    acc = [] if acc is None else acc
    k = node[0]
    if k == "cls":
        if node[1] not in acc:
            acc.append(node[1])
    elif k in ("cat", "alt"):
        for it in node[1]:
            classes(it, acc)
    elif k == "rep":
        classes(node[1], acc)
    return acc


def atoms(class_sets):
    """partition 0..255 by membership signature over the given classes, newline its own atom"""
    sig = {}
    for b in range(256):
        key = (b == 10,) + tuple(b in s for s in class_sets)
        sig.setdefault(key, []).append(b)
    return [(v[0], v) for v in sig.values()]


# ---- sampling strings from an AST (members and near-misses) for the conformance suite ----------
def sample(node, rng, depth=0):
    k = node[0]
    if k in ("emp",):
        return b""
    if k == "eps":
        return b""
    if k == "bol":
        return b"" if rng.random() < 0.8 else b"\n"
    if k == "eol":
        return b"" if rng.random() < 0.8 else b"\n"
    if k == "cls":
        s = sorted(node[1])
        if not s:
            return b""
        # favour printable ascii members
        pr = [b for b in s if 32 <= b < 127]
        pool = pr if pr and rng.random() < 0.85 else s
        return bytes([rng.choice(pool)])
    if k == "cat":
        return b"".join(sample(i, rng, depth + 1) for i in node[1])
    if k == "alt":
        return sample(rng.choice(node[1]), rng, depth + 1)
    if k == "rep":
        _, a, mn, mx, g = node
        hi = mx if mx is not None else mn + 4
        choices = [mn, mn, min(mn + 1, hi), hi, rng.randint(mn, hi)]
        if mx is not None and rng.random() < 0.15:
            choices.append(mx + 1)          # just over the bound: near-miss
        if mn > 0 and rng.random() < 0.1:
            choices.append(mn - 1)
        n = rng.choice(choices)
        if n > 80:
            n = rng.choice([mn, hi]) if hi <= 80 else mn
        return b"".join(sample(a, rng, depth + 1) for _ in range(n))
    raise Unsupported(k)


def mutate(s, rng, alphabet):
    if not s or rng.random() < 0.2:
        pos = rng.randint(0, len(s))
        return s[:pos] + bytes([rng.choice(alphabet)]) + s[pos:]
    pos = rng.randrange(len(s))
    r = rng.random()
    if r < 0.4:
        return s[:pos] + s[pos + 1:]
    if r < 0.8:
        return s[:pos] + bytes([rng.choice(alphabet)]) + s[pos + 1:]
    return s[:pos] + bytes([rng.choice(alphabet)]) + s[pos:]
