"""Gen_Lock.v — the lock structure of the channel classes of the current source tree (fail-closed).

Read with `ast` from scrapli/channel/{sync_channel,async_channel,base_channel}.py:
  * the `_channel_lock` context manager of Channel and AsyncChannel as a `cmsh` term (Lock.v): which of
    acquire / yield / release happen in which order, under `with` / `try-finally` / `if self.channel_lock`;
  * every public channel operation (public method of the class that reaches the transport, the I/O
    primitives read / write / send_return excepted) as a `shape` term: control flow skeleton with every
    call that reaches `self.transport.<method>()` — directly or through any helper method of the class
    or of BaseChannel, which are inlined — and every `with self._channel_lock()` / `async with`;
  * whether `__init__` creates `channel_lock` exactly when `_base_channel_args.channel_lock` is true,
    with threading.Lock / asyncio.Lock;
  * whether anything but `__init__` — any method of the class or of BaseChannel, reachable or not: open(),
    close(), ... — or any code of ANY other module of the package (scrapli/**/*.py: drivers — commandeer(),
    open(), close() —, factory, transports, ...: `x.channel_lock = ...`, `del`, setattr / delattr) binds or
    deletes `channel_lock` (`gen_lock_rebound_*`: the lock object's identity does not survive a re-open /
    a commandeer / ...; Lock.v layer D);
  * whether a public operation writes channel STATE -- any attribute of self: the held-back partial escape sequence,
    buffers, ... -- outside its lock section, directly or through helpers (`gen_state_written_outside_lock_*`, StateScan).
Anything the translator does not know (statement kinds, other context managers, aliasing of the
transport or of an I/O method, decorators, recursion between helpers) aborts the generation."""
import ast
import os
import sys

PRIMITIVES = ("read", "write", "send_return")
EXPECTED_OPS = ["channel_authenticate_ssh", "channel_authenticate_telnet", "get_prompt", "send_input",
                "send_input_and_read", "send_inputs_interact"]
KNOWN_DECORATORS = {"timeout_wrapper", "staticmethod", "lru_cache", "property", "contextmanager",
                    "asynccontextmanager", "classmethod"}
FUNC = (ast.FunctionDef, ast.AsyncFunctionDef)


class Unsupported(Exception):
    pass


def repo():
    return os.environ.get("VERIF_REPO", "/repo")


def parse(rel):
    with open(os.path.join(repo(), rel)) as f:
        return ast.parse(f.read(), rel)


def find_class(tree, name):
    for n in tree.body:
        if isinstance(n, ast.ClassDef) and n.name == name:
            return n
    raise Unsupported("class %s not found" % name)


def deco_names(fn):
    out = []
    for d in fn.decorator_list:
        if isinstance(d, ast.Call):
            d = d.func
        if isinstance(d, ast.Name):
            out.append(d.id)
        elif isinstance(d, ast.Attribute):
            out.append(d.attr)
        else:
            raise Unsupported("decorator of %s: %s" % (fn.name, ast.dump(d)))
    return out


def is_self_attr(node, attr=None):
    return (isinstance(node, ast.Attribute) and isinstance(node.value, ast.Name) and node.value.id == "self"
            and (attr is None or node.attr == attr))


# ---------------------------------------------------------------------------------------------
# shapes as nested tuples:  ("io", k) ("local",) ("skip",) ("seq", a, b) ("alt", a, b) ("loop", b)
# ("try", b, h) ("finally", b, f) ("lock", b) ("call", b) ("raise",) ("return",) ("break",) ("continue",)
# ---------------------------------------------------------------------------------------------
SKIP, LOCAL = ("skip",), ("local",)


def seq(*xs):
    xs = [x for x in xs if x != SKIP]
    if not xs:
        return SKIP
    out = xs[-1]
    for x in reversed(xs[:-1]):
        if x == LOCAL and (out == LOCAL or (out[0] == "seq" and out[1] == LOCAL)):
            continue            # two local computations in a row are one
        out = ("seq", x, out)
    return out


def alt(a, b):
    return a if a == b else ("alt", a, b)


def has_io(s):
    if s[0] == "io":
        return True
    return any(has_io(x) for x in s[1:] if isinstance(x, tuple))


class Translator:
    def __init__(self, cls_name, methods, props):
        self.cls = cls_name
        self.methods = methods      # name -> FunctionDef (own methods override BaseChannel's)
        self.props = props          # property names
        self.memo = {}
        self.stack = []
        self.sites = []             # (method, line, kind) of every transport call

    # -- methods ------------------------------------------------------------------------------
    def method_shape(self, name):
        if name in self.memo:
            return self.memo[name]
        if name in self.stack:
            raise Unsupported("recursion between channel methods: %s" % " -> ".join(self.stack + [name]))
        fn = self.methods[name]
        self.stack.append(name)
        try:
            s = self.block(fn.body)
        finally:
            self.stack.pop()
        self.memo[name] = s
        return s

    # -- statements ---------------------------------------------------------------------------
    def block(self, stmts):
        return seq(*[self.stmt(s) for s in stmts])

    def stmt(self, n):
        if isinstance(n, ast.Expr):
            if isinstance(n.value, ast.Constant):
                return SKIP
            return self.expr(n.value)
        if isinstance(n, ast.Assign):
            return seq(self.expr(n.value), *[self.target(t) for t in n.targets])
        if isinstance(n, ast.AnnAssign):
            return seq(self.expr(n.value) if n.value is not None else SKIP, self.target(n.target))
        if isinstance(n, ast.AugAssign):
            return seq(self.target(n.target), self.expr(n.value), LOCAL)
        if isinstance(n, ast.Return):
            return seq(self.expr(n.value) if n.value is not None else SKIP, ("return",))
        if isinstance(n, ast.Raise):
            return seq(self.expr(n.exc) if n.exc is not None else SKIP, ("raise",))
        if isinstance(n, ast.If):
            return seq(self.expr(n.test), alt(self.block(n.body), self.block(n.orelse)))
        if isinstance(n, ast.While):
            if n.orelse:
                raise Unsupported("while-else at line %d" % n.lineno)
            return ("loop", seq(self.expr(n.test), self.block(n.body)))
        if isinstance(n, (ast.For, ast.AsyncFor)):
            if n.orelse:
                raise Unsupported("for-else at line %d" % n.lineno)
            return seq(self.expr(n.iter), ("loop", seq(self.target(n.target), self.block(n.body))))
        if isinstance(n, (ast.With, ast.AsyncWith)):
            body = self.block(n.body)
            for item in reversed(n.items):
                body = self.with_item(item, body, n)
            return body
        if isinstance(n, ast.Try):
            body = self.block(n.body)
            if n.orelse:
                body = seq(body, self.block(n.orelse))
            if n.handlers:
                h = None
                for hd in n.handlers:
                    hs = seq(self.expr(hd.type) if hd.type is not None else SKIP, self.block(hd.body))
                    h = hs if h is None else alt(h, hs)
                body = ("try", body, h)
            if n.finalbody:
                body = ("finally", body, self.block(n.finalbody))
            return body
        if isinstance(n, ast.Pass):
            return SKIP
        if isinstance(n, ast.Break):
            return ("break",)
        if isinstance(n, ast.Continue):
            return ("continue",)
        if isinstance(n, ast.Assert):
            return seq(self.expr(n.test), LOCAL)
        raise Unsupported("statement %s at line %d of %s" % (type(n).__name__, n.lineno, self.cls))

    def target(self, t):
        if isinstance(t, ast.Name):
            return SKIP
        if isinstance(t, (ast.Tuple, ast.List)):
            return seq(*[self.target(x) for x in t.elts])
        if isinstance(t, ast.Attribute):
            if is_self_attr(t, "transport") or (is_self_attr(t) and t.attr in self.methods):
                raise Unsupported("assignment to self.%s at line %d" % (t.attr, t.lineno))
            # (an assignment to self.channel_lock is not a transport event: it is accounted for by lock_rebound)
            return self.expr(t.value)
        if isinstance(t, ast.Subscript):
            return seq(self.expr(t.value), self.expr(t.slice))
        if isinstance(t, ast.Starred):
            return self.target(t.value)
        raise Unsupported("assignment target %s" % type(t).__name__)

    def with_item(self, item, body, n):
        ce = item.context_expr
        if isinstance(ce, ast.Call) and is_self_attr(ce.func, "_channel_lock") and not ce.args and not ce.keywords:
            if item.optional_vars is not None:
                raise Unsupported("with self._channel_lock() as ... at line %d" % n.lineno)
            return ("lock", body)
        if isinstance(ce, ast.Call) and isinstance(ce.func, ast.Name) and ce.func.id == "suppress":
            return seq(*[self.expr(a) for a in ce.args], ("try", body, SKIP))
        raise Unsupported("context manager %s at line %d of %s" % (ast.unparse(ce), n.lineno, self.cls))

    # -- expressions --------------------------------------------------------------------------
    def expr(self, e):
        if e is None:
            return SKIP
        if isinstance(e, ast.Await):
            return self.expr(e.value)
        if isinstance(e, ast.Call):
            return self.call(e)
        if isinstance(e, ast.BoolOp):
            out = self.expr(e.values[0])
            for v in e.values[1:]:
                out = seq(out, alt(self.expr(v), SKIP))
            return out
        if isinstance(e, ast.IfExp):
            return seq(self.expr(e.test), alt(self.expr(e.body), self.expr(e.orelse)))
        if isinstance(e, (ast.ListComp, ast.SetComp, ast.GeneratorExp, ast.DictComp)):
            parts = []
            for g in e.generators:
                parts.append(self.expr(g.iter))
            inner = [self.expr(c) for g in e.generators for c in g.ifs]
            if isinstance(e, ast.DictComp):
                inner += [self.expr(e.key), self.expr(e.value)]
            else:
                inner.append(self.expr(e.elt))
            return seq(*parts, ("loop", seq(*inner)))
        if isinstance(e, ast.Lambda):
            if has_io(self.expr(e.body)):
                raise Unsupported("lambda reaching the transport at line %d" % e.lineno)
            return SKIP
        if isinstance(e, ast.Attribute):
            if is_self_attr(e, "transport"):
                raise Unsupported("self.transport used as a value at line %d of %s" % (e.lineno, self.cls))
            if is_self_attr(e) and e.attr in self.methods and e.attr not in self.props:
                if has_io(self.method_shape(e.attr)):
                    raise Unsupported("I/O method self.%s used as a value at line %d" % (e.attr, e.lineno))
                return SKIP
            if is_self_attr(e) and e.attr in self.props:
                if has_io(self.method_shape(e.attr)):
                    raise Unsupported("property self.%s reaches the transport" % e.attr)
                return LOCAL
            # self.transport._base_transport_args and the like: plain attribute reads
            if isinstance(e.value, ast.Attribute) and is_self_attr(e.value, "transport"):
                if e.attr in ("read", "write", "close", "open", "isalive"):
                    raise Unsupported("transport method self.transport.%s used as a value at line %d" % (e.attr, e.lineno))
                return SKIP
            return self.expr(e.value)
        if isinstance(e, (ast.Name, ast.Constant)):
            return SKIP
        if isinstance(e, ast.JoinedStr):
            return seq(*[self.expr(v) for v in e.values])
        if isinstance(e, ast.FormattedValue):
            return self.expr(e.value)
        if isinstance(e, ast.NamedExpr):
            return self.expr(e.value)
        if isinstance(e, (ast.Yield, ast.YieldFrom)):
            raise Unsupported("yield inside a channel method at line %d" % e.lineno)
        # generic: children in source order, then a local computation that may raise
        kids = [self.expr(c) for c in ast.iter_child_nodes(e) if isinstance(c, ast.expr)]
        if isinstance(e, (ast.Tuple, ast.List, ast.Set, ast.Dict, ast.Starred, ast.keyword)):
            return seq(*kids)
        return seq(*kids, LOCAL)

    def call(self, e):
        f = e.func
        args = [self.expr(a) for a in e.args] + [self.expr(k.value) for k in e.keywords]
        # self.transport.<m>(...)
        if isinstance(f, ast.Attribute) and isinstance(f.value, ast.Attribute) and is_self_attr(f.value, "transport"):
            kind = {"read": 0, "write": 1}.get(f.attr, 2)
            self.sites.append((self.stack[-1] if self.stack else "?", e.lineno, f.attr))
            return seq(*args, ("io", kind))
        # self.<method>(...)
        if is_self_attr(f) and f.attr in self.methods:
            s = self.method_shape(f.attr)
            if not has_io(s):
                return seq(*args, LOCAL)
            return seq(*args, ("call", s))
        if is_self_attr(f, "_channel_lock"):
            raise Unsupported("self._channel_lock() outside a with statement at line %d" % e.lineno)
        return seq(self.expr(f), *args, LOCAL)


# ---------------------------------------------------------------------------------------------
# channel STATE written outside the lock section
# ---------------------------------------------------------------------------------------------
MUTATORS = {"append", "extend", "clear", "pop", "popleft", "appendleft", "update", "insert", "remove", "add", "discard",
            "setdefault", "put", "put_nowait", "truncate", "seek", "sort", "reverse", "popitem", "__setitem__", "__delitem__",
            "__setattr__", "__delattr__"}


def self_rooted(e):
    """`self.a`, `self.a.b`, `self.a[k]`, ...: the name of the attribute of self it is rooted at, else None"""
    first = None
    while isinstance(e, (ast.Attribute, ast.Subscript)):
        if isinstance(e, ast.Attribute) and isinstance(e.value, ast.Name) and e.value.id == "self":
            first = e.attr
        e = e.value
    return first if isinstance(e, ast.Name) and e.id == "self" else None


class StateScan:
    """every write to an attribute of the channel object (`self.x = / += / del`, `self.x[k] = `, `self.x.y = `, setattr /
    delattr / vars / __dict__ on self, a mutating method of an attribute: self.x.append() ..., self handed to a foreign
    callable) that an operation performs OUTSIDE its `with self._channel_lock()` section -- before it holds the lock or
    after it gave it up --, directly or through any helper method / property of the class (followed into their bodies).
    What a caller does there runs concurrently with the operation that holds the lock: the per-channel read state
    (held-back partial escape sequence, buffers) belongs to the holder."""

    def __init__(self, methods, props):
        self.methods, self.props = methods, props
        self.found = []
        self.stack = []
        self.done = set()

    def op(self, name):
        self.found = []
        self.done = set()
        self.method(name)
        return sorted(set(self.found))

    def method(self, name):
        if name in self.stack or name in self.done:
            return
        self.done.add(name)
        self.stack.append(name)
        try:
            for st in self.methods[name].body:
                self.walk(st)
        finally:
            self.stack.pop()

    def hit(self, node, what):
        self.found.append("%s:%d:%s" % (self.stack[-1], getattr(node, "lineno", 0), what))

    def targets(self, t):
        if isinstance(t, (ast.Tuple, ast.List)):
            for x in t.elts:
                self.targets(x)
        elif isinstance(t, ast.Starred):
            self.targets(t.value)
        elif isinstance(t, (ast.Attribute, ast.Subscript)):
            r = self_rooted(t)
            if r is not None:
                self.hit(t, "self.%s written" % r)

    def walk(self, n):
        if isinstance(n, (ast.With, ast.AsyncWith)):
            locked = False
            for item in n.items:
                ce = item.context_expr
                if isinstance(ce, ast.Call) and is_self_attr(ce.func, "_channel_lock"):
                    locked = True
                else:
                    self.walk(ce)
                if item.optional_vars is not None:
                    self.targets(item.optional_vars)
            if locked:
                return                      # the lock section: the holder's business
            for st in n.body:
                self.walk(st)
            return
        if isinstance(n, (ast.Assign, ast.Delete)):
            for t in n.targets:
                self.targets(t)
        elif isinstance(n, (ast.AugAssign, ast.AnnAssign, ast.For, ast.AsyncFor, ast.NamedExpr)):
            self.targets(n.target)
        elif isinstance(n, ast.comprehension):
            self.targets(n.target)
        elif isinstance(n, ast.Attribute):
            if is_self_attr(n, "__dict__"):
                self.hit(n, "self.__dict__ used")
            elif is_self_attr(n) and n.attr in self.props:
                self.method(n.attr)
        elif isinstance(n, ast.Call):
            f = n.func
            if isinstance(f, ast.Name) and f.id in ("setattr", "delattr", "vars") and n.args \
                    and isinstance(n.args[0], ast.Name) and n.args[0].id == "self":
                self.hit(n, "%s(self, ...)" % f.id)
            elif is_self_attr(f) and f.attr in self.methods:
                self.method(f.attr)
            elif isinstance(f, ast.Attribute) and f.attr in MUTATORS and self_rooted(f.value) is not None:
                self.hit(n, "self.%s mutated (.%s())" % (self_rooted(f.value), f.attr))
            elif not (is_self_attr(f) or self_rooted(f) is not None) and any(
                    isinstance(a, ast.Name) and a.id == "self" for a in list(n.args) + [k.value for k in n.keywords]):
                self.hit(n, "self handed to %s()" % ast.unparse(f))
        for c in ast.iter_child_nodes(n):
            self.walk(c)


# ---------------------------------------------------------------------------------------------
# the context manager
# ---------------------------------------------------------------------------------------------
def is_lock_attr(e):
    return is_self_attr(e, "channel_lock")


def cm_test(test):
    """True: `if <lock exists>`; False: `if <lock absent>`"""
    if is_lock_attr(test):
        return True
    if isinstance(test, ast.UnaryOp) and isinstance(test.op, ast.Not) and is_lock_attr(test.operand):
        return False
    if (isinstance(test, ast.Compare) and is_lock_attr(test.left) and len(test.ops) == 1
            and isinstance(test.comparators[0], ast.Constant) and test.comparators[0].value is None):
        if isinstance(test.ops[0], ast.IsNot):
            return True
        if isinstance(test.ops[0], ast.Is):
            return False
    raise Unsupported("test of the lock context manager: %s" % ast.unparse(test))


def cm_block(stmts):
    items = [cm_stmt(s) for s in stmts]
    items = [x for x in items if x is not None]
    if len(items) == 1:
        return items[0]
    return ("CSeq", items)


def cm_stmt(n):
    if isinstance(n, ast.Expr):
        v = n.value
        if isinstance(v, ast.Constant):
            return None
        if isinstance(v, ast.Yield):
            if v.value is not None:
                raise Unsupported("_channel_lock yields a value")
            return ("CYield",)
        if isinstance(v, ast.Await):
            v = v.value
        if isinstance(v, ast.Call) and isinstance(v.func, ast.Attribute) and is_lock_attr(v.func.value):
            if v.func.attr == "acquire":
                if v.args or v.keywords:
                    raise Unsupported("acquire with arguments in _channel_lock")
                return ("CAcq",)
            if v.func.attr == "release":
                return ("CRel",)
            raise Unsupported("self.channel_lock.%s in _channel_lock" % v.func.attr)
        if isinstance(v, ast.Call):
            for sub in ast.walk(v):
                if is_lock_attr(sub):
                    raise Unsupported("lock passed around in _channel_lock: %s" % ast.unparse(v))
            return ("CLocal",)
        raise Unsupported("expression statement in _channel_lock: %s" % ast.unparse(n))
    if isinstance(n, ast.If):
        pos = cm_test(n.test)
        t, e = cm_block(n.body), cm_block(n.orelse) if n.orelse else ("CSeq", [])
        return ("CIfLock", t, e) if pos else ("CIfLock", e, t)
    if isinstance(n, (ast.With, ast.AsyncWith)):
        if len(n.items) != 1 or not is_lock_attr(n.items[0].context_expr) or n.items[0].optional_vars is not None:
            raise Unsupported("with statement in _channel_lock: %s" % ast.unparse(n.items[0].context_expr))
        return ("CWith", cm_block(n.body))
    if isinstance(n, ast.Try):
        if n.handlers or n.orelse or not n.finalbody:
            raise Unsupported("try with handlers / else in _channel_lock")
        return ("CTryFinally", cm_block(n.body), cm_block(n.finalbody))
    if isinstance(n, ast.Pass):
        return None
    raise Unsupported("statement %s in _channel_lock" % type(n).__name__)


def init_ok(cls, ctor_names, imports):
    """__init__: `self.channel_lock = None` unconditionally, then set to <Lock>() exactly under
    `if self._base_channel_args.channel_lock:`"""
    init = None
    for n in cls.body:
        if isinstance(n, FUNC) and n.name == "__init__":
            init = n
    if init is None:
        return False, "no __init__"
    none_assigns, guarded, other = 0, 0, 0

    def targets(s):
        if isinstance(s, ast.Assign):
            return s.targets, s.value
        if isinstance(s, ast.AnnAssign):
            return [s.target], s.value
        return [], None

    def is_ctor(v):
        if not isinstance(v, ast.Call) or v.args or v.keywords:
            return False
        name = ast.unparse(v.func)
        return name in ctor_names and imports.get(name.split(".")[0]) is not None

    for s in init.body:
        ts, v = targets(s)
        if any(is_lock_attr(t) for t in ts):
            if isinstance(v, ast.Constant) and v.value is None:
                none_assigns += 1
            else:
                other += 1
        elif isinstance(s, ast.If):
            test_ok = (isinstance(s.test, ast.Attribute) and s.test.attr == "channel_lock"
                       and is_self_attr(s.test.value, "_base_channel_args"))
            for sub in ast.walk(s):
                ts2, v2 = targets(sub) if isinstance(sub, ast.stmt) else ([], None)
                if any(is_lock_attr(t) for t in ts2):
                    in_body = any(sub is x for b in s.body for x in ast.walk(b))
                    if test_ok and in_body and not s.orelse and is_ctor(v2):
                        guarded += 1
                    else:
                        other += 1
        else:
            for sub in ast.walk(s):
                if isinstance(sub, (ast.Assign, ast.AnnAssign)):
                    ts2, _ = targets(sub)
                    if any(is_lock_attr(t) for t in ts2):
                        other += 1
    ok = none_assigns == 1 and guarded == 1 and other == 0
    return ok, "none=%d guarded=%d other=%d" % (none_assigns, guarded, other)


def lock_rebound(classes):
    """does any function of the given class bodies other than `__init__` bind / delete the attribute
    `channel_lock` (of any object)?  Returns (bool, [where]).  Indirect ways of setting an attribute abort."""
    where = []
    for cls in classes:
        for fn in cls.body:
            if not isinstance(fn, FUNC):
                continue
            for n in ast.walk(fn):
                if isinstance(n, ast.Attribute) and n.attr == "channel_lock" and isinstance(n.ctx, (ast.Store, ast.Del)):
                    if fn.name != "__init__":
                        where.append("%s.%s:%d" % (cls.name, fn.name, n.lineno))
                elif isinstance(n, ast.Call) and isinstance(n.func, ast.Name) and n.func.id in ("setattr", "delattr", "vars"):
                    raise Unsupported("%s() in %s.%s at line %d" % (n.func.id, cls.name, fn.name, n.lineno))
                elif isinstance(n, ast.Attribute) and n.attr in ("__dict__", "__setattr__", "__delattr__"):
                    raise Unsupported("%s in %s.%s at line %d" % (n.attr, cls.name, fn.name, n.lineno))
    return bool(where), where


CHANNEL_CLASSES = {"scrapli/channel/base_channel.py": ("BaseChannel",),
                   "scrapli/channel/sync_channel.py": ("Channel",),
                   "scrapli/channel/async_channel.py": ("AsyncChannel",)}
DYNAMIC_CALLS = ("setattr", "delattr", "vars")
DYNAMIC_ATTRS = ("__dict__", "__setattr__", "__delattr__")


def package_modules():
    root = os.path.join(repo(), "scrapli")
    out = []
    for d, dirs, files in os.walk(root):
        dirs[:] = sorted(x for x in dirs if x != "__pycache__")
        for f in sorted(files):
            if f.endswith(".py"):
                out.append(os.path.relpath(os.path.join(d, f), repo()).replace(os.sep, "/"))
    if not out:
        raise Unsupported("package scrapli not found under %s" % repo())
    return out


def names_channel(tree):
    """does the module name a channel anywhere (identifier / attribute / argument / import containing `channel`)"""
    for n in ast.walk(tree):
        if isinstance(n, ast.Name) and "channel" in n.id.lower():
            return True
        if isinstance(n, ast.Attribute) and "channel" in n.attr.lower():
            return True
        if isinstance(n, ast.arg) and "channel" in n.arg.lower():
            return True
        if isinstance(n, ast.ImportFrom) and ("channel" in (n.module or "").lower()
                                              or any("channel" in a.name.lower() for a in n.names)):
            return True
        if isinstance(n, ast.Import) and any("channel" in a.name.lower() for a in n.names):
            return True
    return False


def package_rebound():
    """the same question for EVERY module of the package (drivers, factory, transports, ...): does anything
    outside the three channel classes (those are lock_rebound's) bind / delete an attribute `channel_lock` of
    any object — `x.channel_lock = ...`, `del x.channel_lock`, augmented / annotated / with-as / for targets
    (ast Store / Del context), `setattr(x, "channel_lock", ...)` / `delattr(x, "channel_lock")`?  Module level
    code, functions, methods, nested functions, lambdas: the whole tree.  Returns (bool, [where], n_modules).
    Indirect ways of setting an attribute (setattr / delattr with a computed name, vars(), __dict__,
    __setattr__, __delattr__) abort in every module that names a channel anywhere; a module that never names a
    channel is taken not to reach one."""
    where = []
    mods = package_modules()
    for rel in mods:
        tree = parse(rel)
        skip = set()
        for n in tree.body:
            if isinstance(n, ast.ClassDef) and n.name in CHANNEL_CLASSES.get(rel, ()):
                skip.update(id(x) for x in ast.walk(n))
        handled = set()
        dynamic = []
        for n in ast.walk(tree):
            if id(n) in skip:
                continue
            if isinstance(n, ast.Attribute) and n.attr == "channel_lock" and isinstance(n.ctx, (ast.Store, ast.Del)):
                where.append("%s:%d" % (rel, n.lineno))
            elif isinstance(n, ast.Call) and isinstance(n.func, (ast.Name, ast.Attribute)):
                fname = n.func.id if isinstance(n.func, ast.Name) else n.func.attr
                if fname in ("setattr", "delattr", "__setattr__", "__delattr__"):
                    handled.add(id(n.func))
                    cand = n.args[:3]        # setattr(obj, name, v) / obj.__setattr__(name, v) / object.__setattr__(obj, name, v)
                    lits = [x.value for x in cand if isinstance(x, ast.Constant) and isinstance(x.value, str)]
                    if "channel_lock" in lits:
                        where.append("%s:%d" % (rel, n.lineno))
                    elif not lits or n.keywords or any(isinstance(x, ast.Starred) for x in n.args):
                        dynamic.append(("%s() with a computed name" % fname, n.lineno))
                    # (a literal other name: that attribute is not the lock)
                elif isinstance(n.func, ast.Name) and fname == "vars":
                    dynamic.append(("vars()", n.lineno))
        for n in ast.walk(tree):
            if id(n) in skip or id(n) in handled:
                continue
            if isinstance(n, ast.Attribute) and n.attr in DYNAMIC_ATTRS:
                dynamic.append((n.attr, n.lineno))
            elif isinstance(n, ast.Name) and n.id in ("setattr", "delattr") and isinstance(n.ctx, ast.Load):
                dynamic.append(("%s used as a value" % n.id, n.lineno))
        if dynamic and names_channel(tree):
            raise Unsupported("%s at %s:%d (a module that names a channel)" % (dynamic[0][0], rel, dynamic[0][1]))
    return bool(where), where, len(mods)


# ---------------------------------------------------------------------------------------------
def coq_shape(s):
    k = s[0]
    if k == "io":
        return "(SIo %d)" % s[1]
    simple = {"local": "SLocal", "skip": "SSkip", "raise": "SRaise", "return": "SReturn", "break": "SBreak",
              "continue": "SContinue"}
    if k in simple:
        return simple[k]
    two = {"seq": "SSeq", "alt": "SAlt", "try": "STry", "finally": "SFinally"}
    if k in two:
        return "(%s %s %s)" % (two[k], coq_shape(s[1]), coq_shape(s[2]))
    one = {"loop": "SLoop", "lock": "SLock", "call": "SCall"}
    if k in one:
        return "(%s %s)" % (one[k], coq_shape(s[1]))
    raise Unsupported("shape %r" % (s,))


def coq_cm(c):
    k = c[0]
    if k in ("CYield", "CAcq", "CRel", "CLocal"):
        return k
    if k == "CSeq":
        return "(CSeq [%s])" % "; ".join(coq_cm(x) for x in c[1])
    if k == "CWith":
        return "(CWith %s)" % coq_cm(c[1])
    if k in ("CIfLock", "CTryFinally"):
        return "(%s %s %s)" % (k, coq_cm(c[1]), coq_cm(c[2]))
    raise Unsupported("cm %r" % (c,))


def module_imports(tree):
    out = {}
    for n in tree.body:
        if isinstance(n, ast.ImportFrom):
            for a in n.names:
                out[a.asname or a.name] = "%s.%s" % (n.module, a.name)
        elif isinstance(n, ast.Import):
            for a in n.names:
                out[a.asname or a.name] = a.name
    return out


def analyse(rel, cls_name, base_methods, base_props, ctor_names, cm_deco):
    tree = parse(rel)
    cls = find_class(tree, cls_name)
    imports = module_imports(tree)
    if len(cls.bases) != 1 or ast.unparse(cls.bases[0]) != "BaseChannel":
        raise Unsupported("%s no longer derives from BaseChannel only" % cls_name)
    methods, props = dict(base_methods), set(base_props)
    own = []
    for n in cls.body:
        if isinstance(n, FUNC):
            ds = deco_names(n)
            for d in ds:
                if d not in KNOWN_DECORATORS and not d.endswith("setter"):
                    raise Unsupported("unknown decorator %s on %s.%s" % (d, cls_name, n.name))
            methods[n.name] = n
            own.append(n.name)
            if "property" in ds:
                props.add(n.name)
        elif isinstance(n, (ast.Expr, ast.Assign, ast.AnnAssign, ast.Pass)):
            continue
        else:
            raise Unsupported("class body statement %s in %s" % (type(n).__name__, cls_name))
    # the context manager
    cmfn = methods.get("_channel_lock")
    if cmfn is None:
        raise Unsupported("%s._channel_lock not found" % cls_name)
    if deco_names(cmfn) != [cm_deco] or imports.get(cm_deco) != "contextlib." + cm_deco:
        raise Unsupported("%s._channel_lock is not a contextlib.%s" % (cls_name, cm_deco))
    if isinstance(cmfn, ast.AsyncFunctionDef) != (cm_deco == "asynccontextmanager"):
        raise Unsupported("%s._channel_lock: def/async def does not fit %s" % (cls_name, cm_deco))
    cm = cm_block(cmfn.body)
    # the operations
    tr = Translator(cls_name, {k: v for k, v in methods.items() if k != "_channel_lock"}, props)
    ops = {}
    for name in sorted(methods):
        if name.startswith("_") or name in PRIMITIVES or name in props or name == "_channel_lock":
            continue
        fn = methods[name]
        s = tr.method_shape(name)
        if has_io(s):
            ds = deco_names(fn)
            ops[name] = (s, ds)
    # the I/O primitives themselves must reach the transport only directly
    for p in PRIMITIVES:
        if p not in methods:
            raise Unsupported("primitive %s missing" % p)
        tr.method_shape(p)
    ok, why = init_ok(cls, ctor_names, imports)
    scan = StateScan({k: v for k, v in methods.items() if k != "_channel_lock"}, props)
    state = []
    for name in sorted(ops):
        state += ["%s->%s" % (name, w) for w in scan.op(name)]
    return {"cm": cm, "ops": ops, "init_ok": ok, "init_why": why, "sites": sorted(set(tr.sites)), "own": own, "cls": cls,
            "state_outside": state}


def generate(outdir):
    base_tree = parse("scrapli/channel/base_channel.py")
    base = find_class(base_tree, "BaseChannel")
    base_methods, base_props = {}, set()
    for n in base.body:
        if isinstance(n, FUNC):
            ds = deco_names(n)
            for d in ds:
                if d not in KNOWN_DECORATORS and not d.endswith("setter"):
                    raise Unsupported("unknown decorator %s on BaseChannel.%s" % (d, n.name))
            if any(d.endswith("setter") for d in ds):
                continue
            base_methods[n.name] = n
            if "property" in ds:
                base_props.add(n.name)
    info = {}
    lines = ["(* generated from the source tree by gen/gen_lock.py — do not edit *)",
             "From Verif Require Import Bytes Lock.", "Open Scope nat_scope.", ""]
    pkg_rebound, pkg_where, pkg_n = package_rebound()
    info["package"] = {"modules_scanned": pkg_n, "lock_rebound": pkg_where}
    for stack, rel, cls_name, ctors, deco in (
            ("sync", "scrapli/channel/sync_channel.py", "Channel", ("Lock", "threading.Lock"), "contextmanager"),
            ("async", "scrapli/channel/async_channel.py", "AsyncChannel", ("asyncio.Lock",), "asynccontextmanager")):
        a = analyse(rel, cls_name, base_methods, base_props, ctors, deco)
        names = sorted(a["ops"])
        missing = [x for x in EXPECTED_OPS if x not in names]
        if missing:
            raise Unsupported("%s: operations not found (or no longer reaching the transport): %s" % (cls_name, missing))
        lines.append("(* %s: %s *)" % (cls_name, rel))
        lines.append("Definition gen_cm_%s : cmsh := %s." % (stack, coq_cm(a["cm"])))
        lines.append("Definition gen_init_ok_%s : bool := %s. (* %s *)" % (stack, "true" if a["init_ok"] else "false", a["init_why"]))
        rebound, where = lock_rebound([base, a["cls"]])
        where = where + pkg_where          # (a binding anywhere else in the package counts for both stacks)
        rebound = rebound or pkg_rebound
        lines.append("Definition gen_lock_rebound_%s : bool := %s. (* channel_lock bound outside the channel's __init__ "
                     "(class bodies + every module of the package, %d modules): %s *)"
                     % (stack, "true" if rebound else "false", pkg_n, ", ".join(where) or "nowhere"))
        lines.append("Definition gen_state_written_outside_lock_%s : bool := %s. (* attributes of the channel object written by a public "
                     "operation outside its lock section (directly or through helpers): %s *)"
                     % (stack, "true" if a["state_outside"] else "false", ", ".join(a["state_outside"]) or "none"))
        for nme in names:
            s, ds = a["ops"][nme]
            lines.append("Definition gen_%s_%s : shape :=\n  %s." % (stack, nme, coq_shape(s)))
            lines.append("Definition gen_%s_%s_timeout_wrapped : bool := %s." % (stack, nme, "true" if "timeout_wrapper" in ds else "false"))
        lines.append("Definition gen_ops_%s : list shape := [%s]." % (stack, "; ".join("gen_%s_%s" % (stack, x) for x in names)))
        lines.append("Definition gen_nops_%s : nat := %d." % (stack, len(names)))
        lines.append("")
        info[stack] = {"ops": names, "cm": coq_cm(a["cm"]), "init_ok": a["init_ok"], "init": a["init_why"],
                       "lock_rebound": where, "state_written_outside_lock": a["state_outside"],
                       "transport_call_sites": ["%s:%d:%s" % x for x in a["sites"]],
                       "timeout_wrapped": [x for x in names if "timeout_wrapper" in a["ops"][x][1]]}
    text = "\n".join(lines) + "\n"
    path = os.path.join(outdir, "Gen_Lock.v")
    if not os.path.exists(path) or open(path).read() != text:
        open(path, "w").write(text)
    return path, info


if __name__ == "__main__":
    p, i = generate(sys.argv[1])
    import json
    print(p)
    print(json.dumps(i, indent=1))
