#!/bin/bash
# MANIFEST.setup_cmd — builds the static Coq development (base/, model/, proofs/) offline.
set -euo pipefail
cd "$(dirname "$0")/coq"
find base model proofs -name '*.v' | sort > .files
{ echo "-Q . Verif"; cat .files; } > _CoqProject
coq_makefile -f _CoqProject -o Makefile > /dev/null
exec 9> .build.lock
flock 9
timeout 3000 make -j"${VERIF_JOBS:-16}" 2>&1 | grep -v '^COQDEP\|^CLEAN' || true
# fail closed if anything is missing
for f in $(cat .files); do test -f "${f%.v}.vo" || { echo "setup: ${f%.v}.vo not built" >&2; exit 1; }; done
if grep -rnE '\b(Admitted|admit|Axiom|Parameter|Conjecture|Unset Guard|bypass_check|Admit Obligations)\b' base model proofs props 2>/dev/null | grep -v '^\S*:\S*:\s*(\*' ; then
  echo "setup: forbidden token in Coq sources" >&2; exit 1
fi
echo "setup ok"
