(* RegexPrio.v — the PRIORITY engine: CPython's backtracking order (alternation left to right,
   greedy / lazy repeats, progress check on empty iterations) as a continuation-passing matcher.
   Needed where match positions matter: get_prompt (group 0), _process_output (re.sub),
   _strip_ansi (lazy .*?).  Definitions only; confronted with CPython's re by regex-conformance. *)
From Verif Require Import Bytes Regex.

(* a cursor: (previous position is start-of-string or newline, rest of the string) *)
Definition cursor := (bool * bytes)%type.

Definition under (k : nat) (mx : option nat) : bool :=
  match mx with None => true | Some m => Nat.ltb k m end.

Fixpoint m (r : re) (c : cursor) (k : cursor -> option cursor) : option cursor :=
  match r with
  | Emp => None
  | Eps => k c
  | Bol => if fst c then k c else None
  | Eol => match snd c with [] => k c | x :: _ => if x =? 10 then k c else None end
  | Cls s => match snd c with
             | x :: rest => if cmem x s then k (x =? 10, rest) else None
             | [] => None
             end
  | Cat a b => m a c (fun c' => m b c' k)
  | Alt a b => match m a c k with Some e => Some e | None => m b c k end
  | Rep a mn mx g =>
      (fix go (fuel : nat) (i : nat) (c : cursor) {struct fuel} : option cursor :=
         match fuel with
         | O => None
         | S f =>
             let more (_ : unit) :=
               if under i mx
               then m a c (fun e => if Nat.ltb (length (snd e)) (length (snd c)) || Nat.ltb i mn
                                    then go f (S i) e else None)
               else None in
             let stop (_ : unit) := if Nat.leb mn i then k c else None in
             if g then match more tt with Some e => Some e | None => stop tt end
             else match stop tt with Some e => Some e | None => more tt end
         end) (S (length (snd c)) + mn)%nat O c
  end.

(* match at the cursor: the end cursor of the highest-priority match *)
Definition match_at (r : re) (c : cursor) : option cursor := m r c (fun e => Some e).

(* re.search: leftmost start, then priority.  Result: (bytes before, matched bytes, cursor after) *)
Fixpoint search_from (r : re) (pre : bytes) (c : cursor) (fuel : nat) : option (bytes * bytes * cursor) :=
  match match_at r c with
  | Some e =>
      let n := (length (snd c) - length (snd e))%nat in
      Some (rev pre, firstn n (snd c), e)
  | None =>
      match fuel, snd c with
      | S f, x :: rest => search_from r (x :: pre) (x =? 10, rest) f
      | _, _ => None
      end
  end.

Definition search (r : re) (s : bytes) : option (bytes * bytes * cursor) :=
  search_from r [] (true, s) (length s).

Definition search_bool (r : re) (s : bytes) : bool :=
  match search r s with Some _ => true | None => false end.

Definition group0 (r : re) (s : bytes) : option bytes :=
  match search r s with Some (_, g, _) => Some g | None => None end.

(* re.sub(r, b"", s) for patterns that never match the empty string at a position where they do
   not also consume (an empty match is skipped by advancing one character, as CPython does) *)
Fixpoint sub_all_from (r : re) (c : cursor) (fuel : nat) : bytes :=
  match fuel with
  | O => snd c
  | S f =>
      match match_at r c with
      | Some e =>
          if Nat.ltb (length (snd e)) (length (snd c))
          then sub_all_from r e f
          else match snd c with
               | x :: rest => x :: sub_all_from r (x =? 10, rest) f
               | [] => []
               end
      | None =>
          match snd c with
          | x :: rest => x :: sub_all_from r (x =? 10, rest) f
          | [] => []
          end
      end
  end.

Definition sub_all (r : re) (s : bytes) : bytes := sub_all_from r (true, s) (S (length s)).
