(* Regex.v — regular expression AST shared by the two engines (DESIGN.md 4.2). Definitions only.
   A character is a byte (N < 256); [Bol]/[Eol] are ^ and $ under re.MULTILINE. *)
From Verif Require Import Bytes.

Definition cset := list (N * N).           (* inclusive ranges *)

Definition cmem (c : N) (s : cset) : bool :=
  existsb (fun r => (fst r <=? c) && (c <=? snd r)) s.

Inductive re :=
| Emp | Eps | Bol | Eol
| Cls (s : cset)
| Cat (a b : re)
| Alt (a b : re)
| Rep (a : re) (mn : nat) (mx : option nat) (greedy : bool).

Definition cset_all : cset := [(0, 255)].
Definition sigma_star : re := Rep (Cls cset_all) 0 None true.

Fixpoint lit (s : bytes) : re :=
  match s with [] => Eps | c :: r => Cat (Cls [(c, c)]) (lit r) end.

(* ---- decidable equality and a total order (the order is used only by untrusted search code) ---- *)
Fixpoint cset_eqb (a b : cset) : bool :=
  match a, b with
  | [], [] => true
  | (l1, h1) :: a', (l2, h2) :: b' => (l1 =? l2) && (h1 =? h2) && cset_eqb a' b'
  | _, _ => false
  end.

Definition onat_eqb (a b : option nat) : bool :=
  match a, b with
  | None, None => true
  | Some x, Some y => Nat.eqb x y
  | _, _ => false
  end.

Fixpoint re_eqb (a b : re) : bool :=
  match a, b with
  | Emp, Emp | Eps, Eps | Bol, Bol | Eol, Eol => true
  | Cls s, Cls t => cset_eqb s t
  | Cat a1 a2, Cat b1 b2 => re_eqb a1 b1 && re_eqb a2 b2
  | Alt a1 a2, Alt b1 b2 => re_eqb a1 b1 && re_eqb a2 b2
  | Rep a1 m1 x1 g1, Rep b1 m2 x2 g2 =>
      Nat.eqb m1 m2 && onat_eqb x1 x2 && Bool.eqb g1 g2 && re_eqb a1 b1
  | _, _ => false
  end.

(* lexicographic combination as a NOTATION, so that the second comparison is only evaluated when the
   first is Eq (a function would be evaluated strictly by vm_compute) *)
Notation "'lex' c d" := (match c with Eq => d | Lt => Lt | Gt => Gt end)
  (at level 10, c at level 9, d at level 9).

Fixpoint cset_cmp (a b : cset) : comparison :=
  match a, b with
  | [], [] => Eq
  | [], _ => Lt
  | _, [] => Gt
  | (l1, h1) :: a', (l2, h2) :: b' => lex (l1 ?= l2) (lex (h1 ?= h2) (cset_cmp a' b'))
  end.

Definition onat_cmp (a b : option nat) : comparison :=
  match a, b with
  | None, None => Eq
  | None, _ => Lt
  | _, None => Gt
  | Some x, Some y => Nat.compare x y
  end.

Definition tag (r : re) : nat :=
  match r with Emp => 0 | Eps => 1 | Bol => 2 | Eol => 3 | Cls _ => 4 | Cat _ _ => 5 | Alt _ _ => 6
             | Rep _ _ _ _ => 7 end%nat.

Fixpoint re_cmp (a b : re) : comparison :=
  match a, b with
  | Cls s, Cls t => cset_cmp s t
  | Cat a1 a2, Cat b1 b2 => lex (re_cmp a1 b1) (re_cmp a2 b2)
  | Alt a1 a2, Alt b1 b2 => lex (re_cmp a1 b1) (re_cmp a2 b2)
  | Rep a1 m1 x1 g1, Rep b1 m2 x2 g2 =>
      lex (Nat.compare m1 m2) (lex (onat_cmp x1 x2) (lex (re_cmp a1 b1)
          (match g1, g2 with true, false => Gt | false, true => Lt | _, _ => Eq end)))
  | _, _ => Nat.compare (tag a) (tag b)
  end.

(* two-phase order: the skeleton (tags and repeat counters) first, the character classes only when
   the skeletons are equal — much cheaper on the near-identical terms derivative exploration compares *)
Fixpoint re_skel_cmp (a b : re) : comparison :=
  match a, b with
  | Cls s, Cls t => Nat.compare (length s) (length t)
  | Cat a1 a2, Cat b1 b2 => lex (re_skel_cmp a1 b1) (re_skel_cmp a2 b2)
  | Alt a1 a2, Alt b1 b2 => lex (re_skel_cmp a1 b1) (re_skel_cmp a2 b2)
  | Rep a1 m1 x1 g1, Rep b1 m2 x2 g2 =>
      lex (Nat.compare m1 m2) (lex (onat_cmp x1 x2) (lex (re_skel_cmp a1 b1)
          (match g1, g2 with true, false => Gt | false, true => Lt | _, _ => Eq end)))
  | _, _ => Nat.compare (tag a) (tag b)
  end.

Fixpoint re_cls_cmp (a b : re) : comparison :=
  match a, b with
  | Cls s, Cls t => cset_cmp s t
  | Cat a1 a2, Cat b1 b2 => lex (re_cls_cmp a1 b1) (re_cls_cmp a2 b2)
  | Alt a1 a2, Alt b1 b2 => lex (re_cls_cmp a1 b1) (re_cls_cmp a2 b2)
  | Rep a1 _ _ _, Rep b1 _ _ _ => re_cls_cmp a1 b1
  | _, _ => Eq
  end.

Definition re_cmp2 (a b : re) : comparison := lex (re_skel_cmp a b) (re_cls_cmp a b).
