(* RegexDecide.v — deciding emptiness of a top-level boolean combination over ALL byte strings.
   [explore] (untrusted search) produces a numbered list of states and a transition table;
   [closed_cert] (the trusted check, proved sound in proofs/Regex_Proofs.v) re-computes every
   derivative for one representative byte per atom and compares it with the claimed successor.
   Definitions only. *)
From Coq Require Import FMapPositive.
From Verif Require Import Bytes Regex RegexDeriv.

Definition state := (bool * top)%type.

(* ---- classes occurring in a term; atoms = bytes no class of the problem distinguishes ---- *)
Fixpoint re_classes (r : re) : list cset :=
  match r with
  | Cls s => [s]
  | Cat a b | Alt a b => re_classes a ++ re_classes b
  | Rep a _ _ _ => re_classes a
  | _ => []
  end.

Fixpoint top_classes (t : top) : list cset :=
  match t with
  | TBase r => re_classes r
  | TAnd a b | TOr a b => top_classes a ++ top_classes b
  | TNot a => top_classes a
  end.

Definition indist (CL : list cset) (c1 c2 : N) : bool :=
  Bool.eqb (c1 =? 10) (c2 =? 10) && forallb (fun s => Bool.eqb (cmem c1 s) (cmem c2 s)) CL.

Definition atom := (N * list N)%type.     (* representative, members *)

Fixpoint upto (n : nat) : list N :=
  match n with O => [] | S k => upto k ++ [N.of_nat k] end.
Definition all256 : list N := upto 256.

Definition atoms_ok (CL : list cset) (atoms : list atom) : bool :=
  forallb (fun a => forallb (indist CL (fst a)) (snd a)) atoms &&
  forallb (fun c => existsb (fun a => mem c (snd a)) atoms) all256.

Definition classes_in (CL : list cset) (t : top) : bool :=
  forallb (fun s => existsb (cset_eqb s) CL) (top_classes t).

Definition step (q : state) (c : N) : state := (c =? 10, td (fst q) c (snd q)).
Definition state_eqb (a b : state) : bool := Bool.eqb (fst a) (fst b) && top_eqb (snd a) (snd b).
Definition accepting (q : state) : bool := tnul (fst q) NEnd (snd q).

(* the numbered state list as a map from index to state (logarithmic lookup) *)
Definition wmap := PositiveMap.t state.

Fixpoint build_map (l : list state) (i : positive) (m : wmap) : wmap :=
  match l with
  | [] => m
  | q :: r => build_map r (Pos.succ i) (PositiveMap.add i q m)
  end.

(* state indices are binary positives (1 = the initial state): unary nat indices would cost O(index) per lookup *)
Definition wfind (m : wmap) (i : positive) : option state := PositiveMap.find i m.

Fixpoint lbool_eqb (a b : list bool) : bool :=
  match a, b with
  | [], [] => true
  | x :: a', y :: b' => Bool.eqb x y && lbool_eqb a' b'
  | _, _ => false
  end.

(* the classes the derivative of a term actually looks at (its "front"): the derivative depends on
   the byte only through membership in these and through "is it a newline" *)
Fixpoint front (pnl : bool) (k : nxt) (r : re) : list cset :=
  match r with
  | Cls s => [s]
  | Cat a b => front pnl k a ++ (if nul pnl k a then front pnl k b else [])
  | Alt a b => front pnl k a ++ front pnl k b
  | Rep a _ mx _ => match mx with Some O => [] | _ => front pnl k a end
  | _ => []
  end.

Fixpoint tfront (pnl : bool) (k : nxt) (t : top) : list cset :=
  match t with
  | TBase r => front pnl k r
  | TAnd a b | TOr a b => tfront pnl k a ++ tfront pnl k b
  | TNot a => tfront pnl k a
  end.

Definition csig (fr : list cset) (c : N) : list bool := (c =? 10) :: map (cmem c) fr.
Definition qfront (q : state) (c : N) : list cset := tfront (fst q) (kind c) (snd q).

Fixpoint assoc_sig (sg : list bool) (memo : list (list bool * positive)) : option positive :=
  match memo with
  | [] => None
  | (s, i) :: r => if lbool_eqb s sg then Some i else assoc_sig sg r
  end.

(* one row of the certificate: state q, its successor indices in atom order.  The derivative is
   computed once per distinct front signature; atoms with an already seen signature must claim the
   same successor index *)
Fixpoint row_chk (m : wmap) (q : state) (atoms : list atom) (succ : list positive)
  (memo : list (list bool * positive)) : bool :=
  match atoms, succ with
  | [], [] => true
  | a :: atoms', i :: succ' =>
      let c := fst a in
      let sg := csig (qfront q c) c in
      match assoc_sig sg memo with
      | Some j => Pos.eqb i j && row_chk m q atoms' succ' memo
      | None =>
          match wfind m i with
          | Some q' => state_eqb (step q c) q' && row_chk m q atoms' succ' ((sg, i) :: memo)
          | None => false
          end
      end
  | _, _ => false
  end.

(* (the classes of a state need no check: derivatives introduce no new class — [td_classes] — and the
   classes of the initial state are checked once, in [decide_empty]) *)
Definition row_ok (CL : list cset) (atoms : list atom) (m : wmap) (q : state) (succ : list positive) : bool :=
  negb (accepting q) && row_chk m q atoms succ [].

Definition closed_cert (CL : list cset) (atoms : list atom) (W : list state) (tr : list (list positive)) : bool :=
  let m := build_map W 1%positive (PositiveMap.empty state) in
  atoms_ok CL atoms && Nat.eqb (length W) (length tr) &&
  forallb (fun p => row_ok CL atoms m (fst p) (snd p)) (combine W tr).

(* ---- untrusted exploration: BFS with a search tree from state to index ---- *)
(* red-black tree (Okasaki); untrusted, so no invariants are proved *)
Inductive color := Red | Black.
Inductive bst := Leaf | Node (c : color) (l : bst) (k : state) (v : positive) (r : bst).

Definition st_cmp (a b : state) : comparison :=
  match fst a, fst b with
  | false, true => Lt
  | true, false => Gt
  | _, _ => top_cmp (snd a) (snd b)
  end.

Fixpoint bst_find (k : state) (t : bst) : option positive :=
  match t with
  | Leaf => None
  | Node _ l k' v r => match st_cmp k k' with Eq => Some v | Lt => bst_find k l | Gt => bst_find k r end
  end.

Definition balance (c : color) (l : bst) (k : state) (v : positive) (r : bst) : bst :=
  match c, l, r with
  | Black, Node Red (Node Red a xk xv b) yk yv c', d
  | Black, Node Red a xk xv (Node Red b yk yv c'), d =>
      Node Red (Node Black a xk xv b) yk yv (Node Black c' k v d)
  | _, _, _ =>
      match c, l, r with
      | Black, a, Node Red (Node Red b yk yv c') zk zv d
      | Black, a, Node Red b yk yv (Node Red c' zk zv d) =>
          Node Red (Node Black a k v b) yk yv (Node Black c' zk zv d)
      | _, _, _ => Node c l k v r
      end
  end.

Fixpoint rb_ins (k : state) (v : positive) (t : bst) : bst :=
  match t with
  | Leaf => Node Red Leaf k v Leaf
  | Node c l k' v' r =>
      match st_cmp k k' with
      | Eq => t
      | Lt => balance c (rb_ins k v l) k' v' r
      | Gt => balance c l k' v' (rb_ins k v r)
      end
  end.

Definition bst_add (k : state) (v : positive) (t : bst) : bst :=
  match rb_ins k v t with
  | Node _ l k' v' r => Node Black l k' v' r
  | Leaf => Leaf
  end.

(* search state: tree, next index, queue of (state, reversed path) still to expand, and the
   expanded rows so far (reversed) *)
Record xs := mkX { x_tree : bst; x_next : positive; x_queue : list (state * bytes);
                   x_rows : list (state * list positive) }.

Inductive xres :=
| XClosed (W : list state) (tr : list (list positive))
| XWitness (s : bytes)        (* an accepted string *)
| XFuel.

(* expand one state over all atoms; the derivative is computed once per front signature *)
Fixpoint expand (atoms : list atom) (q : state) (path : bytes) (tree : bst) (next : positive)
  (newq : list (state * bytes)) (succ : list positive) (memo : list (list bool * positive))
  : bst * positive * list (state * bytes) * list positive :=
  match atoms with
  | [] => (tree, next, rev newq, rev succ)
  | a :: rest =>
      let c := fst a in
      let sg := csig (qfront q c) c in
      match assoc_sig sg memo with
      | Some i => expand rest q path tree next newq (i :: succ) memo
      | None =>
          let q' := step q c in
          match bst_find q' tree with
          | Some i => expand rest q path tree next newq (i :: succ) ((sg, i) :: memo)
          | None => expand rest q path (bst_add q' next tree) (Pos.succ next)
                           ((q', c :: path) :: newq) (next :: succ) ((sg, next) :: memo)
          end
      end
  end.

Fixpoint explore_loop (fuel : nat) (atoms : list atom) (x : xs) : xres :=
  match fuel with
  | O => XFuel
  | S f =>
      match x_queue x with
      | [] => let rows := rev (x_rows x) in XClosed (map fst rows) (map snd rows)
      | (q, path) :: rest =>
          if accepting q then XWitness (rev path)
          else
            let '(tree, next, newq, succ) := expand atoms q path (x_tree x) (x_next x) [] [] [] in
            explore_loop f atoms (mkX tree next (rest ++ newq) ((q, succ) :: x_rows x))
      end
  end.

Definition explore (fuel : nat) (atoms : list atom) (t0 : top) : xres :=
  let q0 := (true, t0) in
  explore_loop fuel atoms (mkX (bst_add q0 1%positive Leaf) 2%positive [(q0, [])] []).

(* the decision: true only if a closed certificate starting at t0 was found AND validated *)
Definition decide_empty (CL : list cset) (atoms : list atom) (fuel : nat) (t0 : top) : bool :=
  match explore fuel atoms t0 with
  | XClosed W tr =>
      closed_cert CL atoms W tr && classes_in CL t0 &&
      match W with q0 :: _ => state_eqb q0 (true, t0) | [] => false end
  | _ => false
  end.

Definition witness (atoms : list atom) (fuel : nat) (t0 : top) : option bytes :=
  match explore fuel atoms t0 with XWitness s => Some s | _ => None end.

Definition nstates (atoms : list atom) (fuel : nat) (t0 : top) : nat :=
  match explore fuel atoms t0 with XClosed W _ => length W | _ => O end.

(* ---- atoms computed from the classes of one problem (untrusted: [atoms_ok] validates them) ---- *)
Definition sig_of (CL : list cset) (c : N) : list bool := (c =? 10) :: map (cmem c) CL.

Fixpoint add_atom (c : N) (sg : list bool) (acc : list (list bool * atom)) : list (list bool * atom) :=
  match acc with
  | [] => [(sg, (c, [c]))]
  | (s, (r, ms)) :: rest =>
      if lbool_eqb s sg then (s, (r, c :: ms)) :: rest else (s, (r, ms)) :: add_atom c sg rest
  end.

Definition mk_atoms (CL : list cset) : list atom :=
  map snd (fold_left (fun acc c => add_atom c (sig_of CL c) acc) all256 []).

Fixpoint nodup_cs (l : list cset) (acc : list cset) : list cset :=
  match l with
  | [] => rev acc
  | s :: r => if existsb (cset_eqb s) acc then nodup_cs r acc else nodup_cs r (s :: acc)
  end.
