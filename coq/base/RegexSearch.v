(* RegexSearch.v — emptiness by ONE verified pass (no separate certificate validation).
   The search keeps a map index -> state (the states found so far), the untrusted red-black tree
   state -> index of RegexDecide.v as an accelerator (a hit is believed only after comparing the
   stored state with [state_eqb]; a miss merely adds a duplicate), a queue of states still to expand
   and, per expanded state, the derivative once per front signature.  It answers [true] only when the
   queue ran empty without meeting an accepting state.  Soundness: proofs/RegexSearch_Proofs.v.
   Definitions only. *)
From Coq Require Import FMapPositive.
From Verif Require Import Bytes Regex RegexDeriv RegexDecide.

Record vs := mkV { v_tree : bst; v_map : wmap; v_next : positive; v_queue : list state }.

Definition vadd (q' : state) (tree : bst) (m : wmap) (next : positive) : bst * wmap * positive :=
  (bst_add q' next tree, PositiveMap.add next q' m, Pos.succ next).

(* is q' already known?  the tree is only a hint *)
Definition vknown (q' : state) (tree : bst) (m : wmap) : option positive :=
  match bst_find q' tree with
  | Some i => match wfind m i with
              | Some q'' => if state_eqb q' q'' then Some i else None
              | None => None
              end
  | None => None
  end.

Fixpoint vexpand (atoms : list atom) (q : state) (tree : bst) (m : wmap) (next : positive)
  (newq : list state) (memo : list (list bool * positive)) : bst * wmap * positive * list state :=
  match atoms with
  | [] => (tree, m, next, rev newq)
  | a :: rest =>
      let c := fst a in
      let sg := csig (qfront q c) c in
      match assoc_sig sg memo with
      | Some _ => vexpand rest q tree m next newq memo
      | None =>
          let q' := step q c in
          match vknown q' tree m with
          | Some i => vexpand rest q tree m next newq ((sg, i) :: memo)
          | None =>
              let '(tree', m', next') := vadd q' tree m next in
              vexpand rest q tree' m' next' (q' :: newq) ((sg, next) :: memo)
          end
      end
  end.

Fixpoint vloop (fuel : nat) (atoms : list atom) (x : vs) : bool :=
  match fuel with
  | O => false
  | S f =>
      match v_queue x with
      | [] => true
      | q :: rest =>
          if accepting q then false
          else
            let '(tree, m, next, newq) := vexpand atoms q (v_tree x) (v_map x) (v_next x) [] [] in
            vloop f atoms (mkV tree m next (rest ++ newq))
      end
  end.

Definition vinit (t0 : top) : vs :=
  let q0 := (true, t0) in
  mkV (bst_add q0 1%positive Leaf) (PositiveMap.add 1%positive q0 (PositiveMap.empty state)) 2%positive [q0].

(* the decision: no byte string is accepted by t0 *)
Definition decide1 (CL : list cset) (atoms : list atom) (fuel : nat) (t0 : top) : bool :=
  atoms_ok CL atoms && classes_in CL t0 && vloop fuel atoms (vinit t0).
