(* Bytes.v — bytes as lists of N (a byte is an N < 256); executable definitions only.
   Lemmas about them live in proofs/Bytes_Proofs.v. *)
From Coq Require Export List NArith Bool Arith.
Export ListNotations.
Open Scope N_scope.

Definition byte := N.
Definition bytes := list N.

Definition is_byte (b : N) : bool := b <? 256.
Definition all_bytes (s : bytes) : bool := forallb is_byte s.

Fixpoint beq (a b : bytes) : bool :=
  match a, b with
  | [], [] => true
  | x :: a', y :: b' => (x =? y) && beq a' b'
  | _, _ => false
  end.

Fixpoint lbeq (a b : list bytes) : bool :=
  match a, b with
  | [], [] => true
  | x :: a', y :: b' => beq x y && lbeq a' b'
  | _, _ => false
  end.

Definition mem (c : N) (s : bytes) : bool := existsb (N.eqb c) s.

(* bytes.replace(bytes([c]), b"") *)
Definition remove_byte (c : N) (s : bytes) : bytes := filter (fun x => negb (x =? c)) s.

(* s.find(bytes([c])) : position of first occurrence *)
Fixpoint find_byte (c : N) (s : bytes) : option nat :=
  match s with
  | [] => None
  | x :: r => if x =? c then Some O
              else match find_byte c r with Some n => Some (S n) | None => None end
  end.

(* split at first occurrence of c: (before, from c on) ; (s, []) when absent *)
Fixpoint break_at (c : N) (s : bytes) : bytes * bytes :=
  match s with
  | [] => ([], [])
  | x :: r => if x =? c then ([], s) else let (a, b) := break_at c r in (x :: a, b)
  end.

Fixpoint prefixb (p s : bytes) : bool :=
  match p, s with
  | [], _ => true
  | x :: p', y :: s' => (x =? y) && prefixb p' s'
  | _ :: _, [] => false
  end.

(* substring test:  p in s *)
Fixpoint infixb (p s : bytes) : bool :=
  prefixb p s || match s with [] => false | _ :: s' => infixb p s' end.

Definition lastn {A} (n : nat) (l : list A) : list A := skipn (length l - n) l.

Definition lower_byte (c : N) : N := if (65 <=? c) && (c <=? 90) then c + 32 else c.
Definition lower (s : bytes) : bytes := map lower_byte s.

(* python bytes whitespace: space \t \n \v \f \r *)
Definition is_ws (c : N) : bool :=
  (c =? 32) || ((9 <=? c) && (c <=? 13)).

Fixpoint lstrip_ws (s : bytes) : bytes :=
  match s with
  | c :: r => if is_ws c then lstrip_ws r else s
  | [] => []
  end.
Definition rstrip_ws (s : bytes) : bytes := rev (lstrip_ws (rev s)).
Definition strip_ws (s : bytes) : bytes := lstrip_ws (rstrip_ws s).

Fixpoint lstrip_chars (cs : bytes) (s : bytes) : bytes :=
  match s with
  | c :: r => if mem c cs then lstrip_chars cs r else s
  | [] => []
  end.

(* python  b"".join(s.split())  — remove all whitespace *)
Definition squash_ws (s : bytes) : bytes := filter (fun c => negb (is_ws c)) s.

(* bytes.splitlines(): split on \n, \r, \r\n ; no trailing empty element *)
Fixpoint splitlines_aux (cur : bytes) (s : bytes) : list bytes :=
  match s with
  | [] => match cur with [] => [] | _ => [rev cur] end
  | 10 :: r => rev cur :: splitlines_aux [] r
  | 13 :: r =>
      match r with
      | 10 :: r' => rev cur :: splitlines_aux [] r'
      | _ => rev cur :: splitlines_aux [] r
      end
  | c :: r => splitlines_aux (c :: cur) r
  end.
Definition splitlines (s : bytes) : list bytes := splitlines_aux [] s.

Fixpoint join (sep : bytes) (l : list bytes) : bytes :=
  match l with
  | [] => []
  | [x] => x
  | x :: r => x ++ sep ++ join sep r
  end.

(* bytes.partition(bytes([c])) : (head, found?, tail) *)
Fixpoint partition_byte (c : N) (s : bytes) : bytes * bool * bytes :=
  match s with
  | [] => ([], false, [])
  | x :: r => if x =? c then ([], true, r)
              else let '(h, f, t) := partition_byte c r in (x :: h, f, t)
  end.

Fixpoint subseqb (i o : bytes) : bool :=
  match i, o with
  | [], _ => true
  | _ :: _, [] => false
  | x :: i', y :: o' => if x =? y then subseqb i' o' else subseqb i o'
  end.
