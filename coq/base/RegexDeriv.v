(* RegexDeriv.v — the LANGUAGE engine: Brzozowski derivatives with one character of look-behind
   ([pnl]: the previous position is the start of the string or a newline) and of look-ahead (in
   nullability), so that ^ and $ under re.MULTILINE are exact.  Boolean combinations live only at
   top level.  Definitions only; this engine IS the semantics the C05 theorems talk about, and it is
   confronted with CPython's re by the regex-conformance suite on every run. *)
From Verif Require Import Bytes Regex.

Inductive nxt := NEnd | NNl | NOther.
Definition kind (c : N) : nxt := if c =? 10 then NNl else NOther.

Fixpoint nul (pnl : bool) (nx : nxt) (r : re) : bool :=
  match r with
  | Emp => false
  | Eps => true
  | Bol => pnl
  | Eol => match nx with NOther => false | _ => true end
  | Cls _ => false
  | Cat a b => nul pnl nx a && nul pnl nx b
  | Alt a b => nul pnl nx a || nul pnl nx b
  | Rep a mn _ _ => Nat.eqb mn 0 || nul pnl nx a
  end.

(* ---- smart constructors (ACI-normalised alternatives, right-nested concatenation) ---- *)
Fixpoint mkCat (a b : re) : re :=
  match b with
  | Emp => Emp
  | Eps => a
  | _ =>
      match a with
      | Emp => Emp
      | Eps => b
      | Cat a1 a2 => Cat a1 (mkCat a2 b)
      | _ => Cat a b
      end
  end.

Fixpoint alts (r : re) : list re :=
  match r with Alt a b => alts a ++ alts b | Emp => [] | _ => [r] end.

Fixpoint ins (x : re) (l : list re) : list re :=
  match l with
  | [] => [x]
  | y :: l' => match re_cmp2 x y with Lt => x :: l | Eq => l | Gt => y :: ins x l' end
  end.

Fixpoint build (l : list re) : re :=
  match l with [] => Emp | [x] => x | x :: l' => Alt x (build l') end.

Definition mkAlt (a b : re) : re := build (fold_right ins [] (alts a ++ alts b)).

Definition mkRep (a : re) (mn : nat) (mx : option nat) : re :=
  match mx with Some O => Eps | _ => Rep a mn mx true end.

Fixpoint d (pnl : bool) (c : N) (r : re) : re :=
  match r with
  | Emp | Eps | Bol | Eol => Emp
  | Cls s => if cmem c s then Eps else Emp
  | Cat a b =>
      let l := mkCat (d pnl c a) b in
      if nul pnl (kind c) a then mkAlt l (d pnl c b) else l
  | Alt a b => mkAlt (d pnl c a) (d pnl c b)
  | Rep a mn mx _ =>
      match mx with
      | Some O => Emp
      | _ => mkCat (d pnl c a) (mkRep a (pred mn) (option_map pred mx))
      end
  end.

(* ---- top level: boolean combinations ---- *)
Inductive top := TBase (r : re) | TAnd (a b : top) | TOr (a b : top) | TNot (a : top).

Fixpoint tnul (pnl : bool) (nx : nxt) (t : top) : bool :=
  match t with
  | TBase r => nul pnl nx r
  | TAnd a b => tnul pnl nx a && tnul pnl nx b
  | TOr a b => tnul pnl nx a || tnul pnl nx b
  | TNot a => negb (tnul pnl nx a)
  end.

Definition is_dead (t : top) : bool := match t with TBase Emp => true | _ => false end.

Definition mkTAnd (a b : top) : top :=
  if is_dead a then TBase Emp else if is_dead b then TBase Emp else TAnd a b.
Definition mkTOr (a b : top) : top :=
  if is_dead a then b else if is_dead b then a else TOr a b.

Fixpoint td (pnl : bool) (c : N) (t : top) : top :=
  match t with
  | TBase r => TBase (d pnl c r)
  | TAnd a b =>
      (* same value as [mkTAnd (td a) (td b)]; written so that vm_compute (call by value) does not
         compute the derivative of [b] once [a] is dead — the grammar is the first conjunct, and on
         most bytes it dies at once *)
      let a' := td pnl c a in
      if is_dead a' then TBase Emp else mkTAnd a' (td pnl c b)
  | TOr a b => mkTOr (td pnl c a) (td pnl c b)
  | TNot a => TNot (td pnl c a)
  end.

Fixpoint trun (pnl : bool) (t : top) (s : bytes) : bool :=
  match s with
  | [] => tnul pnl NEnd t
  | c :: s' => trun (c =? 10) (td pnl c t) s'
  end.

Definition accepts (t : top) (s : bytes) : bool := trun true t s.

(* python:  bool(re.search(r, s))  /  lit in s  /  re.fullmatch-like anchored membership *)
Definition t_search (r : re) : top := TBase (Cat sigma_star (Cat r sigma_star)).
Definition t_contains (l : bytes) : top := t_search (lit l).
Definition t_full (r : re) : top := TBase r.
Definition t_false : top := TBase Emp.
Definition t_true : top := TNot (TBase Emp).

Fixpoint t_all (l : list top) : top :=
  match l with [] => t_true | [x] => x | x :: r => TAnd x (t_all r) end.
Fixpoint t_any (l : list top) : top :=
  match l with [] => t_false | [x] => x | x :: r => TOr x (t_any r) end.

Definition search_b (r : re) (s : bytes) : bool := accepts (t_search r) s.

(* ---- equality / order on top ---- *)
Fixpoint top_eqb (a b : top) : bool :=
  match a, b with
  | TBase r, TBase s => re_eqb r s
  | TAnd a1 a2, TAnd b1 b2 => top_eqb a1 b1 && top_eqb a2 b2
  | TOr a1 a2, TOr b1 b2 => top_eqb a1 b1 && top_eqb a2 b2
  | TNot a1, TNot b1 => top_eqb a1 b1
  | _, _ => false
  end.

Definition ttag (t : top) : nat :=
  match t with TBase _ => 0 | TAnd _ _ => 1 | TOr _ _ => 2 | TNot _ => 3 end%nat.

Fixpoint top_skel_cmp (a b : top) : comparison :=
  match a, b with
  | TBase r, TBase s => re_skel_cmp r s
  | TAnd a1 a2, TAnd b1 b2 => lex (top_skel_cmp a1 b1) (top_skel_cmp a2 b2)
  | TOr a1 a2, TOr b1 b2 => lex (top_skel_cmp a1 b1) (top_skel_cmp a2 b2)
  | TNot a1, TNot b1 => top_skel_cmp a1 b1
  | _, _ => Nat.compare (ttag a) (ttag b)
  end.

Fixpoint top_cls_cmp (a b : top) : comparison :=
  match a, b with
  | TBase r, TBase s => re_cls_cmp r s
  | TAnd a1 a2, TAnd b1 b2 => lex (top_cls_cmp a1 b1) (top_cls_cmp a2 b2)
  | TOr a1 a2, TOr b1 b2 => lex (top_cls_cmp a1 b1) (top_cls_cmp a2 b2)
  | TNot a1, TNot b1 => top_cls_cmp a1 b1
  | _, _ => Eq
  end.

Definition top_cmp (a b : top) : comparison := lex (top_skel_cmp a b) (top_cls_cmp a b).
