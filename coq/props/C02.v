(* C02 — results do not depend on how device output is chunked or decorated.
   Only the property theorems (closed by [exact], or by computation over the generated facts) and
   Print Assumptions.  Model: model/Chunking.v; proofs: proofs/Chunking_Proofs.v;
   Gen_Chunking.v is regenerated from the source tree on every run. *)
From Verif Require Import Bytes Regex RegexPrio Chunking Chunking_Proofs.
From Gen Require Import Gen_Chunking.

(* ---- read(): CR removal, carry-over of a partial sequence, ANSI stripping -------------------- *)
(* For EVERY two chunk lists whose concatenations are equal up to CRs (any number and position of
   cuts, 1-byte reads, cuts inside an escape sequence; CRs inserted anywhere), starting from any
   legal held-back state: the concatenation of what the successive read() calls return, and the
   partial sequence still held at the end, are the same — provided the stream is well-bounded
   ([wb]: no 0x9B / 0x9D byte, no unfinished sequence longer than the hold-back bound). *)
Theorem C02_read_chunk_cr_independent :
  forall n h cs1 cs2,
    held_ok n h -> rm_cr (concat cs1) = rm_cr (concat cs2) ->
    wb n (h ++ rm_cr (concat cs1)) = true ->
    concat (snd (reads n h cs1)) = concat (snd (reads n h cs2)) /\
    fst (reads n h cs1) = fst (reads n h cs2).
Proof. exact reads_chunk_cr_independent. Qed.
Print Assumptions C02_read_chunk_cr_independent.

(* per-read stripping = one walk over the whole stream, for every chunking *)
Theorem C02_read_is_stream_function :
  forall n cs h, held_ok n h -> wb n (h ++ rm_cr (concat cs)) = true ->
    concat (snd (reads n h cs)) = fst (scanh n (h ++ rm_cr (concat cs))) /\
    fst (reads n h cs) = snd (scanh n (h ++ rm_cr (concat cs))).
Proof. exact reads_stream. Qed.
Print Assumptions C02_read_is_stream_function.

(* Text (no ESC / C1 byte) decorated at any character boundary with well-formed CSI / SGR /
   OSC-title / ESC 7,8,M,E sequences (at most n parameter bytes), CRs anywhere, cut ANYWHERE:
   read() returns exactly the text and holds nothing back at the end. *)
Theorem C02_read_decorated :
  forall n ts cs, forallb (tok_ok n) ts = true -> rm_cr (concat cs) = stream ts ->
    concat (snd (reads n [] cs)) = plain ts /\ fst (reads n [] cs) = [].
Proof. exact reads_decorated. Qed.
Print Assumptions C02_read_decorated.

(* the model's [strip] IS re.sub(ANSI_ESCAPE_PATTERN, b"") of the priority engine, for the pattern
   translated from the CURRENT source (gen_ansi): checked by conversion on every run *)
Theorem C02_strip_is_source_pattern :
  forall s, all_bytes s = true -> sub_all gen_ansi s = strip s.
Proof. exact strip_is_sub_all. Qed.
Print Assumptions C02_strip_is_source_pattern.

(* the language of held-back starts IS ANSI_ESCAPE_PARTIAL_PATTERN (the pattern translated from the
   current source, without its final \Z) matched up to the end of the buffer (\Z = [k_end]) *)
Theorem C02_hold_back_is_source_pattern :
  forall b s, all_bytes s = true -> full gen_partial b s = inL gen_hb s.
Proof. exact full_partial. Qed.
Print Assumptions C02_hold_back_is_source_pattern.

(* ---- the accumulate-and-match loops ------------------------------------------------------------ *)
(* canonical form: under every chunking the loop returns the buffer accumulated at a read boundary
   (a function of the stream prefix read so far) where the predicate holds, or reads everything *)
Theorem C02_loop_canonical :
  forall n Q cs h acc, held_ok n h -> wb n (h ++ rm_cr (concat cs)) = true ->
    match rloop n Q h acc cs with
    | LDone a h' rest =>
        exists pre, cs = pre ++ rest /\ pre <> [] /\ a = acc ++ vis n h (concat pre) /\
                    h' = held n h (concat pre) /\ Q a = true
    | LBlocks a h' => a = acc ++ vis n h (concat cs) /\ h' = held n h (concat cs)
    end.
Proof. exact rloop_canonical. Qed.
Print Assumptions C02_loop_canonical.

(* chunk independence of a loop: same stream, any two segmentations into non-empty reads; side
   condition: the predicate does not hold at a non-empty proper prefix of the stream (it may hold at
   the end — the loop returns everything — or never — the loop blocks) *)
Theorem C02_loop_chunk_independent :
  forall n Q h acc cs1 cs2,
    held_ok n h -> concat cs1 = concat cs2 -> wb n (h ++ rm_cr (concat cs1)) = true ->
    Forall nonempty cs1 -> Forall nonempty cs2 ->
    (forall P t, concat cs1 = P ++ t -> P <> [] -> t <> [] -> Q (acc ++ vis n h P) = false) ->
    rloop n Q h acc cs1 = rloop n Q h acc cs2.
Proof. exact rloop_chunk_independent. Qed.
Print Assumptions C02_loop_chunk_independent.

(* the benign residue: a predicate false before a prefix P0 of the stream and true from P0 on (the
   prompt pattern `...#\s?$` from the `#` on, when only the optional blank follows): every chunking
   completes and returns a buffer that contains P0; only part of what follows P0 may stay unread *)
Theorem C02_loop_residue :
  forall n Q cs h acc P0 T0,
    held_ok n h -> wb n (h ++ rm_cr (concat cs)) = true -> Forall nonempty cs -> cs <> [] ->
    concat cs = P0 ++ T0 ->
    (forall P t, concat cs = P ++ t -> P <> [] -> (length P < length P0)%nat -> Q (acc ++ vis n h P) = false) ->
    (forall P t, concat cs = P ++ t -> (length P0 <= length P)%nat -> Q (acc ++ vis n h P) = true) ->
    exists pre rest, cs = pre ++ rest /\
      rloop n Q h acc cs = LDone (acc ++ vis n h (concat pre)) (held n h (concat pre)) rest /\
      (length P0 <= length (concat pre))%nat.
Proof. exact rloop_residue. Qed.
Print Assumptions C02_loop_residue.

(* the echo tests (strict and rough) are monotone, so whether _read_until_input completes never
   depends on the chunking, without any side condition on the stream *)
Theorem C02_echo_completion_chunk_independent :
  forall n c inp h acc cs1 cs2,
    held_ok n h -> concat cs1 = concat cs2 -> wb n (h ++ rm_cr (concat cs1)) = true ->
    cs1 <> [] -> cs2 <> [] ->
    completes (rloop n (Q_echo c inp) h acc cs1) = completes (rloop n (Q_echo c inp) h acc cs2).
Proof. exact (fun n c inp h acc cs1 cs2 => rloop_mono_chunk_independent n (Q_echo c inp) h acc cs1 cs2 (Q_echo_monotone c inp)). Qed.
Print Assumptions C02_echo_completion_chunk_independent.

(* chunking, CR insertion and decoration together, for one loop: the same text under two
   decorations / CR placements / segmentations gives the same result (the buffer is exactly the text) *)
Theorem C02_loop_decoration_independent :
  forall n Q acc c tsa tsb csa csb rawa rawb,
    forallb (tok_ok n) (tsa ++ [TChar c]) = true -> forallb (tok_ok n) (tsb ++ [TChar c]) = true ->
    plain tsa = plain tsb -> c <> 13 ->
    concat csa = rawa ++ [c] -> rm_cr rawa = stream tsa -> Forall nonempty csa ->
    concat csb = rawb ++ [c] -> rm_cr rawb = stream tsb -> Forall nonempty csb ->
    (forall T1 T2, plain (tsa ++ [TChar c]) = T1 ++ T2 -> T2 <> [] -> Q (acc ++ T1) = false) ->
    Q (acc ++ plain (tsa ++ [TChar c])) = true ->
    rloop n Q [] acc csa = rloop n Q [] acc csb.
Proof. exact rloop_decoration_independent. Qed.
Print Assumptions C02_loop_decoration_independent.

(* ---- whole operations against a causal device, for all read schedules --------------------------- *)
(* For every device (any state type and answer function), every channel program (get_prompt,
   send_input, send_inputs_interact, the in-channel logins are programs), every two read schedules:
   result, write log, device state, unread and held bytes, completion are the same, under the side
   condition [tidy] (decided by computation on the run with whole reads): at every read loop the
   predicate first holds when everything pending has been read, or never. *)
Theorem C02_exec_schedule_independent :
  forall (D : Type) (feed : D -> bytes -> D * bytes) n p d pend h s1 s2 ws,
    held_ok n h -> tidy D feed n p d pend h = true ->
    exec D feed n p d pend h s1 ws = exec D feed n p d pend h s2 ws.
Proof. exact exec_schedule_independent. Qed.
Print Assumptions C02_exec_schedule_independent.

(* ---- rough input matching ------------------------------------------------------------------------- *)
Theorem C02_roughly_is_subsequence : forall i o, roughly i o = true <-> subseq i o.
Proof. exact roughly_subseq. Qed.
Print Assumptions C02_roughly_is_subsequence.

Theorem C02_roughly_monotone : forall i a x, roughly i a = true -> roughly i (a ++ x) = true.
Proof. exact roughly_monotone. Qed.
Print Assumptions C02_roughly_monotone.

(* ---- the full statements without side conditions are false; so is the superseded code ------------ *)
Theorem C02_read_full_refuted_c1_prefix : ~ reads_full 64.
Proof. exact reads_full_refuted_c1. Qed.
Print Assumptions C02_read_full_refuted_c1_prefix.

Theorem C02_read_full_refuted_bound : ~ reads_full 64.
Proof. exact reads_full_refuted_bound. Qed.
Print Assumptions C02_read_full_refuted_bound.

Theorem C02_loop_full_refuted : ~ rloop_full 64.
Proof. exact rloop_full_refuted. Qed.
Print Assumptions C02_loop_full_refuted.

Theorem C02_pinned_read_refuted :
  exists cs1 cs2, concat cs1 = concat cs2 /\
    concat (map read_step_old cs1) <> concat (map read_step_old cs2).
Proof. exact old_read_refuted. Qed.
Print Assumptions C02_pinned_read_refuted.

Theorem C02_leftmost_hold_back_refuted :
  exists ts cs1 cs2, forallb (tok_ok 64) ts = false /\ wb 64 (concat cs1) = true /\ concat cs1 = concat cs2 /\
    concat (snd (reads_with (read_step_leftmost 64) [] cs1)) <> concat (snd (reads_with (read_step_leftmost 64) [] cs2)) /\
    concat (snd (reads 64 [] cs1)) = concat (snd (reads 64 [] cs2)).
Proof. exact leftmost_hold_refuted. Qed.
Print Assumptions C02_leftmost_hold_back_refuted.

Theorem C02_pinned_roughly_refuted : exists i o, roughly_old i o = true /\ ~ subseq i o.
Proof. exact roughly_old_refuted. Qed.
Print Assumptions C02_pinned_roughly_refuted.

(* ---- tie to the current source tree (Gen_Chunking.v, regenerated on every run) --------------------- *)
Theorem C02_generated_facts :
  gen_ansi = ansi_re /\ gen_hb = 64%nat /\ (0 < gen_depth)%nat /\ gen_ret <> [] /\
  (* the default prompt pattern is found in a prompt line and not in the empty buffer *)
  Q_prompt gen_depth gen_prompt [10; 114; 49; 35] = true /\ Q_prompt gen_depth gen_prompt [] = false.
Proof. repeat split; try reflexivity; try (vm_compute; repeat constructor); discriminate. Qed.
Print Assumptions C02_generated_facts.

(* the operations with the GENERATED defaults, on a scripted device: tidy, hence schedule-independent *)
Definition gcfg (rough : bool) : cfg := mkCfg gen_hb gen_depth gen_prompt gen_ret rough.
Theorem C02_generated_send_input_all_schedules :
  forall rough s1 s2,
    exec (list bytes) script_feed gen_hb (p_send_input (gcfg rough) [115; 104; 111; 119] true false false)
         [[115; 104; 111; 119]; [13; 10; 111; 117; 116; 13; 10; 27; 91; 48; 109; 114; 49; 35]] [] [] s1 [] =
    exec (list bytes) script_feed gen_hb (p_send_input (gcfg rough) [115; 104; 111; 119] true false false)
         [[115; 104; 111; 119]; [13; 10; 111; 117; 116; 13; 10; 27; 91; 48; 109; 114; 49; 35]] [] [] s2 [].
Proof.
  intros rough s1 s2. apply exec_schedule_independent; [left; reflexivity|].
  destruct rough; vm_compute; reflexivity.
Qed.
Print Assumptions C02_generated_send_input_all_schedules.

(* the in-channel telnet login with the GENERATED patterns, on a scripted login dialogue whose prompts
   carry no trailing blank: tidy, hence the same outcome (here: logged in, user name and password
   written once each) under every read schedule *)
Definition glogin : prog :=
  p_auth 8 (gcfg false) (mkAuth (Some gen_login) gen_password None [97; 100; 109] [112; 119] [] []) 0 0 0 [].
Definition glogin_dev : list bytes :=
  [[97; 100; 109]; [13; 10; 80; 97; 115; 115; 119; 111; 114; 100; 58]; []; [13; 10; 13; 10; 114; 49; 35]].
Theorem C02_generated_login_all_schedules :
  forall s1 s2,
    exec (list bytes) script_feed gen_hb glogin glogin_dev [85; 115; 101; 114; 110; 97; 109; 101; 58] [] s1 [] =
    exec (list bytes) script_feed gen_hb glogin glogin_dev [85; 115; 101; 114; 110; 97; 109; 101; 58] [] s2 [] /\
    exec (list bytes) script_feed gen_hb glogin glogin_dev [85; 115; 101; 114; 110; 97; 109; 101; 58] [] s1 [] =
    Done (list bytes) [] [] [] [] [[97; 100; 109]; [10]; [112; 119]; [10]].
Proof.
  intros s1 s2.
  assert (tidy (list bytes) script_feed gen_hb glogin glogin_dev [85; 115; 101; 114; 110; 97; 109; 101; 58] [] = true) as T
    by (vm_compute; reflexivity).
  split.
  - apply exec_schedule_independent; [left; reflexivity|exact T].
  - rewrite (exec_schedule_independent (list bytes) script_feed gen_hb glogin glogin_dev _ [] s1 [] [] (or_introl eq_refl) T).
    vm_compute. reflexivity.
Qed.
Print Assumptions C02_generated_login_all_schedules.
