(* C05 — every device prompt maps to exactly one privilege level.
   General theorems (this file) + one generated theorem per platform (C05_<platform>.v, compiled on
   every run from the patterns of the current source tree and the prompt grammars of spec/prompts.py).
   This file contains only statements closed by [exact]. *)
From Coq Require Import String.
From Verif Require Import Bytes Regex RegexDeriv RegexDecide Regex_Proofs RegexSearch RegexSearch_Proofs Prompt Prompt_Proofs PromptCache PromptCache_Proofs PromptCacheObjs PromptCacheObjs_Proofs PromptCacheBound_Proofs.
From Gen Require Import Gen_PromptCache.

(* the decision procedure: a validated closed certificate means NO byte string at all is accepted *)
Theorem C05_decision_sound :
  forall CL atoms fuel t0, decide_empty CL atoms fuel t0 = true ->
  forall s, all_bytes s = true -> accepts t0 s = false.
Proof. exact decide_empty_sound. Qed.
Print Assumptions C05_decision_sound.

(* the one-pass search used by the fact checker: it answers true only when the set of states it found is
   closed under every byte and contains no accepting state — again NO byte string at all is accepted *)
Theorem C05_search_sound :
  forall CL atoms fuel t0, decide1 CL atoms fuel t0 = true ->
  forall s, all_bytes s = true -> accepts t0 s = false.
Proof. exact decide1_sound. Qed.
Print Assumptions C05_search_sound.

(* a decided fact is a statement about EVERY string of the grammar *)
Theorem C05_fact_sound : forall fuel f, fact_check_auto fuel f = true -> fact_holds f.
Proof. exact fact_check_auto_sound. Qed.
Print Assumptions C05_fact_sound.

(* from decided facts to the property: every string of a mode's grammar is classified as exactly the
   expected levels by the model of _determine_current_priv, and is found by the combined channel pattern *)
Theorem C05_obligations_sound :
  forall fuel decided obs,
  forallb (fact_check_auto fuel) decided = true -> forallb (ob_covered decided) obs = true ->
  forall o, In o obs ->
  forall s, all_bytes s = true ->
    (accepts (gtop (o_G o)) s = true -> classify (o_tbl o) s = expected (o_tbl o) (o_cls o)) /\
    (accepts (gtop (o_D o)) s = true -> search_b (o_combined o) s = true).
Proof. exact obligations_sound. Qed.
Print Assumptions C05_obligations_sound.

(* the lru_cache in front of the classifier is invisible on EVERY history of queries and table updates
   (register_configuration_session / update_privilege_levels), because the update clears it — the
   flag and the capacity are read from the source on every run *)
Theorem C05_cache_transparent :
  forall (tbl : list level) (ops : list (cop (list level))),
  snd (crun classify_opt gen_cap gen_update_clears_cache (mkC tbl []) ops) = cspec classify_opt tbl ops.
Proof. exact (cache_transparent_from_empty (list level) (list string) classify_opt gen_cap). Qed.
Print Assumptions C05_cache_transparent.

(* SEVERAL driver objects alive in one process: functools.lru_cache on the method is ONE cache for the class (shared
   capacity, cache_clear() of any object empties it for all); it is invisible on EVERY interleaved history of queries and
   table updates of ANY number of objects because its key contains the object — read from the source on every run *)
Theorem C05_cache_transparent_objects :
  forall (tbls : list (list level)) (ops : list (mop (list level))),
  snd (mrun classify_opt gen_keyed_by_self gen_cap gen_update_clears_cache (mkM tbls []) ops) = mspec classify_opt tbls ops.
Proof. exact (objects_cache_transparent_from_empty (list level) (list string) classify_opt gen_cap). Qed.
Print Assumptions C05_cache_transparent_objects.

(* the memo stays a well-formed LRU store on EVERY history, of one object or of any number of interleaved objects: never
   more entries than the capacity read from the source, never two entries for one key — so a long-lived session that
   sees unboundedly many distinct prompts (hostname changes, config sessions) cannot grow it, and a hit is unambiguous *)
Theorem C05_cache_bounded :
  forall (tbl : list level) (ops : list (cop (list level))),
  good (list string) gen_cap
    (c_cache (fst (crun classify_opt gen_cap gen_update_clears_cache (mkC tbl []) ops))).
Proof. exact (fun tbl ops => cache_bounded (list level) (list string) classify_opt gen_cap gen_update_clears_cache ops (mkC tbl []) (nil_good _ _)). Qed.
Print Assumptions C05_cache_bounded.

Theorem C05_cache_bounded_objects :
  forall (tbls : list (list level)) (ops : list (mop (list level))),
  good (list string) gen_cap
    (m_cache (fst (mrun classify_opt gen_keyed_by_self gen_cap gen_update_clears_cache (mkM tbls []) ops))).
Proof. exact (fun tbls ops => objects_cache_bounded (list level) (list string) classify_opt gen_keyed_by_self gen_cap gen_update_clears_cache ops (mkM tbls []) (nil_good _ _)). Qed.
Print Assumptions C05_cache_bounded_objects.

(* recency: whenever the capacity is positive, an answered query leaves its own entry at the front of the store *)
Theorem C05_cache_recency :
  forall (s : cst (list level) (list string)) p v, (1 <= gen_cap)%nat ->
  snd (cstep classify_opt gen_cap gen_update_clears_cache s (Query p)) = Some (Some v) ->
  hd_error (c_cache (fst (cstep classify_opt gen_cap gen_update_clears_cache s (Query p)))) = Some (p, v).
Proof. exact (cstep_front (list level) (list string) classify_opt gen_cap gen_update_clears_cache). Qed.
Print Assumptions C05_cache_recency.

(* a memo whose key ignores the object hands object 1 the answer computed for object 0 *)
Theorem C05_cache_shared_key_refuted :
  snd (mrun toy_classify false 64 true (mkM [0%nat; 1%nat] []) [MQuery 0 [1]; MQuery 1 [1]])
  <> mspec toy_classify [0%nat; 1%nat] [MQuery 0 [1]; MQuery 1 [1]].
Proof. exact shared_key_refuted. Qed.
Print Assumptions C05_cache_shared_key_refuted.

Lemma C05_update_regenerates_pattern : gen_update_regenerates_pattern = true. Proof. reflexivity. Qed.
Lemma C05_update_pushes_pattern : gen_update_pushes_pattern_to_channel = true. Proof. reflexivity. Qed.
Lemma C05_register_then_update : gen_register_then_update = true. Proof. reflexivity. Qed.

(* without the clear, a stale classification survives a table update *)
Theorem C05_cache_without_clear_refuted :
  snd (crun toy_classify 64 false (mkC 0%nat []) [Query [1]; Update 1%nat; Query [1]])
  <> cspec toy_classify 0%nat [Query [1]; Update 1%nat; Query [1]].
Proof. exact stale_without_clear. Qed.
Print Assumptions C05_cache_without_clear_refuted.
