(* C19 — with channel locking on, concurrent operations never interleave.
   This file contains only the property theorems (closed by [exact]) and Print Assumptions.
   Gen_Lock.v is regenerated from the current source tree on every run: the context manager
   `_channel_lock` and the six public operations of Channel and AsyncChannel as terms of Lock.v. *)
From Verif Require Import Bytes Lock Lock_Proofs.
From Gen Require Import Gen_Lock.
Open Scope nat_scope.

(* ---- tie: what the current source says ------------------------------------------------------ *)
(* the context manager takes the lock before the with-body and gives it back on a normal exit AND
   when the body raised (and does nothing when channel_lock is off), in both stacks *)
Theorem C19_gen_cm_good : cm_good gen_cm_sync = true /\ cm_good gen_cm_async = true.
Proof. exact (conj eq_refl eq_refl). Qed.
Print Assumptions C19_gen_cm_good.

(* every operation of both classes: each transport call — directly or through any helper — lies in
   exactly one `with self._channel_lock()` section, sections are not nested, at most one section per
   call of the operation; and the operations do reach the transport (the test is not vacuous) *)
Theorem C19_gen_ops_wf :
  forallb wf gen_ops_sync = true /\ forallb wf gen_ops_async = true /\
  forallb has_io gen_ops_sync = true /\ forallb has_io gen_ops_async = true /\
  gen_nops_sync = 6 /\ gen_nops_async = 6.
Proof. exact (conj eq_refl (conj eq_refl (conj eq_refl (conj eq_refl (conj eq_refl eq_refl))))). Qed.
Print Assumptions C19_gen_ops_wf.

(* the four operations of the property are among them *)
Theorem C19_gen_ops_named :
  nth_error gen_ops_sync 2 = Some gen_sync_get_prompt /\ nth_error gen_ops_sync 3 = Some gen_sync_send_input /\
  nth_error gen_ops_sync 4 = Some gen_sync_send_input_and_read /\
  nth_error gen_ops_sync 5 = Some gen_sync_send_inputs_interact /\
  nth_error gen_ops_async 2 = Some gen_async_get_prompt /\ nth_error gen_ops_async 3 = Some gen_async_send_input /\
  nth_error gen_ops_async 4 = Some gen_async_send_input_and_read /\
  nth_error gen_ops_async 5 = Some gen_async_send_inputs_interact.
Proof.
  exact (conj eq_refl (conj eq_refl (conj eq_refl (conj eq_refl (conj eq_refl (conj eq_refl (conj eq_refl eq_refl))))))).
Qed.
Print Assumptions C19_gen_ops_named.

(* the lock object is created exactly when channel_lock=True (threading.Lock / asyncio.Lock) *)
Theorem C19_gen_lock_created_iff : gen_init_ok_sync = true /\ gen_init_ok_async = true.
Proof. exact (conj eq_refl eq_refl). Qed.
Print Assumptions C19_gen_lock_created_iff.

(* per-channel STATE (the held-back partial escape sequence, buffers: any attribute of the channel object) is written
   only inside the lock section: no public operation writes an attribute of self -- directly or through any helper method /
   property it calls -- before it holds the lock or after it released it (ast scan StateScan of gen/gen_lock.py over the
   whole bodies of the operations; a caller queueing for the lock cannot disturb the read state of the exchange in flight) *)
Theorem C19_gen_state_written_in_lock_section :
  gen_state_written_outside_lock_sync = false /\ gen_state_written_outside_lock_async = false.
Proof. exact (conj eq_refl eq_refl). Qed.
Print Assumptions C19_gen_state_written_in_lock_section.

(* ---- every path of every operation is one lock section, closed on every exit ------------------ *)
(* for every execution path of every public operation (any branch, any number of loop iterations,
   any transport call or local computation raising, cancellation while waiting for the lock): the
   caller's events are nothing at all, or  acquire ; transport events only ; release  — so no
   transport event happens outside the lock and acquire/release are balanced however the call ends *)
Theorem C19_sync_paths_one_block : forall s t md,
  In s gen_ops_sync -> exec (cm_eval true gen_cm_sync) s t md -> one_block t /\ count_acq t = count_rel t.
Proof. exact (ops_one_block gen_cm_sync gen_ops_sync eq_refl eq_refl). Qed.
Print Assumptions C19_sync_paths_one_block.

Theorem C19_async_paths_one_block : forall s t md,
  In s gen_ops_async -> exec (cm_eval true gen_cm_async) s t md -> one_block t /\ count_acq t = count_rel t.
Proof. exact (ops_one_block gen_cm_async gen_ops_async eq_refl eq_refl). Qed.
Print Assumptions C19_async_paths_one_block.

(* ---- mutual exclusion, lock released, no deadlock: all interleavings of N callers -------------- *)
(* any number of callers, each running any path (of any length) of any operation, every schedule at
   the granularity of single lock / transport events: the trace passes the owner scan (a transport
   event of k happens only while k holds the lock), when all are through the lock is free, and
   before that some caller can always step *)
Theorem C19_mutual_exclusion_sync : forall ps,
  Forall (fun p => exists s md, In s gen_ops_sync /\ exec (cm_eval true gen_cm_sync) s p md) ps ->
  forall tr cf, rrun (rinit ps) tr cf ->
    tscan None tr = Some (r_lock cf) /\
    (forall pre k x post, tr = pre ++ (k, LIo x) :: post -> tscan None pre = Some (Some k)) /\
    (rdone cf -> r_lock cf = None) /\
    (~ rdone cf -> exists e cf', rstep cf e cf').
Proof. exact (shape_interleaving gen_cm_sync gen_ops_sync eq_refl eq_refl). Qed.
Print Assumptions C19_mutual_exclusion_sync.

Theorem C19_mutual_exclusion_async : forall ps,
  Forall (fun p => exists s md, In s gen_ops_async /\ exec (cm_eval true gen_cm_async) s p md) ps ->
  forall tr cf, rrun (rinit ps) tr cf ->
    tscan None tr = Some (r_lock cf) /\
    (forall pre k x post, tr = pre ++ (k, LIo x) :: post -> tscan None pre = Some (Some k)) /\
    (rdone cf -> r_lock cf = None) /\
    (~ rdone cf -> exists e cf', rstep cf e cf').
Proof. exact (shape_interleaving gen_cm_async gen_ops_async eq_refl eq_refl). Qed.
Print Assumptions C19_mutual_exclusion_async.

(* ---- reactive callers over a device, with failures ------------------------------------------- *)
(* For EVERY device (state machine with blocking reads), EVERY family of reactive operations (what a
   caller writes next depends on what it has read), ANY number of callers, EVERY schedule and EVERY
   placement of failures (an exception / timeout / cancellation may end a holder's operation at any
   point, a waiter may give up at any point). *)
Section C19_reactive.
  Variables D St R : Type.
  Variable next : St -> action R.
  Variable on_write : St -> St.
  Variable on_read : St -> bytes -> St.
  Variable dwrite : D -> bytes -> D.
  Variable dread : D -> option (bytes * D).

  (* between a caller's acquire and its release every wire event is that caller's *)
  Theorem C19_mutual_exclusion : forall d ss tr cf,
    run D St R next on_write on_read dwrite dread true (init D St R d ss) tr cf ->
    exclusive tr /\ scan None tr = Some (lock cf).
  Proof. exact (mutual_exclusion D St R next on_write on_read dwrite dread). Qed.

  (* the wire trace of a complete run is the concatenation of whole operations in acquisition order;
     the device ends where that sequential run leaves it; each caller's outcome is the outcome of its
     own whole operation started from the device state the operations before it left *)
  Theorem C19_serialisable : forall d ss tr cf,
    run D St R next on_write on_read dwrite dread true (init D St R d ss) tr cf ->
    all_finished D St R cf ->
    exists order,
      seq_run D St R next on_write on_read dwrite dread ss d order (wire tr) (dev cf) /\
      map fst order = acq_order tr /\ NoDup (map fst order) /\
      (forall c o, In (c, o) order -> nth_error (sts cf) c = Some (Finished o)) /\
      (forall c o, nth_error (sts cf) c = Some (Finished o) -> In (c, o) order \/ o = OGaveUp).
  Proof. exact (serialisable D St R next on_write on_read dwrite dread). Qed.

  (* the same as the property reads: the wire trace is the concatenation of the callers' own blocks, in
     the order in which they acquired the lock *)
  Theorem C19_serial_form : forall d ss tr cf,
    run D St R next on_write on_read dwrite dread true (init D St R d ss) tr cf ->
    all_finished D St R cf ->
    wire tr = flat_map (fun c => block_of c tr) (acq_order tr).
  Proof. exact (serial_form D St R next on_write on_read dwrite dread). Qed.

  (* without failures the results do not depend on the schedule, only on the acquisition order *)
  Theorem C19_schedule_independent : forall d ss tr1 cf1 tr2 cf2,
    run D St R next on_write on_read dwrite dread true (init D St R d ss) tr1 cf1 -> all_finished D St R cf1 ->
    run D St R next on_write on_read dwrite dread true (init D St R d ss) tr2 cf2 -> all_finished D St R cf2 ->
    acq_order tr1 = acq_order tr2 ->
    (forall c o, nth_error (sts cf1) c = Some (Finished o) -> exists r, o = OOk r) ->
    (forall c o, nth_error (sts cf2) c = Some (Finished o) -> exists r, o = OOk r) ->
    wire tr1 = wire tr2 /\ dev cf1 = dev cf2 /\
    forall c o, nth_error (sts cf1) c = Some (Finished o) -> nth_error (sts cf2) c = Some (Finished o).
  Proof. exact (schedule_independent D St R next on_write on_read dwrite dread). Qed.

  (* whatever way an operation ends — result or failure — the lock is free afterwards and every
     waiting caller can take it *)
  Theorem C19_lock_released : forall d ss tr cf e cf' c,
    run D St R next on_write on_read dwrite dread true (init D St R d ss) tr cf ->
    step D St R next on_write on_read dwrite dread true cf e cf' -> (e = ERel c \/ e = EFault c) ->
    lock cf' = None /\
    forall c' s, nth_error (sts cf') c' = Some (Waiting s) ->
                 exists cf'', step D St R next on_write on_read dwrite dread true cf' (EAcq c') cf''.
  Proof. exact (lock_released D St R next on_write on_read dwrite dread). Qed.

  Theorem C19_lock_free_at_end : forall d ss tr cf,
    run D St R next on_write on_read dwrite dread true (init D St R d ss) tr cf ->
    all_finished D St R cf -> lock cf = None.
  Proof. exact (all_finished_lock_free D St R next on_write on_read dwrite dread). Qed.

  (* no deadlock: some caller can take a step of its own, unless the holder waits for a silent device *)
  Theorem C19_no_deadlock : forall d ss tr cf,
    run D St R next on_write on_read dwrite dread true (init D St R d ss) tr cf ->
    ~ all_finished D St R cf ->
    (exists e cf', step D St R next on_write on_read dwrite dread true cf e cf' /\
                   (forall c, e <> EFault c) /\ (forall c, e <> EGiveUp c)) \/
    (exists h s, lock cf = Some h /\ nth_error (sts cf) h = Some (Holding s) /\
                 next s = ARead /\ dread (dev cf) = None).
  Proof. exact (progress D St R next on_write on_read dwrite dread). Qed.

  (* "a timed-out operation never blocks the next one", where the timeout ends the operation (asyncio,
     signal mechanism, thread pool with the transport closed): the holder is stalled on a silent device,
     its timeout elapses, and every waiting caller can take the lock *)
  Theorem C19_timeout_unblocks_partial :
    timeout_unblocks D St R next on_write on_read dwrite dread TEnds.
  Proof. exact (timeout_unblocks_partial D St R next on_write on_read dwrite dread). Qed.

  (* the caller's own view of a complete run is one block: the form proved above for every path of
     every operation of the source *)
  Theorem C19_caller_view_one_block : forall d ss tr cf c,
    run D St R next on_write on_read dwrite dread true (init D St R d ss) tr cf ->
    all_finished D St R cf -> one_block (caller_view c tr).
  Proof. exact (caller_view_one_block D St R next on_write on_read dwrite dread). Qed.

  (* channel_lock off: the lock stays absent, acquiring never waits, nothing depends on it *)
  Theorem C19_disabled_is_noop : forall d ss tr cf,
    run D St R next on_write on_read dwrite dread false (init D St R d ss) tr cf ->
    lock cf = None /\
    (forall c s, nth_error (sts cf) c = Some (Waiting s) ->
                 exists cf', step D St R next on_write on_read dwrite dread false cf (EAcq c) cf') /\
    (forall e cf', step D St R next on_write on_read dwrite dread false cf e cf' -> lock cf' = None).
  Proof. exact (disabled_is_noop D St R next on_write on_read dwrite dread). Qed.
End C19_reactive.
Print Assumptions C19_mutual_exclusion.
Print Assumptions C19_serialisable.
Print Assumptions C19_serial_form.
Print Assumptions C19_schedule_independent.
Print Assumptions C19_lock_released.
Print Assumptions C19_lock_free_at_end.
Print Assumptions C19_no_deadlock.
Print Assumptions C19_caller_view_one_block.
Print Assumptions C19_timeout_unblocks_partial.
Print Assumptions C19_disabled_is_noop.

(* the full statement (every timeout mechanism) is false of the code as it is: with the thread-pool
   mechanism and Settings.NO_TERMINATE_ON_TIMEOUT nothing ends the stalled operation and it keeps the lock
   (known finding C19-thread-noterm-stalled-holder, replayed on the real code on every run) *)
Theorem C19_timeout_unblocks_refuted : ~ timeout_unblocks_full.
Proof. exact timeout_unblocks_refuted. Qed.
Print Assumptions C19_timeout_unblocks_refuted.

Theorem C19_timeout_mechanisms :
  tmo_effect_of true true = TContinues /\ tmo_effect_of true false = TEnds /\
  tmo_effect_of false true = TEnds /\ tmo_effect_of false false = TEnds.
Proof. exact (conj eq_refl (conj eq_refl (conj eq_refl eq_refl))). Qed.
Print Assumptions C19_timeout_mechanisms.

(* channel_lock off at the level of the source's operations: no lock events at all, and the paths are
   those of the operation with its lock statements erased *)
Theorem C19_disabled_paths_sync : forall s t md,
  In s gen_ops_sync -> exec (cm_eval false gen_cm_sync) s t md ->
  forallb is_io t = true /\ exec cm_on (erase s) t md.
Proof. exact (ops_disabled gen_cm_sync gen_ops_sync eq_refl). Qed.
Print Assumptions C19_disabled_paths_sync.

Theorem C19_disabled_paths_async : forall s t md,
  In s gen_ops_async -> exec (cm_eval false gen_cm_async) s t md ->
  forallb is_io t = true /\ exec cm_on (erase s) t md.
Proof. exact (ops_disabled gen_cm_async gen_ops_async eq_refl). Qed.
Print Assumptions C19_disabled_paths_async.

(* with the lock off interleaving IS reachable (the exclusion theorems are about the lock) *)
Theorem C19_disabled_interleaves :
  exists tr cf, sc_run false (sc_init [[35%N]; [115%N]] [[IW [115%N]; IR [115%N]]; [IW [10%N]; IR [35%N]]]) tr cf /\
                all_finished (list bytes) script unit cf /\ scan None tr = None.
Proof. exact disabled_interleaves. Qed.
Print Assumptions C19_disabled_interleaves.

(* the executable check the correspondence run applies to observed traces is sound for the model *)
Theorem C19_check_run_sound : forall en scripts tr, check_run en scripts tr = true ->
  exists cf, sc_run en (sc_init (reads_of tr) scripts) tr cf /\
             all_finished (list bytes) script unit cf /\ lock cf = None /\
             (en = true -> scan None tr = Some None).
Proof. exact check_run_sound. Qed.
Print Assumptions C19_check_run_sound.

(* ---- the lock object across re-opens of the connection (Lock.v layer D) ------------------------ *)
(* tie (ast, whole class bodies of BaseChannel + Channel / AsyncChannel, reachable or not, AND every other
   module of the package — drivers, factory, transports, ...: any `x.channel_lock = ...`, `del`, setattr /
   delattr): nothing but the channel's `__init__` binds or deletes `channel_lock` — open(), close(),
   Driver.commandeer() ... leave the lock object alone *)
Theorem C19_gen_lock_identity : gen_lock_rebound_sync = false /\ gen_lock_rebound_async = false.
Proof. exact (conj eq_refl eq_refl). Qed.
Print Assumptions C19_gen_lock_identity.

(* any number of callers, any number of re-opens (`channel.open()`, by anybody, at any time) and other
   steps of the connection's life outside a lock section (commandeer()), failures
   and retries, callers queued on the lock meanwhile: at most one caller holds the channel lock in
   every reachable configuration, and a transport event happens only while its caller is that holder *)
Theorem C19_reopen_mutual_exclusion_sync : forall n tr cf,
  oreplay gen_lock_rebound_sync (oinit n) tr = Some cf ->
  holders cf <= 1 /\
  forall pre c post, tr = pre ++ OIo c :: post ->
    exists cf' g, oreplay gen_lock_rebound_sync (oinit n) pre = Some cf' /\
                  nth_error (o_sts cf') c = Some (OHold g) /\ holders cf' = 1.
Proof. exact (reopen_mutual_exclusion gen_lock_rebound_sync eq_refl). Qed.
Print Assumptions C19_reopen_mutual_exclusion_sync.

Theorem C19_reopen_mutual_exclusion_async : forall n tr cf,
  oreplay gen_lock_rebound_async (oinit n) tr = Some cf ->
  holders cf <= 1 /\
  forall pre c post, tr = pre ++ OIo c :: post ->
    exists cf' g, oreplay gen_lock_rebound_async (oinit n) pre = Some cf' /\
                  nth_error (o_sts cf') c = Some (OHold g) /\ holders cf' = 1.
Proof. exact (reopen_mutual_exclusion gen_lock_rebound_async eq_refl). Qed.
Print Assumptions C19_reopen_mutual_exclusion_async.

(* the full statement (whatever open() does to the attribute) is false: with a lock object recreated on
   open, a caller queued on the old object and the retry on the new one hold the lock together *)
Theorem C19_reopen_recreated_lock_refuted : ~ reopen_exclusive_full.
Proof. exact reopen_exclusive_refuted. Qed.
Print Assumptions C19_reopen_recreated_lock_refuted.
