(* C12 — secrets never appear in logs, repr or error messages.
   This file contains only the property theorems (closed by [exact] / by computation over the generated
   sink table) and Print Assumptions. *)
From Coq Require Import String.
From Verif Require Import Bytes Secrets Secrets_Proofs.
From Gen Require Import Gen_Sinks.

(* T1.  For ALL operation sequences (in-channel telnet / ssh login, get_prompt, send_input, send_inputs_interact,
   privilege escalation with auth_secondary, repr, str), ALL histories (any chunking, any pattern answers, disconnects,
   timeouts, blocking reads — failing paths included), the repaired and the unrepaired code alike: if the secrets do not
   occur in the non-secret inputs and the device does not print them, no log record, channel-log write, exception
   message, repr or str contains a secret atom. *)
Theorem C12_no_secret_in_observables : forall fixd ops h t s,
  forallb op_wf ops = true -> hist_pub h = true -> run_ops fixd ops h = (t, s) ->
  forall o, In o t -> obs_ok o = true.
Proof. exact no_secret_in_observables. Qed.
Print Assumptions C12_no_secret_in_observables.

(* T2.  A secret is only ever typed in answer to the prompt that asks for it (EVERY history, no assumption on the
   device): so a device that does not echo what it asks for in a password dialogue never gets to echo a secret. *)
Theorem C12_secrets_typed_only_when_asked : forall ops h t s,
  forallb op_wf ops = true -> forallb op_wf_first ops = true ->
  run_ops true ops h = (t, s) ->
  forall m, In (OWrite m false) t -> pub m = true.
Proof. exact secrets_typed_only_when_asked. Qed.
Print Assumptions C12_secrets_typed_only_when_asked.

(* T3.  With a causal device (a secret atom it prints is the echo of something typed when it was not asked for)
   nothing observable contains a secret atom. *)
Theorem C12_no_secret_causal_device : forall ops h t s,
  forallb op_wf ops = true -> forallb op_wf_first ops = true ->
  run_ops true ops h = (t, s) ->
  (forall a, In a (atoms_of_hist h) -> is_pub a = false -> In a (unasked_atoms t)) ->
  forall o, In o t -> obs_ok o = true.
Proof. exact no_secret_causal_device. Qed.
Print Assumptions C12_no_secret_causal_device.

(* the code before the repair (interaction not ended at a completion pattern) falsifies T2 and T3 *)
Theorem C12_unrepaired_refuted : ~ C12_typed_only_when_asked false /\ ~ C12_causal false.
Proof. exact unrepaired_refuted. Qed.
Print Assumptions C12_unrepaired_refuted.

Theorem C12_repaired_full : C12_typed_only_when_asked true /\ C12_causal true.
Proof. exact repaired_full. Qed.
Print Assumptions C12_repaired_full.

(* tie to the current source tree (Gen_Sinks.v is regenerated on every run): over EVERY logging call, raise and
   __repr__/__str__ of the anchored files (and the files between them and the credentials), no secret-carrying
   identifier reaches the message except under the redacted / hidden_input guard *)
Theorem C12_sinks_guarded : sinks_ok gen_sinks = true.
Proof. vm_compute. reflexivity. Qed.
Print Assumptions C12_sinks_guarded.

Theorem C12_sinks_guarded_meaning :
  forall s, In s gen_sinks -> forall id gs, In (id, gs) (s_flows s) -> In id secret_idents ->
  exists g, In g gs /\ In g redaction_guards.
Proof. exact (sinks_ok_sound gen_sinks C12_sinks_guarded). Qed.
Print Assumptions C12_sinks_guarded_meaning.

(* the extraction is not vacuous: the table is the size the translator says, it sees the secrets arrive (guarded)
   at the write record and at the interact record, and it contains the three kinds of sink *)
Example C12_sinks_nonvacuous :
  length gen_sinks = gen_nsinks /\ (150 <= gen_nsinks)%nat /\
  existsb (fun s => String.eqb (s_func s) "BaseChannel.write") (secret_sinks gen_sinks) = true /\
  existsb (fun s => String.eqb (s_func s) "Channel.send_inputs_interact") (secret_sinks gen_sinks) = true /\
  existsb (fun s => String.eqb (s_func s) "AsyncChannel.send_inputs_interact") (secret_sinks gen_sinks) = true /\
  (1 <= count_kind SRepr gen_sinks)%nat /\ (50 <= count_kind SRaise gen_sinks)%nat /\ (50 <= count_kind SLog gen_sinks)%nat.
Proof. vm_compute. repeat split; repeat constructor. Qed.
Print Assumptions C12_sinks_nonvacuous.
