(* C12 — secrets never appear in logs, repr or error messages.
   This file contains only the property theorems (closed by [exact] / by computation over the generated
   sink table) and Print Assumptions. *)
From Coq Require Import String.
From Verif Require Import Bytes Secrets Secrets_Proofs.
From Gen Require Import Gen_Sinks.

(* T1.  For ALL operation sequences (in-channel telnet / ssh login, get_prompt, send_input, send_inputs_interact,
   privilege escalation with auth_secondary, repr, str of the driver; str, raise_for_status of any Response and repr
   of a Response whose channel_input holds no hidden input; reassignment of a credential / a tunable; construction of a
   driver through the factory for a core or a community platform with ANY configuration), ALL histories (any chunking, any pattern answers, disconnects,
   timeouts, blocking reads — failing paths included), the repaired and the unrepaired code alike: if the secrets do not
   occur in the non-secret inputs and the device does not print them, no log record, channel-log write, exception
   message, repr or str contains a secret atom. *)
Theorem C12_no_secret_in_observables : forall fixd ops h t s,
  forallb op_wf ops = true -> hist_pub h = true -> run_ops fixd ops h = (t, s) ->
  forall o, In o t -> obs_ok o = true.
Proof. exact no_secret_in_observables. Qed.
Print Assumptions C12_no_secret_in_observables.

(* T2.  A secret is only ever typed in answer to the prompt that asks for it (EVERY history, no assumption on the
   device): so a device that does not echo what it asks for in a password dialogue never gets to echo a secret. *)
Theorem C12_secrets_typed_only_when_asked : forall ops h t s,
  forallb op_wf ops = true -> forallb op_wf_first ops = true ->
  run_ops true ops h = (t, s) ->
  forall m, In (OWrite m false) t -> pub m = true.
Proof. exact secrets_typed_only_when_asked. Qed.
Print Assumptions C12_secrets_typed_only_when_asked.

(* T3.  With a causal device (a secret atom it prints is the echo of something typed when it was not asked for)
   nothing observable contains a secret atom. *)
Theorem C12_no_secret_causal_device : forall ops h t s,
  forallb op_wf ops = true -> forallb op_wf_first ops = true ->
  run_ops true ops h = (t, s) ->
  (forall a, In a (atoms_of_hist h) -> is_pub a = false -> In a (unasked_atoms t)) ->
  forall o, In o t -> obs_ok o = true.
Proof. exact no_secret_causal_device. Qed.
Print Assumptions C12_no_secret_causal_device.

(* the code before the repair (interaction not ended at a completion pattern) falsifies T2 and T3 *)
Theorem C12_unrepaired_refuted : ~ C12_typed_only_when_asked false /\ ~ C12_causal false.
Proof. exact unrepaired_refuted. Qed.
Print Assumptions C12_unrepaired_refuted.

Theorem C12_repaired_full : C12_typed_only_when_asked true /\ C12_causal true.
Proof. exact repaired_full. Qed.
Print Assumptions C12_repaired_full.

(* The Response / MultiResponse objects handed to the user: str() and raise_for_status() show nothing of the channel
   input, whatever it holds; repr() shows host, channel_input and failed_when_contains, so the statement for EVERY
   response is false (the response of a send_interactive with a hidden input: known finding
   C12-response-repr-hidden-input) and holds outside that region. (T1 above covers these operations: [op_wf]
   of OpRespRepr is the region's complement.) *)
Theorem C12_response_repr_full_refuted : ~ C12_resp_repr_full.
Proof. exact resp_repr_refuted. Qed.
Print Assumptions C12_response_repr_full_refuted.

Theorem C12_response_observers : forall r,
  forallb obs_ok (m_resp_str r) = true /\ forallb obs_ok (fst (m_resp_raise r)) = true /\
  (pub (r_host r) = true -> pub (r_input r) = true -> pub (r_fwc r) = true -> forallb obs_ok (m_resp_repr r) = true).
Proof. exact resp_observers_ok. Qed.
Print Assumptions C12_response_observers.

(* tie to the current source tree (Gen_Sinks.v is regenerated on every run): over EVERY logging call, raise,
   __repr__/__str__ and in-place store into a container that a __repr__/__str__ prints by reference (the user's
   transport_options dict: rows of kind SStore) of EVERY module of the scrapli package (the anchored files, the files between them and the
   credentials, scrapli/response.py, helper.py, factory.py, ...), no secret-carrying identifier reaches the message
   except under the redacted / hidden_input guard.
   The full statement is FALSE of the unchanged tree (known finding C12-response-hidden-input: Response.channel_input
   of a send_interactive is the join of all event inputs, hidden ones included, and Response.__repr__ and the
   `no template` warning of textfsm_parse_output print it): refuted by computation; the partial statement excludes
   exactly those two sinks. *)
Definition C12_sinks_full : Prop := sinks_ok gen_sinks = true.

Theorem C12_sinks_full_refuted : ~ C12_sinks_full /\ forallb known_region (bad_sinks gen_sinks) = true.
Proof. split; [unfold C12_sinks_full; vm_compute; discriminate | vm_compute; reflexivity]. Qed.
Print Assumptions C12_sinks_full_refuted.

Theorem C12_sinks_guarded : sinks_ok (outside known_region gen_sinks) = true.
Proof. vm_compute. reflexivity. Qed.
Print Assumptions C12_sinks_guarded.

Theorem C12_sinks_guarded_meaning :
  forall s, In s gen_sinks -> known_region s = false ->
  forall id gs, In (id, gs) (s_flows s) -> In id secret_idents ->
  exists g, In g gs /\ In g redaction_guards.
Proof. exact (sinks_ok_outside_sound known_region gen_sinks C12_sinks_guarded). Qed.
Print Assumptions C12_sinks_guarded_meaning.

(* the extraction is not vacuous: the table is the size the translator says, it sees the secrets arrive (guarded)
   at the write record and at the interact record, it sees the joined interact inputs arrive at the Response objects'
   sinks (the finding's region is inhabited and raise_for_status of Response / MultiResponse are rows outside it),
   and it contains the three kinds of sink and in-place stores into objects some __repr__ shows *)
Example C12_sinks_nonvacuous :
  length gen_sinks = gen_nsinks /\ (200 <= gen_nsinks)%nat /\
  func_in "BaseChannel.write" (secret_sinks gen_sinks) = true /\
  func_in "Channel.send_inputs_interact" (secret_sinks gen_sinks) = true /\
  func_in "AsyncChannel.send_inputs_interact" (secret_sinks gen_sinks) = true /\
  func_in "Response.__repr__" (secret_sinks gen_sinks) = true /\
  func_in "Response.__str__" (outside known_region gen_sinks) = true /\
  func_in "MultiResponse.__str__" (outside known_region gen_sinks) = true /\
  func_in "Response.raise_for_status" (outside known_region gen_sinks) = true /\
  func_in "MultiResponse.raise_for_status" (outside known_region gen_sinks) = true /\
  func_in "SystemTransport.write" (outside known_region gen_sinks) = true /\
  (5 <= count_kind SRepr gen_sinks)%nat /\ (50 <= count_kind SRaise gen_sinks)%nat /\ (50 <= count_kind SLog gen_sinks)%nat /\
  (1 <= count_kind SStore gen_sinks)%nat.
Proof. vm_compute. repeat split; repeat constructor. Qed.
Print Assumptions C12_sinks_nonvacuous.
