(* C01 — a command's response is exactly what the device printed for that command.
   This file contains only the property theorems (closed by [exact], or, over the definitions of
   Gen_Channel.v regenerated from the source tree on every run, by computation), their Examples, and
   Print Assumptions.  Model: coq/model/Channel.v; proofs: coq/proofs/Channel_Proofs.v. *)
From Verif Require Import Bytes Regex RegexPrio Response Channel Channel_Proofs.
From Gen Require Import Gen_Channel.

(* ---------------------------------------------------------------------------------------------- *)
(* The history theorem.  For EVERY configuration c (search depth, return char "\n" or "\r\n", matcher),
   EVERY environment e (ANY chunker: a function of read index, bytes delivered and the pending bytes;
   the device's line terminator; ANY reply function from (execution index, line) to output or
   dialogue), EVERY prompt core ++ trail (text that ends in a non-blank, then blanks) shorter than the
   window, under the named matcher hypotheses M1-M3, for EVERY finite sequence of operations
   (send_command, send_commands, send_interactive, get_prompt; strip_prompt on or off) whose commands
   are free of BS/LF/CR/ESC and whose outputs satisfy the property's side condition ([out_ok]: no CR/ESC,
   no proper prefix of what is printed up to the end of the next prompt is read as a prompt through
   the search window, re.sub removes the final prompt only), started with the device at its prompt
   and at most (a suffix of) the prompt's trailing blank unread ([Inv]):
   every operation returns; each result is the normalisation of ITS OWN command's output as logged
   by the device ([res_ok]: result exactly; raw result = blank residue + "\n" + output + prompt text +
   part of the trailing blank); the device executed exactly the lines sent, in order; and after every
   operation the device is at its prompt with nothing unread but (a suffix of) the trailing blank. *)
Theorem C01_history :
  forall (c : cfg) (e : env) (core trail : bytes),
    is_ret (c_ret c) -> is_ret (e_nl e) -> e_prompt e = core ++ trail ->
    ends_nonws core -> ~ In 10 core -> ~ In 13 core -> ~ In 27 core ->
    blankline trail -> ~ In 13 trail ->
    (S (length (core ++ trail)) <= c_depth c)%nat ->
    (* M1 *) (forall b : bytes, blankline b -> m_search (c_M c) b = false) ->
    (* M2 *) (forall pre t t' : list N, pre = [] \/ (exists q : list N, pre = q ++ [10]) ->
              trail = t ++ t' -> m_search (c_M c) (pre ++ core ++ t) = true) ->
    (* M3 *) (forall w0 p : bytes, is_suffix w0 trail -> strict_prefix p (w0 ++ 10 :: core) ->
              m_group0 (c_M c) p = None) ->
             (forall (w0 : bytes) (t t' : list N), is_suffix w0 trail -> trail = t ++ t' ->
              exists g : bytes, m_group0 (c_M c) (w0 ++ 10 :: core ++ t) = Some g /\ strip_ws g = core) ->
    forall (ops : list op) (xs : list xres) (w : world) (k' : nat) (l : list (bytes * bytes)),
      Inv trail w ->
      ops_run c e core trail (d_count (w_dev w)) ops xs k' l ->
      exists (rs : list opres) (w' : world),
        run_ops c e ops w = (rs, Ok w') /\
        Inv trail w' /\
        Forall2 (res_ok core trail) xs rs /\
        d_count (w_dev w') = k' /\
        d_log (w_dev w') = d_log (w_dev w) ++ l /\
        w_written w' = w_written w ++ flat_map (op_writes c) ops.
Proof. exact history_spec. Qed.
Print Assumptions C01_history.

(* The same for the executable matcher (CPython-order priority engine) on ANY pattern r: the matcher
   hypotheses are replaced by one computation, [prompt_okb r depth core trail = true]. *)
Theorem C01_history_concrete :
  forall (r ansi partial : re) (scan : bool) (d : nat) (ret : bytes) (e : env) (core trail : bytes),
    is_ret ret -> is_ret (e_nl e) -> e_prompt e = core ++ trail ->
    prompt_okb r d core trail = true ->
    forall (ops : list op) (xs : list xres) (w : world) (k' : nat) (l : list (bytes * bytes)),
      Inv trail w ->
      ops_run (re_cfg r ansi partial scan d ret) e core trail (d_count (w_dev w)) ops xs k' l ->
      exists (rs : list opres) (w' : world),
        run_ops (re_cfg r ansi partial scan d ret) e ops w = (rs, Ok w') /\
        Inv trail w' /\
        Forall2 (res_ok core trail) xs rs /\
        d_count (w_dev w') = k' /\
        d_log (w_dev w') = d_log (w_dev w) ++ l /\
        w_written w' = w_written w ++ flat_map (op_writes (re_cfg r ansi partial scan d ret)) ops.
Proof. exact history_concrete. Qed.
Print Assumptions C01_history_concrete.

(* ---------------------------------------------------------------------------------------------- *)
(* The strict reading — after every call NOTHING is unread and the raw result is exactly the text
   printed between the echo and the end of the prompt — is false of the code, for two reasons, each
   with a witness run by vm_compute (and replayed on the real drivers: findings C01-prompt-blank-residue
   and C01-echo-trailing-blank): *)
Definition C01_full : Prop :=
  forall (r : re) (d : nat) (e : env) (core trail : bytes),
    is_ret (e_nl e) -> e_prompt e = core ++ trail -> prompt_okb r d core trail = true ->
    strict_framing (re_cfg r Emp Emp false d [10]) e core trail.

(* (1) the prompt ends in a blank and a read boundary falls in front of it: the blank stays unread *)
Theorem C01_full_refuted_prompt_blank :
  prompt_okb wit_pat 1000 b_r1 [32] = true /\
  ~ strict_framing wit_cfg (wit_env PBlank (b_r1 ++ [32]) [RPlain b_ok]) b_r1 [32].
Proof. exact strict_refuted_prompt_blank. Qed.
Print Assumptions C01_full_refuted_prompt_blank.

(* (2) the command ends in a blank and a read boundary falls in front of its echo: raw_result starts with it *)
Theorem C01_full_refuted_echo_blank :
  prompt_okb wit_pat 1000 b_r1 [] = true /\
  ~ strict_framing wit_cfg (wit_env (PBytes 4) b_r1 [RPlain b_ok]) b_r1 [].
Proof. exact strict_refuted_echo_blank. Qed.
Print Assumptions C01_full_refuted_echo_blank.

Theorem C01_full_refuted : ~ C01_full.
Proof.
  intros H. apply (proj2 strict_refuted_prompt_blank). apply (H wit_pat 1000%nat).
  - right. reflexivity.
  - reflexivity.
  - exact (proj1 strict_refuted_prompt_blank).
Qed.
Print Assumptions C01_full_refuted.

(* The strongest true statements: C01_history above (exact up to that blank), and, in the region
   outside the two findings — a prompt without trailing blank, commands without trailing white space —
   the strict statement itself: *)
Theorem C01_history_exact_partial :
  forall (c : cfg) (e : env) (core : bytes),
    is_ret (c_ret c) -> is_ret (e_nl e) -> e_prompt e = core ++ [] ->
    ends_nonws core -> ~ In 10 core -> ~ In 13 core -> ~ In 27 core ->
    (S (length (core ++ [])) <= c_depth c)%nat ->
    (forall b : bytes, blankline b -> m_search (c_M c) b = false) ->
    (forall pre t t' : list N, pre = [] \/ (exists q : list N, pre = q ++ [10]) -> [] = t ++ t' ->
       m_search (c_M c) (pre ++ core ++ t) = true) ->
    (forall w0 p : bytes, is_suffix w0 [] -> strict_prefix p (w0 ++ 10 :: core) -> m_group0 (c_M c) p = None) ->
    (forall (w0 : bytes) (t t' : list N), is_suffix w0 [] -> [] = t ++ t' ->
       exists g : bytes, m_group0 (c_M c) (w0 ++ 10 :: core ++ t) = Some g /\ strip_ws g = core) ->
    forall (ops : list op) (xs : list xres) (w : world) (k' : nat) (l : list (bytes * bytes)),
      Inv [] w -> ops_run c e core [] (d_count (w_dev w)) ops xs k' l -> Forall tidy_x xs ->
      exists (rs : list opres) (w' : world),
        run_ops c e ops w = (rs, Ok w') /\ w_pending w' = [] /\ Forall2 (res_exact core []) xs rs.
Proof. exact history_exact. Qed.
Print Assumptions C01_history_exact_partial.

(* ---------------------------------------------------------------------------------------------- *)
(* The lemmas the history theorem rests on, at full generality *)

(* the 1000-byte window and its drop-first-partial-line rule: for EVERY depth d and EVERY amount of
   preceding output, a last line shorter than the window is in the search buffer whole, preceded by
   nothing or by complete lines *)
Theorem C01_found_through_window :
  forall (d : nat) (pre l : bytes),
    ~ In 10 l -> l <> [] -> (S (length l) <= d)%nat ->
    exists pre', prb d (pre ++ 10 :: l) = pre' ++ l /\ (pre' = [] \/ exists q, pre' = q ++ [10]).
Proof. exact found_through_window. Qed.
Print Assumptions C01_found_through_window.

(* a first line without newline (the white space left of an echo or of the last prompt) that is followed
   by anything never reaches the search buffer, whatever the depth *)
Theorem C01_window_drops_partial_first_line :
  forall (d : nat) (w rest : bytes), ~ In 10 w -> rest <> [] -> prb d (w ++ 10 :: rest) = prb d (10 :: rest).
Proof. exact prb_drop_head. Qed.
Print Assumptions C01_window_drops_partial_first_line.

(* every read loop returns at the FIRST read boundary at or beyond the point from which its test holds, for
   EVERY chunker: the accumulated buffer is exactly what was pending up to there (CR removed), the rest stays *)
Theorem C01_read_loop_first :
  forall (R : Type) (c : cfg) (e : env) (Q : bytes -> option R) (fuel : nat) (acc : bytes) (w : world) (a : nat),
    ~ In 27 (w_pending w) -> w_partial w = [] ->
    (1 <= a <= length (w_pending w))%nat -> (length (w_pending w) < fuel)%nat ->
    (forall n, (0 < n < a)%nat -> Q (acc ++ rm13 (firstn n (w_pending w))) = None) ->
    (forall n, (a <= n <= length (w_pending w))%nat -> Q (acc ++ rm13 (firstn n (w_pending w))) <> None) ->
    exists n r w', (a <= n <= length (w_pending w))%nat /\
      rloop c e Q fuel acc w = Ok (r, w') /\
      Q (acc ++ rm13 (firstn n (w_pending w))) = Some r /\
      w_pending w' = skipn n (w_pending w) /\ w_partial w' = [] /\
      w_dev w' = w_dev w /\ w_written w' = w_written w.
Proof. exact @rloop_first. Qed.
Print Assumptions C01_read_loop_first.

(* the echo: with white space only in front of it, _read_until_input consumes the echo through the
   input's last non-blank character; only white space of the input's tail can stay unread *)
(* a read in which no escape character arrives returns the transport's bytes verbatim (minus CR), for EVERY configuration -
   whatever the ANSI stripping function would do to them (the 8-bit codes 0x9b / 0x9d the ANSI pattern also starts at are
   ordinary UTF-8 continuation bytes): the strip is guarded by "ESC in what was read" *)
Theorem C01_read_without_esc_verbatim :
  forall (c : cfg) (e : env) (w : world),
    w_pending w <> [] -> ~ In 27 (w_pending w) -> w_partial w = [] ->
    ch_read c e w =
    Ok (rm13 (firstn (take e w) (w_pending w)),
        mkW (skipn (take e w) (w_pending w)) (w_delivered w + take e w) (S (w_reads w)) [] (w_dev w) (w_written w)).
Proof. exact ch_read_plain. Qed.
Print Assumptions C01_read_without_esc_verbatim.

(* premises satisfiable, and the guard is what makes it true: "ВЛАН 7" + LF (Cyrillic El = d0 9b) is read verbatim by
   the configuration of the tree although its ANSI pattern, applied to the same bytes, removes "9b 20 37" *)
Example C01_read_without_esc_example :
  let line := [208;146;208;155;208;144;208;157;32;55;10] in
  let c := re_cfg gen_pat_generic gen_ansi gen_ansi_partial gen_hold_scan gen_depth gen_ret in
  (match ch_read c probe_env (world0 line 0) with Ok (b, _) => beq b line | _ => false end
   && negb (beq (c_strip c line) line)) = true.
Proof. vm_compute. reflexivity. Qed.

Theorem C01_echo_consumed :
  forall (c : cfg) (e : env) (w : world) (cmd r0 : bytes),
    w_pending w = r0 ++ cmd -> w_partial w = [] ->
    all_ws r0 = true -> ~ In 13 (r0 ++ cmd) -> ~ In 27 (r0 ++ cmd) -> ~ In 8 cmd ->
    exists buf w' t x,
      read_until_input c e cmd w = Ok (buf, w') /\
      r0 ++ cmd = buf ++ w_pending w' /\ all_ws (w_pending w') = true /\
      cmd = rstrip_ws cmd ++ t /\ r0 ++ t = x ++ w_pending w' /\
      w_partial w' = [] /\ w_dev w' = w_dev w /\ w_written w' = w_written w.
Proof. exact read_until_input_spec. Qed.
Print Assumptions C01_echo_consumed.

(* _process_output without prompt stripping IS the specification's normalisation, for every text without CR *)
Theorem C01_process_output_is_normalise :
  forall (rc s : bytes), retchars rc -> ~ In 13 s ->
    rstrip_ws (lstrip_chars rc (join [10] (map rstrip_ws (splitlines s)))) = normalise s.
Proof. exact post_splitlines. Qed.
Print Assumptions C01_process_output_is_normalise.

(* ---------------------------------------------------------------------------------------------- *)
(* Obligations over the CURRENT source tree (Gen_Channel.v is regenerated on every run) *)

Theorem C01_generated_defaults : is_ret gen_ret /\ (2 <= gen_depth)%nat.
Proof. split; [left; reflexivity|]. vm_compute. repeat constructor. Qed.
Print Assumptions C01_generated_defaults.

(* the helpers the model hard-codes, observed by calling the REAL functions on probe inputs when Gen_Channel.v was
   generated: the model's window function and output cleaning compute the same on every probe, and
   _get_prompt_pattern still means "" -> class pattern, ^...$ -> regex (re.M | re.I), anything else -> literal *)
Theorem C01_generated_process_read_buf :
  forallb (fun x => beq (prb (fst (fst x)) (snd (fst x))) (snd x)) gen_prb_probes = true.
Proof. vm_compute. reflexivity. Qed.
Print Assumptions C01_generated_process_read_buf.

(* The probes of _process_output include buffers that hold the text of a command as a line of their own (first / inner /
   last / only line, other case, other blanks, twice), and the REAL function is called with EVERY signature it accepts: should
   it have a parameter beyond (buf, strip_prompt), that parameter is given values derived from the buffer's own lines (by
   keyword and by position) and every accepted call is a probe here - the model's process_output is a function of the
   configuration, the buffer and strip_prompt only, so a result that depends on what was typed breaks this obligation. *)
Theorem C01_generated_process_output :
  forallb (fun x : bytes * bool * bytes * bytes =>
             let '(ret, strip, buf, res) := x in
             beq (process_output (re_cfg gen_pat_generic gen_ansi gen_ansi_partial gen_hold_scan gen_depth ret) buf strip) res)
          gen_po_probes = true.
Proof. vm_compute. reflexivity. Qed.
Print Assumptions C01_generated_process_output.

(* Channel.read / AsyncChannel.read themselves, one transport chunk at a time (observed on the real read() of a constructed
   driver when Gen_Channel.v was generated): the model's [ch_read] returns the same bytes and carries over the same partial
   escape sequence on every probe.  Half of the probes contain NO escape character but UTF-8 characters that end in the
   bytes 0x9b / 0x9d followed by everything the ANSI pattern could consume after them (7 8 M E, "[" .. final byte,
   "]" digit .. BEL, with and without white space in between): they are handed on verbatim - the ANSI pattern is applied
   only to a read that contains ESC, which is the guard the history theorem rests on (C01_read_without_esc_verbatim). *)
Theorem C01_generated_read :
  forallb (fun x : bytes * bytes * bytes * bytes =>
             let '(partial, chunk, out, held) := x in
             read_probe_ok (re_cfg gen_pat_generic gen_ansi gen_ansi_partial gen_hold_scan gen_depth gen_ret) partial chunk out held)
          gen_read_probes = true.
Proof. vm_compute. reflexivity. Qed.
Print Assumptions C01_generated_read.

(* the probes do contain reads without ESC on which the ANSI pattern of the tree, applied unconditionally, would remove
   bytes (so the obligation above does depend on the guard) *)
Theorem C01_generated_read_guard_exercised :
  existsb (fun x : bytes * bytes * bytes * bytes =>
             let '(partial, chunk, out, held) := x in
             negb (mem 27 (partial ++ chunk)) && negb (beq (sub_all gen_ansi out) out))
          gen_read_probes = true.
Proof. vm_compute. reflexivity. Qed.
Print Assumptions C01_generated_read_guard_exercised.

Theorem C01_generated_expected_response_patterns :
  (gen_xpat_empty_is_class, gen_xpat_anchored_is_regex_MI, gen_xpat_other_is_literal) = (true, true, true).
Proof. vm_compute. reflexivity. Qed.
Print Assumptions C01_generated_expected_response_patterns.

(* the pattern is read at each use: on a constructed channel whose pattern was already used, the REAL _process_output and
   the patterns handed to the authentication loops follow the pattern TEXT after it is changed through the driver
   attribute and through the channel's arguments, sync and asyncio (observed when Gen_Channel.v was generated; the
   translator also checks by AST that every use compiles self._base_channel_args.comms_prompt_pattern at that use and that
   no compiled pattern is kept on the channel).  This is what lets [run_segs] give every segment its own configuration. *)
Theorem C01_generated_pattern_read_at_each_use : gen_pattern_read_at_each_use = true.
Proof. vm_compute. reflexivity. Qed.
Print Assumptions C01_generated_pattern_read_at_each_use.

(* a prompt as the vendor prints it, per driver kind: pattern of the constructed driver, text, trailing blank *)
Definition driver_prompts : list (re * bytes * bytes) :=
  [ (gen_pat_generic, [114;111;117;116;101;114;49;35], []);
    (gen_pat_generic, [114;111;117;116;101;114;49;35], [32]);
    (gen_pat_generic, [117;115;101;114;36], [32]);
    (gen_pat_network, [114;111;117;116;101;114;49;35], []);
    (gen_pat_cisco_iosxe, [114;111;117;116;101;114;49;35], []);
    (gen_pat_cisco_iosxe, [114;111;117;116;101;114;49;62], []);
    (gen_pat_cisco_iosxr, [82;80;47;48;47;82;80;48;47;67;80;85;48;58;114;111;117;116;101;114;49;35], []);
    (gen_pat_cisco_iosxr, [82;80;47;48;47;82;80;48;47;67;80;85;48;58;114;111;117;116;101;114;49;35], [32]);
    (gen_pat_cisco_nxos, [115;119;105;116;99;104;49;35], [32]);
    (gen_pat_cisco_nxos, [115;119;105;116;99;104;49;35], []);
    (gen_pat_arista_eos, [115;119;105;116;99;104;49;35], []);
    (gen_pat_arista_eos, [115;119;105;116;99;104;49;35], [32]);
    (gen_pat_juniper_junos, [97;100;109;105;110;64;118;109;120;49;62], [32]);
    (gen_pat_juniper_junos, [97;100;109;105;110;64;118;109;120;49;62], []);
    (gen_pat_base, [114;111;117;116;101;114;49;35], []) ].

Theorem C01_generated_prompts_ok :
  forallb (fun x => prompt_okb (fst (fst x)) gen_depth (snd (fst x)) (snd x)) driver_prompts = true.
Proof. vm_compute. reflexivity. Qed.
Print Assumptions C01_generated_prompts_ok.

(* hence the history theorem holds for the pattern, depth and ANSI handling of the tree, for each of these
   prompts, for every chunker, reply function, return char, line terminator and operation history *)
Theorem C01_generated_drivers :
  forall (pat : re) (core trail ret : bytes) (e : env),
    In (pat, core, trail) driver_prompts ->
    is_ret ret -> is_ret (e_nl e) -> e_prompt e = core ++ trail ->
    forall (ops : list op) (xs : list xres) (w : world) (k' : nat) (l : list (bytes * bytes)),
      Inv trail w ->
      ops_run (re_cfg pat gen_ansi gen_ansi_partial gen_hold_scan gen_depth ret) e core trail (d_count (w_dev w)) ops xs k' l ->
      exists (rs : list opres) (w' : world),
        run_ops (re_cfg pat gen_ansi gen_ansi_partial gen_hold_scan gen_depth ret) e ops w = (rs, Ok w') /\
        Inv trail w' /\ Forall2 (res_ok core trail) xs rs /\
        d_count (w_dev w') = k' /\ d_log (w_dev w') = d_log (w_dev w) ++ l /\
        w_written w' = w_written w ++
          flat_map (op_writes (re_cfg pat gen_ansi gen_ansi_partial gen_hold_scan gen_depth ret)) ops.
Proof.
  intros pat core trail ret e Hin Hret Hnl Hp. apply history_concrete; try assumption.
  pose proof C01_generated_prompts_ok as H. rewrite forallb_forall in H. exact (H _ Hin).
Qed.
Print Assumptions C01_generated_drivers.

(* ---------------------------------------------------------------------------------------------- *)
(* Examples: the premises are satisfiable by a non-trivial history, and the conclusion is what the
   model computes.  Generic driver pattern of the tree, prompt "router1# ", search depth of the tree;
   a 1.1 kB output that crosses the window, read in chunks of 7/300/1/64/999 bytes; a command with
   upper case, a double blank and a trailing blank; an empty output; a confirmation dialogue. *)
Definition ex_core : bytes := [114;111;117;116;101;114;49;35].
Definition ex_trail : bytes := [32].
Definition ex_cmd1 : bytes := [115;104;111;119;32;32;73;110;116;101;114;102;97;99;101;115;32].          (* "show  Interfaces " *)
Definition ex_cmd2 : bytes := [115;104;111;119;32;99;108;111;99;107].          (* "show clock" *)
Definition ex_cmd3 : bytes := [99;108;101;97;114;32;108;111;103;103;105;110;103].          (* "clear logging" *)
Definition ex_line (i : N) : bytes := [71;105;103;97;98;105;116;69;116;104;101;114;110;101;116;48;47] ++ [48 + i / 10; 48 + i mod 10] ++ [32;105;115;32;117;112;44;32;108;105;110;101;32;112;114;111;116;111;99;111;108;32;105;115;32;117;112;32;32;32].
Definition ex_out1 : bytes := flat_map (fun i => ex_line (N.of_nat i) ++ [10]) (seq 0 22) ++ [32;32;40;50;50;32;105;110;116;101;114;102;97;99;101;115;41].
Definition ex_q : bytes := [67;108;101;97;114;32;108;111;103;103;105;110;103;32;98;117;102;102;101;114;32;91;99;111;110;102;105;114;109;93;32].                (* "Clear logging buffer [confirm] " *)
Definition ex_done : bytes := [100;111;110;101].
Definition ex_script : list reply :=
  [RPlain ex_out1; RPlain []; RDialog [([], ex_q, true)] ex_done; RPlain ex_out1].
Definition ex_evs : list event := [mkEv ex_cmd3 (XLit [91;99;111;110;102;105;114;109;93]) false; mkEv [121] (XLit ex_core) false].
Definition ex_ops : list op :=
  [OCmd ex_cmd1 true; OPrompt; OCmd ex_cmd2 false; OInter ex_evs []; OCmds [ex_cmd1] false false].
Definition ex_cfg : cfg := re_cfg gen_pat_generic gen_ansi gen_ansi_partial gen_hold_scan gen_depth gen_ret.
Definition ex_env : env :=
  mkEnv (policy_ch (PTakes [7; 300; 1; 64; 999]%nat)) (ex_core ++ ex_trail) [13; 10] (script_reply ex_script).
Definition ex_T : bytes := transcript ex_core ex_evs true [([], ex_q, true)] ex_done.

Example C01_example_premises :
  ops_run ex_cfg ex_env ex_core ex_trail 0 ex_ops
    [XCmd ex_cmd1 ex_out1 true; XPrompt; XCmd ex_cmd2 [] false; XInter ex_T; XCmds [ex_cmd1] [ex_out1] false]
    4 ([(ex_cmd1, ex_out1)] ++ [] ++ [(ex_cmd2, [])] ++
       dialogue_log ex_evs [([], ex_q, true)] ex_done ++ ([(ex_cmd1, ex_out1)] ++ []) ++ []).
Proof.
  assert (Hq : quietb gen_pat_generic gen_depth ex_core ex_out1 = true) by (vm_cast_no_check (eq_refl true)).
  assert (Hout1 : forall strip, out_okb gen_pat_generic gen_depth ex_core strip ex_out1 = true)
    by (intros strip; unfold out_okb; rewrite Hq; destruct strip; vm_compute; reflexivity).
  econstructor.
  { apply op_run_cmd_b; [reflexivity|discriminate|reflexivity|apply Hout1]. }
  econstructor; [constructor|].
  econstructor.
  { apply op_run_cmd_b; [reflexivity|discriminate|reflexivity|vm_compute; reflexivity]. }
  econstructor.
  { apply (OR_inter ex_cfg ex_env ex_core ex_trail 2 ex_evs [([], ex_q, true)] ex_done).
    split; [split; [discriminate|reflexivity]|].
    cbn [dialogue_ok ex_evs ev_input ev_resp ev_hidden is_class negb].
    split; [repeat split; try (apply negb_mem_notin; reflexivity); intros _; split; apply negb_mem_notin; reflexivity|].
    split; [reflexivity|]. split; [reflexivity|].
    split; [intros []|]. split; [intros []|].
    exists [67;108;101;97;114;32;108;111;103;103;105;110;103;32;98;117;102;102;101;114;32;91;99;111;110;102;105;114;109;93], [32].
    split; [reflexivity|]. split; [apply ends_nonwsb_spec; reflexivity|].
    split; [apply negb_mem_notin; reflexivity|]. split; [apply negb_mem_notin; reflexivity|].
    split; [apply negb_mem_notin; reflexivity|].
    split; [split; [reflexivity|apply negb_mem_notin; reflexivity]|].
    split; [apply negb_mem_notin; reflexivity|].
    split; [apply stage_okb_spec; vm_compute; reflexivity|].
    split; [repeat split; try (apply negb_mem_notin; reflexivity); intros _; split; apply negb_mem_notin; reflexivity|].
    split; [reflexivity|]. split; [reflexivity|].
    split; [reflexivity|]. split; [apply negb_mem_notin; reflexivity|]. split; [apply negb_mem_notin; reflexivity|].
    apply stage_okb_spec; vm_compute; reflexivity. }
  econstructor; [|constructor].
  apply OR_cmds.
  - constructor; [apply cmd_okb_spec; reflexivity|constructor].
  - econstructor; [|constructor]. apply CR_plain; [discriminate|reflexivity].
  - constructor; [|constructor]. apply out_okb_spec. apply Hout1.
Qed.

(* what the model computes on that history: each result is its own command's normalised output *)
Example C01_example_results :
  match run_ops ex_cfg ex_env ex_ops (world0 [] 0) with
  | ([PCmd r1; PPrompt p; PCmd r2; PInter r3; PCmds [r4]], Ok w') =>
      beq (rs_result r1) (normalise ex_out1) && beq p ex_core && beq (rs_result r2) ex_core &&
      beq (rs_result r3) (normalise ex_T) && beq (rs_result r4) (normalise (body ex_out1 ++ ex_core)) &&
      Nat.ltb 1000 (length (rs_raw r1)) && Nat.leb (length (w_pending w')) 1
  | _ => false
  end = true.
Proof. vm_compute. reflexivity. Qed.

(* ---------------------------------------------------------------------------------------------- *)
(* The prompt pattern may be CHANGED between the operations of a history (conn.comms_prompt_pattern = ... on the open
   connection, the channel's arguments, update_privilege_levels() after editing a level pattern): the channel reads the
   pattern text at each use, so every operation runs under the pattern IN FORCE when it is called.  For EVERY list of
   segments (pattern, operations) - under the conditions of C01_history_concrete taken per segment AGAINST THAT
   SEGMENT'S PATTERN: the prompt is a prompt of it, the outputs of the segment's operations are quiet under it (what an
   earlier or a later pattern would read as a prompt is no condition) - every operation of every segment returns, each
   result is the normalisation of its own command's output, the device executed exactly the lines sent, and the
   connection stays in step across the changes. *)
Theorem C01_history_repattern :
  forall (ansi partial : re) (scan : bool) (d : nat) (ret : bytes) (e : env) (core trail : bytes),
    is_ret ret -> is_ret (e_nl e) -> e_prompt e = core ++ trail ->
    forall (segs : list seg) (xs : list xres) (w : world) (k' : nat) (l : list (bytes * bytes)),
      Inv trail w ->
      segs_run ansi partial scan d ret e core trail (d_count (w_dev w)) segs xs k' l ->
      exists (rs : list opres) (w' : world),
        run_segs (fun r => re_cfg r ansi partial scan d ret) e segs w = (rs, Ok w') /\
        Inv trail w' /\
        Forall2 (res_ok core trail) xs rs /\
        d_count (w_dev w') = k' /\
        d_log (w_dev w') = d_log (w_dev w) ++ l.
Proof. exact history_segments. Qed.
Print Assumptions C01_history_repattern.

(* premises satisfiable by a non-trivial history: the Generic pattern of the tree, then the pattern narrowed to
   ^router1#\s*$ - under which an output with the lines "RX>" and "Totals:" is inside the domain (under the Generic
   pattern it is not: both lines read as prompts) - a get_prompt, then the Generic pattern again *)
Definition rp_narrow : re := (Cat Bol (Cat (Cls [(82, 82); (114, 114)]) (Cat (Cls [(79, 79); (111, 111)]) (Cat (Cls [(85, 85); (117, 117)]) (Cat (Cls [(84, 84); (116, 116)]) (Cat (Cls [(69, 69); (101, 101)]) (Cat (Cls [(82, 82); (114, 114)]) (Cat (Cls [(49, 49)]) (Cat (Cls [(35, 35)]) (Cat (Rep (Cls [(9, 13); (32, 32)]) 0%nat None true) Eol)))))))))).
Definition rp_out : bytes := [80;111;114;116;32;99;111;117;110;116;101;114;115;10;82;88;62;10;84;111;116;97;108;115;58;10;32;32;53;32;112;97;99;107;101;116;115].          (* "Port counters" / "RX>" / "Totals:" / "  5 packets" *)
Definition rp_segs : list seg :=
  [(gen_pat_generic, [OCmd ex_cmd2 false]); (rp_narrow, [OCmd ex_cmd2 true; OPrompt]); (gen_pat_generic, [OCmd ex_cmd2 true])].
Definition rp_env : env :=
  mkEnv (policy_ch (PTakes [7; 3; 1; 64]%nat)) (ex_core ++ ex_trail) [13; 10] (script_reply [RPlain []; RPlain rp_out; RPlain ex_done]).

Example C01_repattern_premises :
  segs_run gen_ansi gen_ansi_partial gen_hold_scan gen_depth gen_ret rp_env ex_core ex_trail 0 rp_segs
    ([XCmd ex_cmd2 [] false] ++ [XCmd ex_cmd2 rp_out true; XPrompt] ++ [XCmd ex_cmd2 ex_done true] ++ [])
    3 (([(ex_cmd2, [])] ++ []) ++ ([(ex_cmd2, rp_out)] ++ [] ++ []) ++ ([(ex_cmd2, ex_done)] ++ []) ++ []).
Proof.
  econstructor; [vm_compute; reflexivity| |].
  { econstructor; [|constructor]. apply op_run_cmd_b; [reflexivity|discriminate|reflexivity|vm_compute; reflexivity]. }
  econstructor; [vm_compute; reflexivity| |].
  { econstructor; [|econstructor; [constructor|constructor]].
    apply op_run_cmd_b; [reflexivity|discriminate|reflexivity|vm_compute; reflexivity]. }
  econstructor; [vm_compute; reflexivity| |constructor].
  econstructor; [|constructor]. apply op_run_cmd_b; [reflexivity|discriminate|reflexivity|vm_compute; reflexivity].
Qed.

(* the change matters (that output is outside the domain of the pattern it replaced), and what the model computes *)
Example C01_repattern_results :
  (negb (out_okb gen_pat_generic gen_depth ex_core true rp_out) &&
   match run_segs (fun r => re_cfg r gen_ansi gen_ansi_partial gen_hold_scan gen_depth gen_ret) rp_env rp_segs (world0 [] 0) with
   | ([PCmd r1; PCmd r2; PPrompt p; PCmd r3], Ok w') =>
       beq (rs_result r1) ex_core && beq (rs_result r2) (normalise rp_out) && beq p ex_core && beq (rs_result r3) ex_done &&
       Nat.leb (length (w_pending w')) 1
   | _ => false
   end) = true.
Proof. vm_compute. reflexivity. Qed.
