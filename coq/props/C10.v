(* C10 — strict host-key checking protects credentials.
   This file contains only the property theorems (closed by [exact] / decided by vm_compute over
   the generated definitions) and Print Assumptions. *)
From Verif Require Import Bytes HostKey HostKey_Proofs.
From Gen Require Import Gen_HostKey.

(* ---- tie to the current source tree (Gen_HostKey.v is regenerated on every run) ---- *)

(* strict unless explicitly turned off: every driver signature and every transport dataclass
   defaults auth_strict_key to True; _setup_auth rejects every non-bool and passes bools unchanged *)
Theorem C10_strict_default :
  all_true gen_driver_defaults = true /\ (15 <= length gen_driver_defaults)%nat /\
  all_true gen_plugin_defaults = true /\ length gen_plugin_defaults = 4%nat /\
  all_true gen_nonbool_rejected = true /\ gen_bools_pass_unchanged = true.
Proof. vm_compute. repeat split; repeat constructor. Qed.
Print Assumptions C10_strict_default.

(* the calls of open() are the model's, in the model's order, under the model's guards *)
Theorem C10_open_order_as_modelled :
  gen_open_paramiko = open_skeleton Paramiko /\ gen_open_ssh2 = open_skeleton Ssh2 /\
  gen_open_asyncssh = open_skeleton Asyncssh.
Proof. vm_compute. repeat split. Qed.
Print Assumptions C10_open_order_as_modelled.

(* asyncssh is handed the resolved known-hosts file in strict mode (pass_kh = true in the model)
   and its host-key errors (HostKeyNotVerifiable 3, KeyExchangeFailed 4) are mapped *)
Theorem C10_asyncssh_gets_known_hosts :
  gen_asyncssh_known_hosts = 1 /\
  existsb (fun m => fst m =? 3) gen_asyncssh_mapped = true /\
  existsb (fun m => fst m =? 4) gen_asyncssh_mapped = true /\
  existsb (fun m => (fst m =? 1) && (snd m =? 1)) gen_asyncssh_mapped = true.
Proof. vm_compute. repeat split. Qed.
Print Assumptions C10_asyncssh_gets_known_hosts.

(* the system transport switches checking off only on `auth_strict_key is False`, with the
   literals of the model *)
Theorem C10_system_literals :
  gen_system_test = 1 /\ gen_system_off = system_off_literals /\ gen_system_on = system_on_literals.
Proof. vm_compute. repeat split. Qed.
Print Assumptions C10_system_literals.

(* ---- the ordering logic, for ALL scenarios (proofs/HostKey_Proofs.v) ---- *)

(* Strict mode; the entry SSHKnownHosts.lookup returns for the host is missing, or is a key other
   than the one the server presents.  Then for each of the paramiko, ssh2 and asyncssh transports
   the events of open() contain no Offer of any credential, and once a key exchange has happened
   the attempt ends in ScrapliAuthenticationFailed.  [lookup] and asyncssh's own matcher
   [lib_verdict] are parameters; the one hypothesis on them is stated. *)
Theorem C10_strict_protects_credentials :
  forall (khfile host : Type) (lookup : khfile -> host -> option bytes)
         (lib_verdict : khfile -> host -> bytes -> verdict),
    (forall f h k sk, lookup f h = Some k -> lib_verdict f h sk = Trusted -> k = sk) ->
    forall l f h sk c,
      c_strict c = true ->
      (lookup f h = None \/ exists k, lookup f h = Some k /\ k <> sk) ->
      no_offer (open_trace true l (scen_of khfile host lookup lib_verdict f h sk c)) = true /\
      (c_handshake c = true ->
       ends_with AuthenticationFailed (open_trace true l (scen_of khfile host lookup lib_verdict f h sk c)) = true).
Proof. exact strict_protects_credentials. Qed.
Print Assumptions C10_strict_protects_credentials.

(* the same over bare scenarios, all three transports *)
Theorem C10_no_offer_before_verify :
  forall l s, strict s = true -> key_bad s = true -> (l = Asyncssh -> agrees s) ->
    no_offer (open_trace true l s) = true /\
    (handshake_ok s = true -> ends_with AuthenticationFailed (open_trace true l s) = true).
Proof. exact no_offer_before_verify. Qed.
Print Assumptions C10_no_offer_before_verify.

(* in strict mode a credential on the wire means the known_hosts entry is the server's key *)
Theorem C10_offer_only_to_known_key :
  forall (khfile host : Type) (lookup : khfile -> host -> option bytes)
         (lib_verdict : khfile -> host -> bytes -> verdict),
    (forall f h k sk, lookup f h = Some k -> lib_verdict f h sk = Trusted -> k = sk) ->
    forall l f h sk c,
      c_strict c = true ->
      no_offer (open_trace true l (scen_of khfile host lookup lib_verdict f h sk c)) = false ->
      lookup f h = Some sk.
Proof. exact strict_offer_only_to_known_key. Qed.
Print Assumptions C10_offer_only_to_known_key.

(* ordering, with no assumption on the library: in strict mode whatever precedes the first Offer
   contains a value check — scrapli's (CheckValue) or asyncssh's during key exchange (LibVerify) *)
Theorem C10_verify_precedes_offer :
  forall l s t1 c t2,
    strict s = true -> open_trace true l s = t1 ++ Offer c :: t2 -> no_offer t1 = true ->
    In CheckValue t1 \/ In LibVerify t1.
Proof. exact verify_precedes_offer_list. Qed.
Print Assumptions C10_verify_precedes_offer.

(* the asyncssh transport of the pinned commit (known_hosts=None, value check after connect())
   is refuted; what remains true of it is the absent-host case *)
Theorem C10_asyncssh_pinned_refuted : ~ async_pinned_full.
Proof. exact async_pinned_refuted. Qed.
Print Assumptions C10_asyncssh_pinned_refuted.

Theorem C10_asyncssh_pinned_partial :
  forall s, strict s = true -> entry s = None ->
    no_offer (open_trace false Asyncssh s) = true /\
    ends_with AuthenticationFailed (open_trace false Asyncssh s) = true.
Proof. exact async_pinned_partial. Qed.
Print Assumptions C10_asyncssh_pinned_partial.

(* off means off, and with the right key the credentials do go out (the above is not vacuous) *)
Theorem C10_nonstrict_skips_checks :
  forall l s, strict s = false -> existsb is_check (open_trace true l s) = false.
Proof. exact nonstrict_skips_checks. Qed.
Print Assumptions C10_nonstrict_skips_checks.

Theorem C10_right_key_offers :
  forall l s, strict s = true -> entry s = Some (skey s) -> libv s = Trusted -> handshake_ok s = true ->
    has_key s || has_pw s = true -> no_offer (open_trace true l s) = false.
Proof. exact right_key_offers. Qed.
Print Assumptions C10_right_key_offers.

(* ---- one transport OBJECT over time: open, close, open again, ... (any number of opens) ---- *)

(* the attributes the library transports store on the object are the model's: constructor arguments,
   socket, library session, channel / streams — no key, no verdict (regenerated from the source) *)
Theorem C10_object_state_as_modelled :
  gen_state_paramiko = object_state Paramiko /\ gen_state_ssh2 = object_state Ssh2 /\
  gen_state_asyncssh = object_state Asyncssh.
Proof. vm_compute. repeat split. Qed.
Print Assumptions C10_object_state_as_modelled.

(* nothing remembered from an earlier handshake takes part: in whatever state the object is, the
   opens of a history produce the events of first opens in their own scenarios *)
Theorem C10_history_independent :
  forall l h st, run_history (step_open true l) st h = map (fun s => (s, open_trace true l s)) (opens h).
Proof. exact (history_independent true). Qed.
Print Assumptions C10_history_independent.

(* the per-open guarantee for EVERY history (server key, known_hosts content and what the server accepts
   may change between the opens) and every state the object starts in *)
Theorem C10_history_protects_credentials :
  forall l h st s tr,
    In (s, tr) (run_history (step_open true l) st h) ->
    strict s = true -> key_bad s = true -> (l = Asyncssh -> agrees s) ->
    no_offer tr = true /\ (handshake_ok s = true -> ends_with AuthenticationFailed tr = true).
Proof. exact history_protects. Qed.
Print Assumptions C10_history_protects_credentials.

Theorem C10_history_offer_only_to_known_key :
  forall l h st s tr,
    In (s, tr) (run_history (step_open true l) st h) ->
    strict s = true -> (l = Asyncssh -> agrees s) -> no_offer tr = false -> entry s = Some (skey s).
Proof. exact history_offer_only_to_known_key. Qed.
Print Assumptions C10_history_offer_only_to_known_key.

(* the same with lookup / asyncssh's matcher as parameters: per open the file as it is at that open *)
Theorem C10_history_strict_protects_credentials :
  forall (khfile host : Type) (lookup : khfile -> host -> option bytes)
         (lib_verdict : khfile -> host -> bytes -> verdict),
    (forall f h k sk, lookup f h = Some k -> lib_verdict f h sk = Trusted -> k = sk) ->
    forall l h w st s tr,
      In (s, tr) (run_history (step_open true l) st (hist_of khfile host lookup lib_verdict h w)) ->
      exists f sk c, In (f, sk, c) w /\ s = scen_of khfile host lookup lib_verdict f h sk c /\
        (c_strict c = true ->
         (lookup f h = None \/ exists k, lookup f h = Some k /\ k <> sk) ->
         no_offer tr = true /\ (c_handshake c = true -> ends_with AuthenticationFailed tr = true)).
Proof. exact history_strict_protects_credentials. Qed.
Print Assumptions C10_history_strict_protects_credentials.

(* it IS a statement about histories: a transport that verifies a key remembered on the object (the
   first it saw / the one of the previous handshake) violates it on open-close-open *)
Theorem C10_history_remembered_key_refuted :
  ~ hist_full (step_open_first_seen Paramiko) /\ ~ hist_full (step_open_prev_seen Paramiko) /\
  (forall l, hist_full (step_open true l)).
Proof. exact (conj first_seen_refuted (conj prev_seen_refuted hist_full_as_written)). Qed.
Print Assumptions C10_history_remembered_key_refuted.

(* system transport: the argv of every open of one object (open_cmd is kept on the object) *)
Theorem C10_system_history_strict :
  forall a n argv, a_strict a = true -> host_ok (a_host a) = true -> In argv (sys_history [] a n) ->
    effective kw_strict argv = Some s_yes.
Proof. exact sys_history_strict. Qed.
Print Assumptions C10_system_history_strict.

Theorem C10_system_history_known_hosts :
  forall a n argv p, a_strict a = true -> host_ok (a_host a) = true -> a_known a = FPath p -> path_ok p = true ->
    In argv (sys_history [] a n) -> effective kw_ukhf argv = Some p.
Proof. exact sys_history_known_hosts. Qed.
Print Assumptions C10_system_history_known_hosts.

(* ---- the known_hosts FILE over time: the content at the moment of an open decides ---- *)

(* SSHKnownHosts(file) reads and parses the file at every construction and keeps nothing of an earlier read
   anywhere (class, module, decorator caches, file-metadata tests), and the library transports construct it
   inside every check (regenerated from the source): the reader of the code as written is [reuse_never] *)
Theorem C10_known_hosts_read_at_every_check :
  all_true gen_known_hosts_memo_free = true /\ (14 <= length gen_known_hosts_memo_free)%nat.
Proof. vm_compute. split; [reflexivity|repeat constructor]. Qed.
Print Assumptions C10_known_hosts_read_at_every_check.

(* a reader that reuses what it read earlier ONLY for the same content (in particular: never) cannot be told
   from reading the file at every open: for every history of file versions (modification time, content) and
   scenarios, from every sound memo state, the events of each open are those of the entry its own content gives *)
Theorem C10_known_hosts_memo_transparent :
  forall lookup_text reuse, (forall a b, reuse a b = true -> v_text a = v_text b) ->
  forall l h m, memo_sound lookup_text m -> run_memo lookup_text reuse l m h = memo_spec lookup_text l h.
Proof. exact memo_transparent. Qed.
Print Assumptions C10_known_hosts_memo_transparent.

(* hence the per-open guarantee with the file content AT THAT OPEN deciding — edited in place, with or
   without the modification time moving, or replaced by rename *)
Theorem C10_known_hosts_content_decides :
  forall lookup_text reuse, (forall a b, reuse a b = true -> v_text a = v_text b) ->
  forall l h m s tr, memo_sound lookup_text m ->
    In (s, tr) (run_memo lookup_text reuse l m h) ->
    strict s = true -> key_bad s = true -> (l = Asyncssh -> agrees s) ->
    no_offer tr = true /\ (handshake_ok s = true -> ends_with AuthenticationFailed tr = true).
Proof. exact memo_history_protects. Qed.
Print Assumptions C10_known_hosts_content_decides.

(* it holds of the code as written and of a content-validated memo; it is refuted (vm_compute witness: the
   entry replaced by a key of the same length, same modification time, the server still presenting the old
   key) for a memo revalidated by the modification time, or by modification time and size *)
Theorem C10_known_hosts_mtime_memo_refuted :
  memo_full reuse_never /\ memo_full reuse_same_text /\
  ~ memo_full reuse_same_stamp /\ ~ memo_full reuse_same_stamp_size.
Proof.
  exact (conj memo_full_never (conj memo_full_same_text memo_same_stamp_refuted)).
Qed.
Print Assumptions C10_known_hosts_mtime_memo_refuted.

(* ---- known_hosts MARKER lines (@revoked, @cert-authority) are never trust entries ---- *)
(* a file as the lines it has for the host question: marker, trailing comment, names-the-host, key.  Whatever
   reader that does not strip markers (in particular SSHKnownHosts._parse as written, [reader_as_written], tied by
   the marker-lookup correspondence run): a key carried by marker lines only is never the lookup result *)
Theorem C10_marker_lines_never_the_entry :
  forall rd first ls sk, r_marker_blind rd = false -> plain_entry_has ls sk = false ->
    lookup_lines rd first ls = None \/ exists k, lookup_lines rd first ls = Some k /\ k <> sk.
Proof. exact marker_lines_never_the_entry. Qed.
Print Assumptions C10_marker_lines_never_the_entry.

(* strict mode, the presented key is on no NON-marker line for the host (revoked for it, a certificate authority
   for it, under other hosts only, nowhere): nothing is offered, the attempt ends in ScrapliAuthenticationFailed *)
Theorem C10_marker_protects_credentials :
  forall rd first ls l s,
    r_marker_blind rd = false -> strict s = true -> entry s = lookup_lines rd first ls ->
    plain_entry_has ls (skey s) = false -> (l = Asyncssh -> agrees s) ->
    no_offer (open_trace true l s) = true /\
    (handshake_ok s = true -> ends_with AuthenticationFailed (open_trace true l s) = true).
Proof. exact marker_protects_credentials. Qed.
Print Assumptions C10_marker_protects_credentials.

(* it IS a statement about the reader: refuted (witness "@revoked host K", the server presents K) for a reader that
   strips the marker and files the rest as an entry, with or without tolerating trailing comments *)
Theorem C10_marker_blind_reader_refuted :
  marker_full reader_as_written /\ marker_full (mkR false true) /\
  ~ marker_full (mkR true false) /\ ~ marker_full (mkR true true).
Proof.
  exact (conj (proj1 marker_full_as_written) (conj (proj2 marker_full_as_written) marker_blind_refuted)).
Qed.
Print Assumptions C10_marker_blind_reader_refuted.

(* ---- asyncssh: the hypothesis on its matcher is needed (names vs. peer address) ---- *)
(* with NO assumption on what asyncssh trusts the statement is false of the asyncssh transport: asyncssh matches
   known_hosts entries by the dialled name OR the peer address; another key under the name + the server's key
   under the address => Trusted, credentials inside connect(), scrapli's comparison afterwards (listed finding
   c10-asyncssh-peer-address-entry).  C10_no_offer_before_verify is the partial: its hypothesis [agrees] excludes
   exactly that region. *)
Theorem C10_asyncssh_unconditional_refuted : ~ async_unconditional_full.
Proof. exact async_unconditional_refuted. Qed.
Print Assumptions C10_asyncssh_unconditional_refuted.

(* ---- system transport: what ssh(1) is asked, for ALL arguments ---- *)
Theorem C10_system_strict_effective :
  forall a, a_strict a = true -> host_ok (a_host a) = true ->
    effective kw_strict (build_open_cmd a) = Some s_yes.
Proof. exact system_strict_effective. Qed.
Print Assumptions C10_system_strict_effective.

Theorem C10_system_known_hosts_effective :
  forall a p, a_strict a = true -> host_ok (a_host a) = true -> a_known a = FPath p -> path_ok p = true ->
    effective kw_ukhf (build_open_cmd a) = Some p.
Proof. exact system_known_hosts_effective. Qed.
Print Assumptions C10_system_known_hosts_effective.

Theorem C10_system_no_only_when_false :
  forall a, host_ok (a_host a) = true -> effective kw_strict (build_open_cmd a) <> Some s_yes -> a_strict a = false.
Proof. exact system_no_only_when_false. Qed.
Print Assumptions C10_system_no_only_when_false.
