(* C08 — losing the connection surfaces promptly as a scrapli error.
   This file contains only the property theorems (closed by [exact] from proofs/ConnLoss_Proofs.v, instantiated with
   the configuration generated from the current source tree) and Print Assumptions. *)
From Verif Require Import Bytes ConnLoss ConnLoss_Proofs ConnLossNeg ConnLossNeg_Proofs ConnLossTime ConnLossTime_Proofs.
From Gen Require Import Gen_ConnLoss.

(* The generated configuration (exception tables around every low-level call of the five transports, guards,
   EOF handling, isalive(), the login loops' except clauses, the subclass relation of the classes involved) passes
   the model's well-formedness check: every exception a library is documented to raise from a low-level read,
   write, close, liveness probe or step of open() ends as a ScrapliException subclass (or is dealt with), an empty
   read is raised, isalive() honours EOF, the not-opened guards are there, the asyncio login loop sleeps on every
   path, no other channel read/write loop catches anything -- the read-for-a-duration loop
   (_read_until_prompt_or_time, sync and asyncio) has a table of its own around self.read(): it swallows nothing but
   a ScrapliTimeout, every other scrapli exception (ScrapliConnectionError, ScrapliConnectionNotOpened, ...) leaves it
   raised (rtime_ok) --, and the channel lock context manager gives the lock back however the operation under it is
   left (an exception included). *)
Theorem C08_generated_config_ok :
  cfg_ok gen_cfg = true /\ cfg_ok gen_cfg_strict = true /\ gen_chan_loops_try_free = true /\
  rtime_ok gen_cfg gen_rtime_sync = true /\ rtime_ok gen_cfg gen_rtime_async = true /\
  gen_chan_lock_released = true.
Proof. repeat split; vm_compute; reflexivity. Qed.
Print Assumptions C08_generated_config_ok.

(* loss_is_scrapli.  For EVERY transport, EVERY history of operations (channel operations = any sequence of
   writes, read-until loops with any matcher, the Telnet and SSH in-channel login loops; isalive(); close();
   transport.write()), EVERY sequence of low-level events — so every byte offset at which the stream can end in
   an empty read / a documented exception / silence, every write that can fail, every liveness-probe answer, every
   close() failure — and every timeout_ops > 0, from the opened as well as the never-opened state:
   each operation ends normally or in a ScrapliException subclass (never a raw exception, never a hang);
   isalive() afterwards answers (or raises a scrapli exception), and never True once the loss is visible to the
   transport; a channel operation during which the connection is lost raises; once the read side is gone every
   operation that reads raises; anything that touches a detached transport raises ScrapliConnectionNotOpened. *)
Theorem C08_loss_is_scrapli :
  forall (tr : transport) (To Ti : N) (os : list op) (st : tst) (e : env) (rs : list rev),
    0 < To -> inv tr st -> env_ok tr e = true -> rs_ok tr rs = true -> forallb op_ok os = true ->
    Forall (fun o =>
      good gen_cfg (o_out o) = true /\
      agood gen_cfg (o_alive_after o) /\
      (o_alost_after o = true -> o_alive_after o <> ABool true) /\
      (o_chan o = true -> o_lost_before o = false -> o_lost_after o = true -> is_raised gen_cfg (o_out o)) /\
      (o_reads o = true -> o_doomed_before o = true -> is_raised gen_cfg (o_out o)) /\
      (o_io o = true -> o_attached_before o = false -> o_out o = ORaised SNotOpened))
      (run_ops gen_cfg tr To Ti os st e rs).
Proof. exact (run_ops_spec gen_cfg (proj1 C08_generated_config_ok)). Qed.
Print Assumptions C08_loss_is_scrapli.

(* the same with asyncssh's strict-key open() tables (only open() differs) *)
Theorem C08_loss_is_scrapli_strict :
  forall tr To Ti os st e rs,
    0 < To -> inv tr st -> env_ok tr e = true -> rs_ok tr rs = true -> forallb op_ok os = true ->
    Forall (obs_ok gen_cfg_strict) (run_ops gen_cfg_strict tr To Ti os st e rs).
Proof. exact (run_ops_spec gen_cfg_strict (proj1 (proj2 C08_generated_config_ok))). Qed.
Print Assumptions C08_loss_is_scrapli_strict.

(* the hypotheses are satisfiable by the states every connection starts from *)
Theorem C08_initial_states_ok : forall tr, inv tr st_open /\ inv tr st_never.
Proof. exact (fun tr => conj (inv_open tr) (inv_never tr)). Qed.
Print Assumptions C08_initial_states_ok.

(* once the read side is lost it stays lost: every later operation of the history starts doomed (so, by the
   theorem above, raises if it reads) and isalive() must not answer True *)
Theorem C08_after_loss :
  forall tr To Ti os st e rs,
    0 < To -> inv tr st -> env_ok tr e = true -> rs_ok tr rs = true -> forallb op_ok os = true ->
    rlost st = true ->
    Forall (fun o => o_doomed_before o = true /\ o_alost_after o = true) (run_ops gen_cfg tr To Ti os st e rs).
Proof. exact (run_ops_after_loss gen_cfg (proj1 C08_generated_config_ok)). Qed.
Print Assumptions C08_after_loss.

(* a never-opened or closed transport stays detached (so every later operation raises ScrapliConnectionNotOpened) *)
Theorem C08_detached_stays :
  forall tr To Ti os st e rs,
    0 < To -> inv tr st -> env_ok tr e = true -> rs_ok tr rs = true -> forallb op_ok os = true ->
    attached st = false ->
    Forall (fun o => o_attached_before o = false) (run_ops gen_cfg tr To Ti os st e rs).
Proof. exact (run_ops_detached gen_cfg (proj1 C08_generated_config_ok)). Qed.
Print Assumptions C08_detached_stays.

Theorem C08_close_detaches :
  forall tr st e st' e',
    inv tr st -> env_ok tr e = true -> t_close gen_cfg tr st e = (None, st', e') -> attached st' = false.
Proof. exact (close_detaches gen_cfg (proj1 C08_generated_config_ok)). Qed.
Print Assumptions C08_close_detaches.

(* open(): whichever library step fails with whichever documented exception, open() raises a scrapli exception *)
Theorem C08_open_is_scrapli :
  forall tr evs,
    Forall2 (fun v l => match v with CRaise x => In x l | COk => True end) evs
            (firstn (length evs) (open_may_raise tr)) ->
    (match t_open gen_cfg tr evs with Some y => scrapli gen_cfg y = true | None => True end) /\
    (match t_open gen_cfg_strict tr evs with Some y => scrapli gen_cfg_strict y = true | None => True end).
Proof.
  exact (fun tr evs H => conj (open_is_scrapli gen_cfg (proj1 C08_generated_config_ok) tr evs H)
                              (open_is_scrapli gen_cfg_strict (proj1 (proj2 C08_generated_config_ok)) tr evs H)).
Qed.
Print Assumptions C08_open_is_scrapli.

(* the writes INSIDE a read.  Both Telnet transports answer the server's option requests from within read()
   (_handle_control_chars_response).  The reply-site facts generated from the source (gen_ncf: the try/except tables
   between the low-level send of a reply and the caller of read() -- those of the transport's own write() when the
   reply goes through it --, whether the handler's per-byte guard is a liveness probe) pass the check: every
   exception the socket's send can raise for a reply ends as a ScrapliException subclass (an asyncio StreamWriter
   raises none for a lost connection). *)
Theorem C08_negotiation_config_ok :
  neg_ok gen_cfg (gen_ncf Telnet) Telnet = true /\ neg_ok gen_cfg (gen_ncf ATelnet) ATelnet = true.
Proof. split; vm_compute; reflexivity. Qed.
Print Assumptions C08_negotiation_config_ok.

(* read() over an opening burst of any number k of option requests, on both Telnet transports, for EVERY outcome of
   every reply's send, every liveness-probe answer in between (sync telnet probes once per byte) and whatever the
   next low-level read brings: read() returns, waits (the timeout's business) or raises a ScrapliException subclass
   -- never a raw OSError --, and leaves the connection in a state the theorems above apply to (so the operations
   that follow are covered by C08_loss_is_scrapli). *)
Theorem C08_negotiation_replies :
  forall tr k st e rs r st' e' rs',
    is_telnet tr = true -> inv tr st -> env_ok tr e = true -> neg_env_ok tr st e = true -> rs_ok tr rs = true ->
    t_read_neg gen_cfg (gen_ncf tr) tr k st e rs = (r, st', e', rs') ->
    xgood gen_cfg r /\ inv tr st' /\ env_ok tr e' = true /\ rs_ok tr rs' = true /\ mono st st' /\
    (attached st = false -> r = XExc SNotOpened).
Proof. exact (telnets_read_neg_spec gen_cfg gen_ncf (proj1 C08_generated_config_ok) C08_negotiation_config_ok). Qed.
Print Assumptions C08_negotiation_replies.

(* non-vacuity: the device sends two option requests and hangs up; the first reply leaves, the second meets EPIPE:
   read() raises ScrapliConnectionError (31), isalive() is False, the next read() ScrapliConnectionNotOpened (32: the
   Socket's truth value), a get_prompt ScrapliConnectionError again.  And a bare send at the reply site would not
   pass the check. *)
Theorem C08_example_negotiation :
  obs_codes (run_neg_ops gen_cfg (gen_ncf Telnet) Telnet 300 300 2
      [OpRead; OpChan [IWrite; IRead (m_contains [35])]]
      st_open (mkEnv [WOk; WRaise EBrokenPipe] [] []) [REmpty])
    = [((2, 31), (1, 0)); ((2, 32), (1, 0)); ((2, 31), (1, 0))]
  /\ neg_ok gen_cfg (mkNcfg false []) Telnet = false.
Proof. split; [vm_compute; reflexivity | exact (neg_ok_bare_fails gen_cfg (proj1 C08_generated_config_ok))]. Qed.
Print Assumptions C08_example_negotiation.

(* the read-for-a-duration loop (channel._read_until_prompt_or_time under send_input_and_read / Driver.send_and_read),
   with the table generated from the source, for EVERY transport, matcher (expected outputs / prompt), buffer, amount
   of read duration left and history of low-level events: it ends normally, in a blocked read (the operation's
   timeout) or in a ScrapliException subclass; it never spins or starves; the state it leaves is one the theorems
   above apply to; on a detached transport it raises at once. *)
Theorem C08_read_for_duration :
  forall (a : bool) tr m fuel buf st e rs,
    inv tr st -> env_ok tr e = true -> rs_ok tr rs = true ->
    rt_post gen_cfg tr st (read_time gen_cfg tr (gen_rtime a) m fuel buf st e rs).
Proof.
  intros a; destruct a;
  [ exact (read_time_spec gen_cfg (proj1 C08_generated_config_ok) gen_rtime_async
             (proj1 (proj2 (proj2 (proj2 (proj2 C08_generated_config_ok))))))
  | exact (read_time_spec gen_cfg (proj1 C08_generated_config_ok) gen_rtime_sync
             (proj1 (proj2 (proj2 (proj2 C08_generated_config_ok))))) ].
Qed.
Print Assumptions C08_read_for_duration.

(* ... and whichever round read() raises a connection-loss class in (ScrapliConnectionError, ...NotOpened, ...),
   that round ends the loop in a ScrapliException: a loss is never reported as the end of the output *)
Theorem C08_read_for_duration_raises :
  forall (a : bool) tr m fuel buf st e rs x st1 e1 rs1,
    t_read gen_cfg tr st e rs = (XExc x, st1, e1, rs1) -> In x loss_classes ->
    exists y, read_time gen_cfg tr (gen_rtime a) m fuel buf st e rs = LStop (ORaised y) st1 e1 rs1
              /\ scrapli gen_cfg y = true.
Proof.
  intros a; destruct a; intros tr m fuel buf st e rs x st1 e1 rs1;
  [ exact (read_time_raises gen_cfg tr gen_rtime_async m fuel buf st e rs x st1 e1 rs1
             (proj1 (proj2 (proj2 (proj2 (proj2 C08_generated_config_ok))))))
  | exact (read_time_raises gen_cfg tr gen_rtime_sync m fuel buf st e rs x st1 e1 rs1
             (proj1 (proj2 (proj2 (proj2 C08_generated_config_ok))))) ].
Qed.
Print Assumptions C08_read_for_duration_raises.

(* non-vacuity on the generated configuration: send_and_read (input "sh", until "#"), the session dropped after the
   echo and the first bytes of the answer, on each transport -- it raises ScrapliConnectionError (31), isalive() is
   False, the next get_prompt raises; without a drop it ends normally on the prompt; and a table that also swallows
   ScrapliConnectionError does not pass the check (and would make the dropped exchange end normally: (0, 0)) *)
Theorem C08_example_read_for_duration :
  (forall tr, In tr all_transports ->
     sar_codes gen_cfg (gen_rtime (is_async tr)) tr 300 0 (m_input [115;104]) (m_prompt [35]) 50 (mkEnv [] [] [])
       [RData [115;104]; RData [10;111;117]; REmpty]
     = [((2, 31), (1, 0)); ((2, 31), (1, 0))]
     /\
     sar_codes gen_cfg (gen_rtime (is_async tr)) tr 300 0 (m_input [115;104]) (m_prompt [35]) 50 (mkEnv [] [] [])
       [RData [115;104]; RData [10;111;117]; RData [10;35]; RData [10;35]]
     = [((0, 0), (1, 1)); ((0, 0), (1, 1))])
  /\ rtime_ok gen_cfg [[([STimeout], ASwallow); ([SConnectionError], ASwallow)]] = false
  /\ hd ((9, 9), (9, 9)) (sar_codes gen_cfg [[([STimeout], ASwallow); ([SConnectionError], ASwallow)]] Telnet 300 0
         (m_input [115;104]) (m_prompt [35]) 2 (mkEnv [] [] []) [RData [115;104]; RData [10;111;117]; REmpty])
     = ((0, 0), (1, 0)).
Proof.
  split; [|split; vm_compute; reflexivity].
  intros tr H; simpl in H; repeat destruct H as [H|H]; try subst tr; try contradiction; split; vm_compute; reflexivity.
Qed.
Print Assumptions C08_example_read_for_duration.

(* the full statement — the same without "timeout_ops > 0" — is false: timeout_ops = 0 means no timeout, and a
   silent peer then hangs the operation (documented as outside the property) *)
Definition C08_full : Prop :=
  forall tr To Ti os st e rs,
    inv tr st -> env_ok tr e = true -> rs_ok tr rs = true -> forallb op_ok os = true ->
    Forall (obs_ok gen_cfg) (run_ops gen_cfg tr To Ti os st e rs).
Theorem C08_full_refuted : ~ C08_full.
Proof. exact (full_refuted gen_cfg). Qed.
Print Assumptions C08_full_refuted.

(* non-vacuity on the generated configuration: a session dropped in the middle of a command's output, on each
   transport — the command raises ScrapliConnectionError (code 31), isalive() is False afterwards, the next
   command raises, and after close() ScrapliConnectionNotOpened (32) *)
Theorem C08_example_drop :
  forall tr, In tr all_transports ->
    obs_codes (run_ops gen_cfg tr 300 0
      [OpChan [IWrite; IRead (m_input [115;104]); IWrite; IRead (m_prompt [35])];
       OpChan [IWrite; IRead (m_contains [35])]; OpClose; OpChan [IWrite; IRead (m_contains [35])]]
      st_open (mkEnv [] [] []) [RData [115;104]; RData [10;111;117]; REmpty])
    = [((2, 31), (1, 0)); ((2, 31), (1, 0)); ((0, 0), (1, 0)); ((2, 32), (1, 0))].
Proof. intros tr H; simpl in H; repeat destruct H as [H|H]; try subst tr; try contradiction; vm_compute; reflexivity. Qed.
Print Assumptions C08_example_drop.
