(* C20 — channel log and scrapli log file record the session faithfully.
   This file contains only the property theorems (closed by [exact]) and Print Assumptions,
   plus the by-computation obligations over the definitions regenerated from the source tree. *)
From Verif Require Import Bytes LogFormat LogHandler ChanLog Commandeer ChanReopen LogFormat_Proofs LogHandler_Proofs LogRepr_Proofs ChanLog_Proofs Commandeer_Proofs ChanReopen_Proofs LogMode_Proofs.
From Gen Require Import Gen_Log.

(* ---- channel log ---- *)
(* For EVERY sequence of transport reads, every ANSI stripper, every kind of sink (off / file in write
   or append mode / caller's BytesIO) and whatever the sink held before: after the reads the sink holds
   what it held at open followed by exactly the bytes read with carriage returns removed, in order, once. *)
Theorem C20_channel_log_exact :
  forall (strip : bytes -> bytes) (k : sink_kind) (existing : bytes) (chunks : list bytes),
    chan_log strip k existing chunks =
    match open_sink k existing with
    | None => None
    | Some s0 => Some (s0 ++ remove_byte CR (concat chunks))
    end.
Proof. exact channel_log_exact. Qed.
Print Assumptions C20_channel_log_exact.

Theorem C20_channel_log_per_read :
  forall strip k existing chunks s0, open_sink k existing = Some s0 ->
    chan_log strip k existing chunks = Some (s0 ++ concat (map (remove_byte CR) chunks)).
Proof. exact channel_log_per_read. Qed.
Print Assumptions C20_channel_log_per_read.

Theorem C20_channel_log_only_cr_removed :
  forall chunks, ~ In CR (remove_byte CR (concat chunks)) /\
                 (~ In CR (concat chunks) -> remove_byte CR (concat chunks) = concat chunks).
Proof. exact (fun chunks => conj (channel_log_no_cr chunks) (channel_log_identity_without_cr chunks)). Qed.
Print Assumptions C20_channel_log_only_cr_removed.

(* logging what read() returns (after ANSI stripping) instead would not satisfy the statement *)
Theorem C20_log_after_strip_refuted :
  exists strip chunks,
    snd (chan_session strip false (Some []) chunks) <> Some (remove_byte CR (concat chunks)).
Proof. exact log_after_strip_refuted. Qed.
Print Assumptions C20_log_after_strip_refuted.

(* ---- the whole session: Driver.open / AsyncDriver.open ---- *)
(* When channel.open() is the first channel-level event of the session, the sink holds EVERY byte read from
   the device from the first byte of the session on — banner, login dialogue, motd, prompts, outputs —
   carriage returns removed, in order, once. *)
Theorem C20_whole_session_exact :
  forall (strip : bytes -> bytes) (k : sink_kind) (existing : bytes) (sink0 : option bytes) (chunks : list bytes),
    sess_log strip k existing sink0 (EvOpen :: map EvRead chunks) =
    match open_sink k existing with
    | None => None
    | Some s0 => Some (s0 ++ remove_byte CR (concat chunks))
    end.
Proof. exact whole_session_exact. Qed.
Print Assumptions C20_whole_session_exact.

(* reads made before channel.open() (a login run before the channel is set up) never reach the log: the
   statement is false of such an order, the log is that of the later reads alone *)
Theorem C20_late_open_loses :
  forall strip k existing pre post,
    sess_log strip k existing None (map EvRead pre ++ EvOpen :: map EvRead post) = chan_log strip k existing post.
Proof. exact late_open_loses. Qed.
Print Assumptions C20_late_open_loses.

Theorem C20_late_open_refuted :
  exists pre post,
    sess_log (fun b => b) SBytesIO [] None (map EvRead pre ++ EvOpen :: map EvRead post)
    <> Some (remove_byte CR (concat (pre ++ post))).
Proof. exact late_open_refuted. Qed.
Print Assumptions C20_late_open_refuted.

(* ---- a commandeered connection: Driver.commandeer / AsyncDriver.commandeer ---- *)
(* A opened the connection with a channel log on destination d and read [pre] through it; B commandeers it (B takes
   A's open log, B's own configured channel_log is not opened) and [post] is read through A and B in any
   interleaving: d holds what it held after A's open followed by EVERY byte read on the connection, CRs removed, in
   order, once, and every other destination (B's own included) is untouched. *)
Theorem C20_commandeer_exact :
  forall (d : nat) (s : store) (pre : list bytes) (post : list (who * bytes)),
    cont (cmd_run (after_open (Some d) s) (cmd_session CTakeover pre post)) d
      = s d ++ remove_byte CR (concat (pre ++ map snd post)) /\
    (forall x, x <> d -> cont (cmd_run (after_open (Some d) s) (cmd_session CTakeover pre post)) x = s x).
Proof. exact commandeer_exact. Qed.
Print Assumptions C20_commandeer_exact.

(* A has no channel log: commandeering gives B none, no destination is written (B's configured one stays as it was) *)
Theorem C20_commandeer_without_log :
  forall (s : store) (pre : list bytes) (post : list (who * bytes)),
    cmd_run (after_open None s) (cmd_session CTakeover pre post) = after_open None s.
Proof. exact commandeer_without_log. Qed.
Print Assumptions C20_commandeer_without_log.

(* the commandeering object opening its own configured destination (the same file, write mode) instead of taking
   over the open log falsifies the statement: what was read before the commandeering is lost *)
Theorem C20_reopen_same_destination_refuted :
  exists d s pre post,
    cont (cmd_run (after_open (Some d) s) (cmd_session (CReopen d false) pre post)) d
      <> s d ++ remove_byte CR (concat (pre ++ map snd post)).
Proof. exact reopen_same_destination_refuted. Qed.
Print Assumptions C20_reopen_same_destination_refuted.

(* ---- ONE driver object opened, closed and opened again (Driver.open / close, several sessions on one channel object) ---- *)
(* append mode, path or True: after any number of whole sessions the file holds what it held before the first followed by
   EVERY byte served in every session, CRs removed, in order, once; no read raised, none went unlogged *)
Theorem C20_reopen_append_exact :
  forall (keeps_open : bool) (existing : bytes) (sessions : list (list bytes)),
    let st := reopen_run false (SFile true) keeps_open (reopen_init existing) (history sessions) in
    dest st = existing ++ crs (concat sessions) /\ raised st = 0%nat /\ dropped st = 0%nat
    /\ logged st = length (concat sessions).
Proof. exact reopen_append_exact. Qed.
Print Assumptions C20_reopen_append_exact.

(* write mode: every open starts the file anew — after the last close it holds the LAST session, whole *)
Theorem C20_reopen_write_last :
  forall (keeps_open : bool) (existing : bytes) (earlier : list (list bytes)) (last : list bytes),
    let st := reopen_run false (SFile false) keeps_open (reopen_init existing) (history (earlier ++ [last])) in
    dest st = crs last /\ raised st = 0%nat /\ dropped st = 0%nat.
Proof. exact reopen_write_last. Qed.
Print Assumptions C20_reopen_write_last.

(* a BytesIO that survives close() accumulates every session after what it held *)
Theorem C20_reopen_bytesio_kept_open_exact :
  forall (existing : bytes) (sessions : list (list bytes)),
    let st := reopen_run false SBytesIO true (reopen_init existing) (history sessions) in
    dest st = existing ++ crs (concat sessions) /\ raised st = 0%nat /\ dropped st = 0%nat.
Proof. exact reopen_bytesio_kept_open_exact. Qed.
Print Assumptions C20_reopen_bytesio_kept_open_exact.

(* io.BytesIO proper is closed by close(): it holds the first session; opened again, EVERY read raises — the full statement
   (the log holds every byte read) is false of that region, and what is true instead is that nothing is lost quietly *)
Definition C20_reopen_full : Prop :=
  forall (k : sink_kind) (keeps_open : bool) (existing : bytes) (sessions : list (list bytes)), k = SFile true \/ k = SBytesIO ->
    dest (reopen_run false k keeps_open (reopen_init existing) (history sessions)) = existing ++ crs (concat sessions).
Theorem C20_reopen_full_refuted : ~ C20_reopen_full.
Proof.
  intro H. specialize (H SBytesIO false [] [[[97]]; [[98]]] (or_intror eq_refl)). vm_compute in H. discriminate.
Qed.
Print Assumptions C20_reopen_full_refuted.

Theorem C20_reopen_bytesio_closed_loud :
  forall (existing : bytes) (first : list bytes) (later : list (list bytes)),
    let st := reopen_run false SBytesIO false (reopen_init existing) (history (first :: later)) in
    dest st = existing ++ crs first /\ raised st = length (concat later) /\ dropped st = 0%nat
    /\ logged st = length first.
Proof. exact reopen_bytesio_closed_loud. Qed.
Print Assumptions C20_reopen_bytesio_closed_loud.

Theorem C20_reopen_nothing_silent :
  forall (k : sink_kind) (keeps_open : bool) (existing : bytes) (sessions : list (list bytes)), k <> SNone ->
    let st := reopen_run false k keeps_open (reopen_init existing) (history sessions) in
    dropped st = 0%nat /\ (logged st + raised st)%nat = length (concat sessions).
Proof. exact reopen_nothing_silent. Qed.
Print Assumptions C20_reopen_nothing_silent.

(* "open() sets the log up only when channel_log is None, read() skips a closed log": the second session is lost without a sound *)
Theorem C20_reopen_skip_if_set_refuted :
  exists k existing sessions,
    let st := reopen_run true k false (reopen_init existing) (history sessions) in
    dropped st <> 0%nat /\ raised st = 0%nat /\ dest st <> existing ++ crs (concat sessions).
Proof. exact reopen_skip_if_set_refuted. Qed.
Print Assumptions C20_reopen_skip_if_set_refuted.

(* ---- enable_basic_logging(mode=...): write and append modes in every spelling ---- *)
Theorem C20_mode_spelling :
  forall m : str,
    (lower m = mode_append -> mode_of m = Some true) /\
    (lower m = mode_write -> mode_of m = Some false) /\
    (lower m <> mode_append -> lower m <> mode_write -> mode_of m = None).
Proof. exact mode_of_spec. Qed.
Print Assumptions C20_mode_spelling.

(* whatever the casing of "append", both handlers: the previous content of the file is kept and what follows it is exactly what
   the same records give on an empty file (C20_file_log_complete / C20_plain_log_complete say which lines those are) *)
Theorem C20_mode_append_keeps_previous :
  forall (buffered : bool) (c : fconf) (existing m : str) (recs : list record) (st : hstate),
    lower m = mode_append -> run_basic buffered (fixed c) existing m recs = Some st ->
    exists added, file st = existing ++ added /\ file (run_handler buffered (fixed c) [] true recs) = added.
Proof. exact basic_logging_append_keeps_previous. Qed.
Print Assumptions C20_mode_append_keeps_previous.

Theorem C20_mode_write_starts_empty :
  forall (buffered : bool) (c : hconf) (existing m : str) (recs : list record),
    lower m = mode_write -> run_basic buffered c existing m recs = Some (run_handler buffered c [] false recs).
Proof. exact basic_logging_write_any_casing. Qed.
Print Assumptions C20_mode_write_starts_empty.

Theorem C20_mode_refuses_other_strings :
  forall (buffered : bool) (c : hconf) (existing m : str) (recs : list record),
    lower m <> mode_append -> lower m <> mode_write -> run_basic buffered c existing m recs = None.
Proof. exact basic_logging_refuses_other_strings. Qed.
Print Assumptions C20_mode_refuses_other_strings.

(* choosing the file mode from the raw spelling after validating the lower-cased one: "Append" opens the file with "w" *)
Theorem C20_mode_raw_lookup_refuted : exists m, lower m = mode_append /\ mode_of_raw m = Some false.
Proof. exact mode_of_raw_refuted. Qed.
Print Assumptions C20_mode_raw_lookup_refuted.

(* ---- log file, buffering handler (ScrapliFileHandler), as the code is now ---- *)
(* For EVERY formatter configuration, previous file content, mode and EVERY sequence of records (eager or
   lazily %-formatted, any extras, malformed ones included) followed by close: the file is the previous
   content (append mode) followed by one line per group of the loggable records, numbered from 1 — groups
   being the maximal runs of consecutive read messages (one line, payload = concatenation of theirs) and every
   other record alone; each malformed record is reported exactly once through handleError; nothing stays
   pending. *)
Theorem C20_file_log_complete :
  forall (c : fconf) (existing : str) (append : bool) (recs : list record),
    let st := run_buffered (fixed c) existing append recs in
    file st = (if append then existing else []) ++ render_groups c 1 (groups (filter loggable recs))
    /\ errors st = count malformed recs
    /\ escaped st = count unencodable recs
    /\ pending st = None.
Proof. exact file_log_complete. Qed.
Print Assumptions C20_file_log_complete.

Theorem C20_file_log_complete_wellformed :
  forall c existing append recs, forallb loggable recs = true ->
    let st := run_buffered (fixed c) existing append recs in
    file st = (if append then existing else []) ++ render_groups c 1 (groups recs)
    /\ errors st = 0%nat /\ escaped st = 0%nat /\ pending st = None.
Proof. exact file_log_complete_wellformed. Qed.
Print Assumptions C20_file_log_complete_wellformed.

(* what [groups] means: a partition of the session into consecutive groups (every record exactly once, in
   order), each a non-empty run of reads or a single other record, runs maximal; a read group's message is
   "read : " + repr of the concatenated payloads, any other group's message is the record's own *)
Theorem C20_groups_partition :
  forall recs,
    concat (groups recs) = recs
    /\ forallb (fun g => read_group g || lone_other g) (groups recs) = true
    /\ adjacent_reads (groups recs) = false
    /\ flat_map (flat_map pay) (groups recs) = flat_map pay recs.
Proof. exact (fun recs => conj (groups_concat recs) (conj (groups_shape recs) (conj (groups_maximal recs) (groups_payload recs)))). Qed.
Print Assumptions C20_groups_partition.

Theorem C20_group_messages :
  (forall r g, is_read r = true -> group_message (r :: g) = read_out ++ repr_bytes (flat_map pay (r :: g)))
  /\ (forall r, is_read r = false -> group_message [r] = opt_str (get_message r)).
Proof. exact (conj group_message_read group_message_other). Qed.
Print Assumptions C20_group_messages.

(* no byte is lost in the file either: repr of bytes can be read back for EVERY byte string, so the coalesced
   line of a read group determines the group's payload — the concatenation of its records' payloads — exactly *)
Theorem C20_repr_bytes_invertible :
  forall b, all_bytes b = true -> unrepr_bytes (repr_bytes b) = Some b.
Proof. exact unrepr_repr. Qed.
Print Assumptions C20_repr_bytes_invertible.

Theorem C20_group_payload_recoverable :
  forall r g, is_read r = true ->
    unrepr_bytes (skipn (length read_out) (group_message (r :: g))) = Some (flat_map pay (r :: g)).
Proof. exact group_payload_recoverable. Qed.
Print Assumptions C20_group_payload_recoverable.

(* the plain logging.FileHandler (buffer_log=False): one line per record, in order *)
Theorem C20_plain_log_complete :
  forall c existing append recs,
    let st := run_plain (fixed c) existing append recs in
    file st = (if append then existing else []) ++ render_plain c 1 (filter (fun r => negb (malformed r)) recs)
    /\ errors st = count malformed recs /\ escaped st = 0%nat.
Proof. exact plain_log_complete. Qed.
Print Assumptions C20_plain_log_complete.

(* the pinned commit: both defects refute the full statement *)
Theorem C20_template_slicing_refuted : ~ file_log_complete_for (mkHC true false true (mkFC false true)).
Proof. exact file_log_complete_refuted_for_template_slicing. Qed.
Print Assumptions C20_template_slicing_refuted.
Theorem C20_no_flush_at_close_refuted : ~ file_log_complete_for (mkHC true true false (mkFC false true)).
Proof. exact file_log_complete_refuted_without_flush_at_close. Qed.
Print Assumptions C20_no_flush_at_close_refuted.
Theorem C20_pinned_handler_refuted : ~ file_log_complete_for (pinned (mkFC false true)).
Proof. exact file_log_complete_refuted_for_pinned. Qed.
Print Assumptions C20_pinned_handler_refuted.
(* ... and outside the findings' regions (eager records, no host without port, session not ending on a
   read) the pinned handler did what the handler does now *)
Theorem C20_file_log_complete_pinned_partial :
  forall c existing append recs,
    forallb good recs = true -> settledb true recs = true ->
    run_buffered (pinned c) existing append recs = run_buffered (fixed c) existing append recs.
Proof. exact file_log_complete_pinned_partial. Qed.
Print Assumptions C20_file_log_complete_pinned_partial.
Theorem C20_file_log_complete_now : forall c, file_log_complete_for (fixed c).
Proof. exact file_log_complete_fixed. Qed.
Print Assumptions C20_file_log_complete_now.

(* ---- formatter ---- *)
(* whichever of host / port / uid a record carries, formatting does not raise and the target is <= 25 wide *)
Theorem C20_format_total :
  forall x : extras, exists t, target true x = Some t /\ (length t <= 25)%nat.
Proof. exact format_total. Qed.
Print Assumptions C20_format_total.

Theorem C20_format_record_total :
  forall c id m message, exists line, format_record true c id m message = Some line.
Proof. exact format_record_total. Qed.
Print Assumptions C20_format_record_total.

Theorem C20_format_total_pinned_refuted : ~ format_total_for false.
Proof. exact format_total_refuted_for_pinned. Qed.
Print Assumptions C20_format_total_pinned_refuted.

Theorem C20_format_total_pinned_partial :
  forall x, (x_host x <> None -> x_port x <> None) ->
    exists t, target false x = Some t /\ (length t <= 25)%nat /\ target true x = Some t.
Proof. exact format_total_pinned_partial. Qed.
Print Assumptions C20_format_total_pinned_partial.

(* the message is written verbatim at the end of its line; a target that fits is shown in full, a longer
   one as its first 22 characters and "..." *)
Theorem C20_line_ends_with_message :
  forall c id m t, exists pre, forall message, format_with c id m t message = pre ++ message.
Proof. exact line_ends_with_message. Qed.
Print Assumptions C20_line_ends_with_message.

Theorem C20_target_faithful :
  forall x hp, host_port true x = Some hp ->
    ((length (uid_part x ++ hp) <= 25)%nat -> target true x = Some (uid_part x ++ hp))
    /\ ((25 < length (uid_part x ++ hp))%nat -> target true x = Some (firstn 22 (uid_part x ++ hp) ++ dots)).
Proof. exact (fun x hp H => conj (target_exact_when_short x hp H) (target_long_is_marked x hp H)). Qed.
Print Assumptions C20_target_faithful.

(* ---- tie to the current source tree (Gen_Log.v is regenerated on every run) ---- *)
Theorem C20_generated_format :
  gen_fmt_plain = fmt_plain /\ gen_fmt_caller = fmt_caller /\ gen_first_id = 1
  /\ gen_format_ints = [target_bound; target_keep; target_cut; caller_bound; caller_keep; caller_cut;
                        caller_bound; caller_keep; caller_cut; 1; 1]%nat
  /\ gen_format_strs = [[104;111;115;116]; []; []; []; [112;111;114;116]; []; [58]; []; [117;105;100]; [58];
                        dots; dots; dots; h_id; h_lineno; h_target; [10]].
Proof. repeat split; vm_compute; reflexivity. Qed.
Print Assumptions C20_generated_format.

Theorem C20_generated_header :
  (gen_h_id, gen_h_time, gen_h_level, gen_h_target, gen_h_module, gen_h_func, gen_h_lineno, gen_h_message)
  = (h_id, h_time, h_level, h_target, h_module, h_func, h_lineno, h_message).
Proof. vm_compute. reflexivity. Qed.
Print Assumptions C20_generated_header.

Theorem C20_generated_handler_constants :
  gen_read_prefix = read_prefix /\ gen_read_prefix_len = read_prefix_len /\ gen_read_out = read_out
  /\ length read_prefix = read_prefix_len /\ prefixb read_prefix read_out = false.
Proof. repeat split; vm_compute; reflexivity. Qed.
Print Assumptions C20_generated_handler_constants.

(* the hot path: read() of both channels is  transport.read -> remove CR -> lazy "read: %r" record ->
   channel log -> hold back a trailing partial escape sequence (7) -> ANSI strip -> return, and nothing else
   in the channel modules reads the transport; the record and the channel log come before anything alters buf *)
Theorem C20_generated_read_path :
  gen_read_steps_sync = [1; 2; 3; 4; 7; 5; 6]%nat /\ gen_read_steps_async = [1; 2; 3; 4; 7; 5; 6]%nat
  /\ gen_transport_read_sites_sync = [[114; 101; 97; 100]] /\ gen_transport_read_sites_async = [[114; 101; 97; 100]]
  /\ gen_transport_read_sites_base = [].
Proof. repeat split; vm_compute; reflexivity. Qed.
Print Assumptions C20_generated_read_path.

(* open() of both drivers: pre-open log -> transport.open() -> channel.open() -> in-channel logins (ssh: sync only;
   telnet) -> on_open -> post-open log; channel.open() comes before every statement that may read the channel, and
   nothing in the driver modules reads the transport directly *)
Theorem C20_generated_open_order :
  open_before_reads gen_open_steps_sync = true /\ open_before_reads gen_open_steps_async = true
  /\ gen_open_steps_sync = [1; 2; 3; 4; 5; 6; 7]%nat /\ gen_open_steps_async = [1; 2; 3; 5; 6; 7]%nat
  /\ gen_transport_read_sites_driver_sync = [] /\ gen_transport_read_sites_driver_async = [].
Proof. repeat split; vm_compute; reflexivity. Qed.
Print Assumptions C20_generated_open_order.

(* the records of the hot path, as the source spells them, are lazily formatted, format without error for any
   payload, and are classified as the handler expects: reads are reads, writes are not *)
Definition hot (t : str * nat) (a : arg) : record := mkR (fst t) (repeat a (snd t)) (mkM [] [] (mkX None None None) [] [] 0).
Theorem C20_generated_templates :
  gen_templates_read_sync = [(read_prefix ++ [37; 114], 1%nat)] /\ gen_templates_read_async = gen_templates_read_sync
  /\ forallb (fun t => negb (prefixb read_prefix (fst t))) gen_templates_write = true
  /\ forallb (fun t => loggable (hot t (AStr [37; 39])) && negb (is_read (hot t (AStr [37; 39])))) gen_templates_write = true
  /\ forallb (fun t => loggable (hot t (ABytes [37; 39; 255])) && is_read (hot t (ABytes [37; 39; 255]))) gen_templates_read_sync = true.
Proof. repeat split; vm_compute; reflexivity. Qed.
Print Assumptions C20_generated_templates.

(* a lazily formatted read record is a read for EVERY payload, and its payload is the repr of the bytes *)
Theorem C20_lazy_read_is_read :
  forall b m, is_read (mkR (read_prefix ++ [37; 114]) [ABytes b] m) = true
              /\ pay (mkR (read_prefix ++ [37; 114]) [ABytes b] m) = opt_bytes (utf8 (repr_bytes b)).
Proof. exact lazy_read_is_read. Qed.
Print Assumptions C20_lazy_read_is_read.

Theorem C20_generated_defaults :
  gen_default_file = false /\ gen_default_caller_info = false /\ gen_default_buffer_log = true
  /\ gen_default_mode = [119; 114; 105; 116; 101] /\ gen_channel_log_mode_default = [119]
  /\ forallb (fun p => let '((h, po, u), (eh, ep, eu)) := p in
                       let x := instance_extras h po u in
                       match x_host x, eh with Some a, Some b => beq a b | None, None => true | _, _ => false end
                       && match x_port x, ep with Some a, Some b => beq a b | None, None => true | _, _ => false end
                       && match x_uid x, eu with Some a, Some b => beq a b | None, None => true | _, _ => false end)
             gen_extras_grid = true.
Proof. repeat split; vm_compute; reflexivity. Qed.
Print Assumptions C20_generated_defaults.
