(* C09 — in-channel login answers the right prompt, once, and gives up safely.
   This file contains only the property theorems (closed by [exact], or decided by vm_compute over
   the regenerated definitions of Gen_Auth.v) and Print Assumptions.

   Model: coq/model/Auth.v — ONE state machine for channel_authenticate_telnet / _ssh of both stacks
   over the list of read events (data with the clock reading, asyncio poll expiry, connection
   error); the match predicates (patterns, ssh message handler) are arbitrary functions in every
   theorem that does not mention gen_cfg.  A history is the interleaving of what was read (IRead),
   the credentials written (IAns c = credential + return) and bare returns (IRet). *)
From Verif Require Import Bytes Regex RegexDeriv Auth Auth_Proofs.
From Gen Require Import Gen_Auth.

(* ---- every run: any patterns, any read sequence, any chunking, sync and asyncio ---- *)

(* each credential write is triggered by ITS OWN pattern matching exactly what was read since the
   previous credential write (nothing older: the buffer was cleared), and by nothing else *)
Theorem C09_answer_after_prompt : forall cf evs o its,
  run cf evs = (o, its) ->
  forall pre c post, its = pre ++ IAns c :: post ->
    In c (creds (c_kind cf)) /\
    c_pat cf c (since_clear pre) = true /\
    since_clear (pre ++ [IAns c]) = [].
Proof. exact answer_after_prompt. Qed.
Print Assumptions C09_answer_after_prompt.

Theorem C09_never_unprompted : forall cf evs o its c,
  run cf evs = (o, its) -> (forall b, c_pat cf c b = false) -> count_ans c its = 0%nat.
Proof. exact never_unprompted. Qed.
Print Assumptions C09_never_unprompted.

Theorem C09_at_most_twice : forall cf evs o its c,
  run cf evs = (o, its) -> (count_ans c its <= 2)%nat.
Proof. exact at_most_twice. Qed.
Print Assumptions C09_at_most_twice.

(* how a run can end: returning needs the prompt pattern on what was read since the last answer;
   ScrapliAuthenticationFailed is the third sighting (two submissions made) or a fatal message *)
Theorem C09_outcome_sound : forall cf evs o its,
  run cf evs = (o, its) ->
  match o with
  | ODone => c_prompt cf (since_clear its) = true
  | OAuthFailed (WThird c) =>
      In c (creds (c_kind cf)) /\ c_pat cf c (since_clear its) = true /\ count_ans c its = 2%nat
  | OAuthFailed WFatal => c_kind cf = Ssh /\ c_fatal cf (since_clear its) = true
  | OConnErr => c_kind cf = Ssh
  | OBlocks => True
  end.
Proof. exact outcome_sound. Qed.
Print Assumptions C09_outcome_sound.

(* the third sighting raises in the iteration that reads it: nothing written, nothing more read *)
Theorem C09_third_sighting_raises : forall cf evs1 s its1 b t evs2 c,
  exec cf init evs1 = (its1, Go s) ->
  (c_kind cf = Ssh -> c_fatal cf (since_clear its1 ++ lower b) = false) ->
  find (fun c => c_pat cf c (since_clear its1 ++ lower b)) (creds (c_kind cf)) = Some c ->
  count_ans c its1 = 2%nat ->
  run cf (evs1 ++ EData b t :: evs2) = (OAuthFailed (WThird c), its1 ++ its0 b (kicks cf s b t)).
Proof. exact third_sighting_raises. Qed.
Print Assumptions C09_third_sighting_raises.

Theorem C09_fatal_immediate : forall cf evs1 s its1 b t evs2,
  c_kind cf = Ssh ->
  exec cf init evs1 = (its1, Go s) ->
  c_fatal cf (since_clear its1 ++ lower b) = true ->
  run cf (evs1 ++ EData b t :: evs2) = (OAuthFailed WFatal, its1 ++ [IRead b]).
Proof. exact fatal_immediate. Qed.
Print Assumptions C09_fatal_immediate.

(* bare returns (Telnet kick): none on ssh; none without an empty read; none before the interval has
   elapsed; by time T fewer than T / interval *)
Theorem C09_kick_discipline : forall cf evs o its,
  run cf evs = (o, its) ->
  (forall e, In e evs -> is_err e = false) ->
  (c_kind cf = Ssh -> count_ret its = 0%nat) /\
  ((forall e, In e evs -> ev_empty e = false) -> count_ret its = 0%nat) /\
  ((forall e, In e evs -> ev_time e <= c_interval cf) -> count_ret its = 0%nat) /\
  (forall T, (forall e, In e evs -> ev_time e <= T) ->
             count_ret its = 0%nat \/ c_interval cf * N.of_nat (count_ret its) < T).
Proof. exact kick_discipline. Qed.
Print Assumptions C09_kick_discipline.

Theorem C09_conn_error_branch : forall cf evs1 s its1,
  exec cf init evs1 = (its1, Go s) ->
  match c_kind cf with
  | Telnet => exec cf init (evs1 ++ [EErr]) =
              (its1 ++ [IRet], Go (mkSt (s_buf s) (s_cnt s) (S (s_att s))))
  | Ssh => forall evs2, run cf (evs1 ++ EErr :: evs2) = (OConnErr, its1)
  end.
Proof. exact conn_error_branch. Qed.
Print Assumptions C09_conn_error_branch.

(* sync and asyncio: the asyncio loop's poll expiries are the sync loop's empty reads *)
Theorem C09_expiry_is_empty_read : forall cf evs, run cf (map as_sync evs) = run cf evs.
Proof. exact expiry_is_empty_read. Qed.
Print Assumptions C09_expiry_is_empty_read.

(* ---- closed loop with a causal login server: every dialogue (under dlg_ok: no chunk-prefix looks
   like a prompt it is not), every chunking schedule ---- *)
Theorem C09_closed_loop_correct : forall cf phs sched its x,
  empties cf -> dlg_ok cf phs -> no_kick_sched cf sched ->
  cl_run cf phs sched = (its, x) ->
  count_ret its = 0%nat /\
  (exists rest, expected zero phs = (fst (expected zero phs), answers its ++ rest) /\
                match x with ClStop _ => rest = [] | ClMore _ _ _ => True end) /\
  (forall o, x = ClStop o -> expected zero phs = (o, answers its)) /\
  ((needed zero phs < count_pos sched)%nat -> exists o, x = ClStop o).
Proof. exact closed_loop_correct. Qed.
Print Assumptions C09_closed_loop_correct.

(* the closed loop is a run of the login loop (so everything above applies to it) *)
Theorem C09_closed_loop_is_a_run : forall cf sched s pend phs its x,
  cl_exec cf s pend phs sched = (its, x) ->
  exists r, exec cf s (cl_events cf s pend phs sched) = (its, r) /\ outcome_of r = cl_outcome x.
Proof. exact cl_exec_is_exec. Qed.
Print Assumptions C09_closed_loop_is_a_run.

Theorem C09_login_completes : forall cf asked ph rest cs sched its x,
  empties cf ->
  map p_exp asked = map XCred cs -> p_exp ph = XShell -> (forall c, occ c cs <= 2)%nat ->
  dlg_ok cf (asked ++ ph :: rest) -> no_kick_sched cf sched ->
  cl_run cf (asked ++ ph :: rest) sched = (its, x) ->
  count_ret its = 0%nat /\
  (exists more, cs = answers its ++ more) /\
  (forall o, x = ClStop o -> o = ODone /\ answers its = cs) /\
  ((total_len (asked ++ [ph]) < count_pos sched)%nat -> x = ClStop ODone /\ answers its = cs).
Proof. exact login_completes. Qed.
Print Assumptions C09_login_completes.

(* on the wire: exactly credential, return, credential, return ... for the credentials asked for *)
Theorem C09_login_writes_exact : forall cf asked ph rest cs sched its x,
  empties cf ->
  map p_exp asked = map XCred cs -> p_exp ph = XShell -> (forall c, occ c cs <= 2)%nat ->
  dlg_ok cf (asked ++ ph :: rest) -> no_kick_sched cf sched ->
  (total_len (asked ++ [ph]) < count_pos sched)%nat ->
  cl_run cf (asked ++ ph :: rest) sched = (its, x) ->
  x = ClStop ODone /\ writes_of cf its = flat_map (fun c => [c_ans cf c; c_ret cf]) cs.
Proof. exact login_writes_exact. Qed.
Print Assumptions C09_login_writes_exact.

Theorem C09_rejected_gives_up : forall cf asked ph rest cs c sched its x,
  empties cf ->
  map p_exp asked = map XCred cs -> p_exp ph = XCred c ->
  (forall d, occ d cs <= 2)%nat -> occ c cs = 2%nat ->
  dlg_ok cf (asked ++ ph :: rest) -> no_kick_sched cf sched ->
  cl_run cf (asked ++ ph :: rest) sched = (its, x) ->
  count_ret its = 0%nat /\
  (exists more, cs = answers its ++ more) /\
  (forall o, x = ClStop o -> o = OAuthFailed (WThird c) /\ answers its = cs) /\
  ((total_len (asked ++ [ph]) < count_pos sched)%nat ->
   x = ClStop (OAuthFailed (WThird c)) /\ answers its = cs).
Proof. exact rejected_gives_up. Qed.
Print Assumptions C09_rejected_gives_up.

Theorem C09_rejected_fatal : forall cf asked ph rest cs sched its x,
  empties cf ->
  map p_exp asked = map XCred cs -> p_exp ph = XFatal -> (forall d, occ d cs <= 2)%nat ->
  dlg_ok cf (asked ++ ph :: rest) -> no_kick_sched cf sched ->
  cl_run cf (asked ++ ph :: rest) sched = (its, x) ->
  count_ret its = 0%nat /\
  (forall o, x = ClStop o -> o = OAuthFailed WFatal /\ answers its = cs) /\
  ((total_len (asked ++ [ph]) < count_pos sched)%nat ->
   x = ClStop (OAuthFailed WFatal) /\ answers its = cs).
Proof. exact rejected_fatal. Qed.
Print Assumptions C09_rejected_fatal.

(* ---- histories: several logins on ONE channel / driver object (open, close, open, ...) ---- *)
(* the counters, the login buffer and return_attempts of the four loops of the current tree are locals
   of the login function, initialised by every call (read from the AST by gen/gen_auth.py) *)
Theorem C09_generated_counters_local :
  gen_state_local_telnet_sync && gen_state_local_telnet_async &&
  gen_state_local_ssh_sync && gen_state_local_ssh_async && cscope_eqb gen_counter_scope CsLocal = true.
Proof. vm_compute. reflexivity. Qed.
Print Assumptions C09_generated_counters_local.

(* so every login of a history is a run from the initial state, whatever the earlier logins on the
   same object read, wrote or counted: all the theorems above apply to each login of every history *)
Theorem C09_history_independent : forall cf logins carried,
  hist_run gen_counter_scope cf carried logins = map (run cf) logins.
Proof. exact history_independent. Qed.
Print Assumptions C09_history_independent.

Theorem C09_history_closed_loop_independent : forall cf ss carried,
  hist_cl gen_counter_scope cf carried ss = map (fun s => cl_run cf (fst s) (snd s)) ss.
Proof. exact history_cl_independent. Qed.
Print Assumptions C09_history_closed_loop_independent.

(* with valid credentials EVERY login of EVERY history completes: each session's server asks for its
   credentials (each at most twice: one re-prompt), then shows the shell prompt; any chunking *)
Theorem C09_history_every_login_completes : forall cf ss,
  empties cf ->
  Forall (fun s =>
    map p_exp (se_asked s) = map XCred (se_cs s) /\ p_exp (se_ph s) = XShell /\
    (forall c, occ c (se_cs s) <= 2)%nat /\
    dlg_ok cf (se_asked s ++ se_ph s :: se_rest s) /\ no_kick_sched cf (se_sched s) /\
    (total_len (se_asked s ++ [se_ph s]) < count_pos (se_sched s))%nat) ss ->
  Forall2 (fun s r => snd r = ClStop ODone /\ answers (fst r) = se_cs s /\ count_ret (fst r) = 0%nat)
          ss (hist_cl gen_counter_scope cf zero (map (fun s => (se_asked s ++ se_ph s :: se_rest s, se_sched s)) ss)).
Proof. exact history_completes_local. Qed.
Print Assumptions C09_history_every_login_completes.

(* the scope is what makes it true: were the counters attributes of the channel object, the third of
   three accepted logins would raise ScrapliAuthenticationFailed on the first prompt it sees *)
Theorem C09_history_object_scope_refuted : ~ history_completes_for CsObject.
Proof. exact history_completes_object_refuted. Qed.
Print Assumptions C09_history_object_scope_refuted.

(* ---- where the full statements are false ---- *)
(* (1) the proviso read as "no complete LINE looks like a prompt": refuted on the patterns of the
   current tree by the MOTD line "Last login: Tue" read byte by byte; partial = proviso on every
   chunk-prefix *)
Definition c09_p1 := mkPhase [72;105;10] [108;111;103;105;110;58;32] (XCred CUser).            (* "Hi\n" "login: " *)
Definition c09_p2 := mkPhase [117;10] [80;97;115;115;119;111;114;100;58;32] (XCred CPass).   (* "u\n" "Password: " *)
Definition c09_p3 := mkPhase [10;111;107;10] [114;49;35] XShell.                               (* "\nok\n" "r1#" *)
Definition c09_p3_hazard :=                                            (* "\nLast login: Tue\n" "r1#" *)
  mkPhase [10;76;97;115;116;32;108;111;103;105;110;58;32;84;117;101;10] [114;49;35] XShell.
Definition c09_r1 :=                                                   (* "\nLogin incorrect\n" "login: " *)
  mkPhase [10;76;111;103;105;110;32;105;110;99;111;114;114;101;99;116;10] [108;111;103;105;110;58;32] (XCred CUser).
Definition c09_cfg (k : lkind) := gen_cfg k gen_re_prompt_channel [117] [112] [107] gen_interval_default.

Theorem C09_login_completes_full_refuted : ~ login_completes_full (c09_cfg Telnet).
Proof.
  apply (login_completes_full_refuted_by (c09_cfg Telnet) [c09_p1; c09_p2] c09_p3_hazard [CUser; CPass] (bytewise 60)).
  vm_compute. reflexivity.
Qed.
Print Assumptions C09_login_completes_full_refuted.

Theorem C09_login_completes_partial : forall cf asked ph cs sched its x,
  empties cf ->
  map p_exp asked = map XCred cs -> p_exp ph = XShell -> (forall c, occ c cs <= 1)%nat ->
  dlg_ok cf (asked ++ [ph]) ->
  no_kick_sched cf sched -> (total_len (asked ++ [ph]) < count_pos sched)%nat ->
  cl_run cf (asked ++ [ph]) sched = (its, x) ->
  x = ClStop ODone /\ answers its = cs.
Proof. exact login_completes_partial. Qed.
Print Assumptions C09_login_completes_partial.

(* (2) "rejected => ScrapliAuthenticationFailed" for every number >= 1 of re-prompts: refuted for a
   server that re-prompts once and then is silent (the login can only wait); partial = from the
   second re-prompt on *)
Theorem C09_rejected_gives_up_full_refuted : ~ rejected_gives_up_full.
Proof. exact rejected_gives_up_full_refuted. Qed.
Print Assumptions C09_rejected_gives_up_full_refuted.

Theorem C09_rejected_gives_up_partial : forall cf rounds phs sched its x,
  empties cf -> (3 <= rounds)%nat ->
  map p_exp phs = telnet_rounds rounds -> dlg_ok cf phs ->
  no_kick_sched cf sched -> (total_len phs < count_pos sched)%nat ->
  cl_run cf phs sched = (its, x) ->
  x = ClStop (OAuthFailed (WThird CUser)) /\ answers its = [CUser; CPass; CUser; CPass].
Proof. exact rejected_gives_up_partial. Qed.
Print Assumptions C09_rejected_gives_up_partial.

Theorem C09_silent_server_blocks : forall cf asked cs sched its x,
  empties cf ->
  map p_exp asked = map XCred cs -> (forall d, occ d cs <= 2)%nat ->
  dlg_ok cf asked -> no_kick_sched cf sched ->
  cl_run cf asked sched = (its, x) ->
  (forall o, x = ClStop o -> o = OBlocks /\ answers its = cs).
Proof. exact silent_server_blocks. Qed.
Print Assumptions C09_silent_server_blocks.

(* ---- the current source tree (Gen_Auth.v, regenerated on every run) ---- *)
(* nothing matches the empty buffer: the hypothesis [empties] holds for the patterns of the tree *)
Theorem C09_generated_empties :
  forallb (fun k => forallb (fun p => emptiesb (gen_cfg k p [117] [112] [107] gen_interval_default))
                            [gen_re_prompt_channel; gen_re_prompt_driver; gen_re_prompt_generic])
          [Telnet; Ssh] = true.
Proof. vm_compute. reflexivity. Qed.
Print Assumptions C09_generated_empties.

(* the four loops have the shape the model stands for *)
Theorem C09_generated_loops :
  skel_eqb gen_loop_telnet_sync (skeleton Telnet) = true /\
  skel_eqb gen_loop_telnet_async (skeleton Telnet) = true /\
  skel_eqb gen_loop_ssh_sync (skeleton Ssh) = true /\
  skel_eqb gen_loop_ssh_async (skeleton Ssh) = true /\
  gen_handed_telnet = map cred_code (creds Telnet) /\ gen_handed_ssh = map cred_code (creds Ssh).
Proof. repeat split; vm_compute; reflexivity. Qed.
Print Assumptions C09_generated_loops.

(* every literal of the ssh message handler can match the lower-cased login buffer *)
Theorem C09_generated_fatal_literals_effective :
  forallb (fun l => beq l (lower l)) (gen_fatal_lower ++ gen_fatal_raw) = true /\
  negb (is_nil gen_fatal_lower) = true.
Proof. split; vm_compute; reflexivity. Qed.
Print Assumptions C09_generated_fatal_literals_effective.

(* the kick interval is timeout_ops / 10 and never 0 *)
Theorem C09_generated_interval :
  (gen_interval_default * 10 =? gen_timeout_ops_default) && (gen_interval_ten * 10 =? gen_timeout_ops_ten) &&
  (gen_interval_sixty * 10 =? gen_timeout_ops_sixty) && (0 <? gen_interval_zero) && (0 <? gen_interval_default) = true.
Proof. vm_compute. reflexivity. Qed.
Print Assumptions C09_generated_interval.

(* non-vacuity on the patterns of the tree: a dialogue satisfying the premises, its runs *)
Theorem C09_generated_example_completes :
  dlg_ok (c09_cfg Telnet) [c09_p1; c09_p2; c09_p3] /\
  (let (its, x) := cl_run (c09_cfg Telnet) [c09_p1; c09_p2; c09_p3] (bytewise 40) in
   clres_code x = 0 /\ answers its = [CUser; CPass] /\ count_ret its = 0%nat) /\
  dlg_okb (c09_cfg Telnet) [c09_p1; c09_p2; c09_p3_hazard] = false /\
  (let (its, x) := cl_run (c09_cfg Telnet) [c09_p1; c09_p2; c09_p3_hazard] (bytewise 60) in
   answers its = [CUser; CPass; CUser]).
Proof.
  split; [apply dlg_okb_sound; vm_compute; reflexivity|]. vm_compute. repeat split.
Qed.
Print Assumptions C09_generated_example_completes.

Theorem C09_generated_example_rejected :
  dlg_ok (c09_cfg Telnet) [c09_p1; c09_p2; c09_r1; c09_p2; c09_r1; c09_p2] /\
  (let (its, x) := cl_run (c09_cfg Telnet) [c09_p1; c09_p2; c09_r1; c09_p2; c09_r1; c09_p2] (bytewise 100) in
   clres_code x = 1 /\ answers its = [CUser; CPass; CUser; CPass]).
Proof.
  split; [apply dlg_okb_sound; vm_compute; reflexivity|]. vm_compute. repeat split.
Qed.
Print Assumptions C09_generated_example_rejected.
