(* C11 — close() and context-manager exit always release the connection.
   Only the property theorems (closed by [exact]), the by-computation obligations over the programs
   generated from the current source (Gen_Lifecycle.v), and Print Assumptions. *)
From Verif Require Import Bytes Telnet Telnet_Proofs Lifecycle Lifecycle_Proofs.
From Gen Require Import Gen_Lifecycle.

(* ---- obligations over what the source says now (decided by computation) ---- *)
(* the verified abstract interpreter accepts Driver.close/__enter__/__exit__ and their asyncio twins:
   close() releases transport and channel log on its normal AND its raising exit, __enter__ releases when it
   raises, __exit__ releases on both exits, close() contains nothing that opens *)
Example C11_gen_sync_ok : lifecycle_ok gen_progs_sync = true.
Proof. vm_compute. reflexivity. Qed.
Example C11_gen_async_ok : lifecycle_ok gen_progs_async = true.
Proof. vm_compute. reflexivity. Qed.
(* open() is transport.open ; channel.open ; authenticate ; on_open, and both Telnet transports' open()
   put all five protocol attributes back to their constructor values *)
Example C11_gen_open_sync : p_open gen_progs_sync = open_prog /\ resets_allb (p_resets gen_progs_sync) = true.
Proof. split; vm_compute; reflexivity. Qed.
Example C11_gen_open_async : p_open gen_progs_async = open_prog /\ resets_allb (p_resets gen_progs_async) = true.
Proof. split; vm_compute; reflexivity. Qed.
(* the sync and asyncio programs are the same programs, and they are the model's *)
Example C11_gen_twins : gen_progs_sync = gen_progs_async /\ gen_progs_sync = progs_now.
Proof. split; vm_compute; reflexivity. Qed.
(* the ten default platform on_close hooks (5 platforms, sync + asyncio) are
   acquire_priv ; channel.write(...) ; send_return — three device interactions — and are installed by default *)
Example C11_gen_hooks :
  length gen_on_close_hooks = 10%nat /\ forallb hook_shape_ok gen_on_close_hooks = true /\
  length gen_on_close_installed = 10%nat /\ forallb (fun b => b) gen_on_close_installed = true.
Proof. repeat split; vm_compute; reflexivity. Qed.

(* the system transport's pty child (ptyprocess.py): PtyProcess.close() as it is in the source reaps the child
   and closes the master fd from EVERY state of an un-closed object — EOF read or not — (decided by running it
   from all 24 states x 4 environments), does nothing on a closed one; and the parent part of spawn() wraps
   pid / fd in a PtyProcess before any statement that can raise *)
Example C11_gen_pty_close_ok : pty_close_ok gen_pty_close = true.
Proof. vm_compute. reflexivity. Qed.
Example C11_gen_pty_spawn_ok : spawn_ok gen_pty_spawn = true.
Proof. vm_compute. reflexivity. Qed.
Example C11_gen_pty_twins : gen_pty_close = pty_close_now /\ gen_pty_spawn = pty_spawn_now.
Proof. split; vm_compute; reflexivity. Qed.

(* ---- the property ---- *)
(* After close() returns or raises nothing is held: for every state the connection may be in, every
   on_close hook (absent / any list of device interactions and raises) and every device outcome. *)
Theorem C11_close_releases_sync : forall (e : env) (c : conn), released (fst (do_close gen_progs_sync e c)).
Proof. exact (close_releases gen_progs_sync C11_gen_sync_ok). Qed.
Print Assumptions C11_close_releases_sync.

Theorem C11_close_releases_async : forall (e : env) (c : conn), released (fst (do_close gen_progs_async e c)).
Proof. exact (close_releases gen_progs_async C11_gen_async_ok). Qed.
Print Assumptions C11_close_releases_async.

(* After a with-block exits for any reason — transport.open / channel.open / authentication / on_open
   failing inside __enter__, the body raising, timing out (transport closed under it, or left open) or losing the
   device, on_close failing — nothing is held. *)
Theorem C11_with_releases_sync :
  forall (e : env) (body : list step) (c : conn), released (fst (with_block gen_progs_sync e body c)).
Proof. exact (with_releases gen_progs_sync C11_gen_sync_ok). Qed.
Print Assumptions C11_with_releases_sync.

Theorem C11_with_releases_async :
  forall (e : env) (body : list step) (c : conn), released (fst (with_block gen_progs_async e body c)).
Proof. exact (with_releases gen_progs_async C11_gen_async_ok). Qed.
Print Assumptions C11_with_releases_async.

(* the same with Settings.NO_TERMINATE_ON_TIMEOUT: a timeout anywhere in the body that leaves the transport OPEN
   (step SStallOpen) — an instance of the theorem above, stated because __exit__ then is the only thing that closes *)
Theorem C11_with_releases_no_terminate_sync :
  forall (e : env) (pre : list step) (t : tstate) (c : conn),
    released (fst (with_block gen_progs_sync e (pre ++ [SStallOpen t]) c)).
Proof. exact (fun e pre t c => with_releases gen_progs_sync C11_gen_sync_ok e (pre ++ [SStallOpen t]) c). Qed.
Print Assumptions C11_with_releases_no_terminate_sync.

Theorem C11_with_releases_no_terminate_async :
  forall (e : env) (pre : list step) (t : tstate) (c : conn),
    released (fst (with_block gen_progs_async e (pre ++ [SStallOpen t]) c)).
Proof. exact (fun e pre t c => with_releases gen_progs_async C11_gen_async_ok e (pre ++ [SStallOpen t]) c). Qed.
Print Assumptions C11_with_releases_no_terminate_async.

(* For all histories of open / operate / close / re-open / with-blocks, from any state: right after
   every close() and every with-block nothing is held. *)
Theorem C11_history_releases_sync :
  forall (h : list op) (o : op) (c0 : conn), closing o = true -> released (run_hist gen_progs_sync (h ++ [o]) c0).
Proof. exact (history_releases gen_progs_sync C11_gen_sync_ok). Qed.
Print Assumptions C11_history_releases_sync.

Theorem C11_history_releases_async :
  forall (h : list op) (o : op) (c0 : conn), closing o = true -> released (run_hist gen_progs_async (h ++ [o]) c0).
Proof. exact (history_releases gen_progs_async C11_gen_async_ok). Qed.
Print Assumptions C11_history_releases_async.

(* close() can be called repeatedly: the second close leaves the (released) connection unchanged ... *)
Theorem C11_close_idempotent_sync :
  forall e1 e2 c, let c1 := fst (do_close gen_progs_sync e1 c) in
                  released c1 /\ fst (do_close gen_progs_sync e2 c1) = c1.
Proof. exact (close_idempotent gen_progs_sync C11_gen_sync_ok). Qed.
Print Assumptions C11_close_idempotent_sync.

Theorem C11_close_idempotent_async :
  forall e1 e2 c, let c1 := fst (do_close gen_progs_async e1 c) in
                  released c1 /\ fst (do_close gen_progs_async e2 c1) = c1.
Proof. exact (close_idempotent gen_progs_async C11_gen_async_ok). Qed.
Print Assumptions C11_close_idempotent_async.

(* ... and raises ScrapliConnectionNotOpened when the hook is a default platform hook (tolerated
   reading of "can be called repeatedly": a scrapli error, resources stay released) *)
Theorem C11_second_close_platform_hook :
  forall h ss e c,
    hook_shape_ok h = true -> hook_models h ss = true -> e_on_close e = Some ss -> released c ->
    do_close progs_now e c = (c, Raised ENotOpened).
Proof. exact second_close_platform_hook. Qed.
Print Assumptions C11_second_close_platform_hook.

(* A closed connection can be opened again: after any history ending in close() / a with-block,
   open() with a device that answers succeeds, holds the transport (and the log iff configured) ... *)
Theorem C11_reopen_ok_sync :
  forall h o c0 e, closing o = true -> env_opens e = true ->
    do_open gen_progs_sync e (run_hist gen_progs_sync (h ++ [o]) c0) =
    (mkC true (e_logcfg e) (steps_tn (e_auth e ++ hook_steps (e_on_open e)) t_init), Normal).
Proof.
  exact (reopen_after_any_history gen_progs_sync C11_gen_sync_ok (proj1 C11_gen_open_sync) (proj2 C11_gen_open_sync)).
Qed.
Print Assumptions C11_reopen_ok_sync.

Theorem C11_reopen_ok_async :
  forall h o c0 e, closing o = true -> env_opens e = true ->
    do_open gen_progs_async e (run_hist gen_progs_async (h ++ [o]) c0) =
    (mkC true (e_logcfg e) (steps_tn (e_auth e ++ hook_steps (e_on_open e)) t_init), Normal).
Proof.
  exact (reopen_after_any_history gen_progs_async C11_gen_async_ok (proj1 C11_gen_open_async) (proj2 C11_gen_open_async)).
Qed.
Print Assumptions C11_reopen_ok_async.

(* ... and the re-opened Telnet session starts from the initial protocol state, so for every grammar
   stream and every segmentation it delivers exactly the data and the right replies (C15), whatever
   the earlier sessions left in the transport object *)
Theorem C11_reopen_negotiation_invisible_sync :
  forall h o c0 e counting limit ts chunks,
    closing o = true -> env_opens e = true -> e_auth e = [] -> e_on_open e = None ->
    toks_ok ts = true -> (0 < limit)%nat -> (counting = true -> (ncmds ts <= limit)%nat) ->
    Forall nonempty chunks -> concat chunks = stream ts ->
    run_from counting limit (tn (fst (do_open gen_progs_sync e (run_hist gen_progs_sync (h ++ [o]) c0)))) chunks
    = (spec_data ts, spec_replies ts).
Proof.
  exact (reopen_negotiation_invisible gen_progs_sync C11_gen_sync_ok (proj1 C11_gen_open_sync) (proj2 C11_gen_open_sync)).
Qed.
Print Assumptions C11_reopen_negotiation_invisible_sync.

Theorem C11_reopen_negotiation_invisible_async :
  forall h o c0 e counting limit ts chunks,
    closing o = true -> env_opens e = true -> e_auth e = [] -> e_on_open e = None ->
    toks_ok ts = true -> (0 < limit)%nat -> (counting = true -> (ncmds ts <= limit)%nat) ->
    Forall nonempty chunks -> concat chunks = stream ts ->
    run_from counting limit (tn (fst (do_open gen_progs_async e (run_hist gen_progs_async (h ++ [o]) c0)))) chunks
    = (spec_data ts, spec_replies ts).
Proof.
  exact (reopen_negotiation_invisible gen_progs_async C11_gen_async_ok (proj1 C11_gen_open_async) (proj2 C11_gen_open_async)).
Qed.
Print Assumptions C11_reopen_negotiation_invisible_async.

(* ---- the ssh child of the system transport ---- *)
(* PtyProcess.close() (run by SystemTransport.close(), and by __del__) on an un-closed object, in every state
   and whatever the signals achieve: when it returns the child has been waited for (no defunct process), the
   master fd is closed; it raises only when the child survives SIGKILL; it does return or raise unless an EOF
   was read while the child still runs and the child survives the SIGHUP of the closed master *)
Theorem C11_pty_close_reaps : forall E s,
  y_closed s = false -> (y_eof s = true -> y_child s = CRunning -> hup_exits E = true) ->
  match prun E gen_pty_close s with
  | (s', PDone) => y_child s' = CReaped /\ y_fd s' = false /\ y_closed s' = true
  | (_, PRaised) => kill_works E = false
  | (_, PBlocks) => False
  end.
Proof. exact (pty_close_reaps gen_pty_close C11_gen_pty_close_ok). Qed.
Print Assumptions C11_pty_close_reaps.

Theorem C11_pty_close_idempotent : forall E s, y_closed s = true ->
  exists s', prun E gen_pty_close s = (s', PDone) /\ y_child s' = y_child s /\ y_fd s' = y_fd s /\ y_closed s' = true.
Proof. exact (pty_close_idempotent gen_pty_close C11_gen_pty_close_ok). Qed.
Print Assumptions C11_pty_close_idempotent.

(* a failure of open() after the fork (exec of the ssh binary failing, setwinsize / termios raising): the child
   and the pty master are owned by a PtyProcess object on every exit of spawn(), and its close() releases them *)
Theorem C11_pty_open_failure_released : forall fails E c,
  fst (srun gen_pty_spawn fails false) = true /\
  match prun E gen_pty_close (mkPty c true false false) with
  | (s', PDone) => y_child s' = CReaped /\ y_fd s' = false /\ y_closed s' = true
  | (_, PRaised) => kill_works E = false
  | (_, PBlocks) => False
  end.
Proof. exact (pty_spawn_then_close gen_pty_spawn gen_pty_close C11_gen_pty_spawn_ok C11_gen_pty_close_ok). Qed.
Print Assumptions C11_pty_open_failure_released.

(* the full statement (close() returns with the child reaped from EVERY state) is false of the code as it is:
   a child that closed its tty — EOF was read —, ignores SIGHUP and keeps running makes close() wait for it
   (blocking waitpid) *)
Theorem C11_pty_close_full_refuted : ~ pty_close_full pty_close_now.
Proof. exact pty_close_full_refuted. Qed.
Print Assumptions C11_pty_close_full_refuted.

(* ---- the pinned commit: refuted ---- *)
Theorem C11_baseline_close_refuted : ~ (forall e c, released (fst (do_close progs_baseline e c))).
Proof. exact close_releases_refuted_baseline. Qed.
Print Assumptions C11_baseline_close_refuted.

Theorem C11_baseline_with_refuted : ~ (forall e body c, released (fst (with_block progs_baseline e body c))).
Proof. exact with_releases_refuted_baseline. Qed.
Print Assumptions C11_baseline_with_refuted.

Theorem C11_baseline_reopen_refuted :
  exists c ts chunks,
    released c /\ toks_ok ts = true /\ (ncmds ts <= 10)%nat /\ Forall nonempty chunks /\ concat chunks = stream ts /\
    run_from true 10 (tn (fst (do_open progs_baseline (mkE false Normal Normal [] None None) c))) chunks
    <> (spec_data ts, spec_replies ts).
Proof. exact reopen_negotiation_refuted_baseline. Qed.
Print Assumptions C11_baseline_reopen_refuted.
