(* C07 — operations that cannot complete time out, and time out cleanly.
   This file contains only the property theorems (closed by [exact], or decided by vm_compute over the
   definitions regenerated from the source) and Print Assumptions. *)
From Verif Require Import Bytes Timeout Timeout_Proofs.
From Gen Require Import Gen_Timeout.

(* A timeout of 0 disables the limit, whichever mechanism: the decorated operation behaves exactly as its
   body run directly (same outcome, same state), never raises ScrapliTimeout, and a device that goes silent
   at any read makes it wait for ever. *)
Theorem C07_timeout_zero_disables :
  forall m c ls s, c_To c = 0 -> inner_eff m c = false -> alarm s = None ->
    zero_spec (run_op m c ls s) ls s.
Proof. exact timeout_zero_disables. Qed.
Print Assumptions C07_timeout_zero_disables.

Theorem C07_timeout_zero_never_times_out :
  forall m c ls s msg, c_To c = 0 -> inner_eff m c = false -> alarm s = None ->
    out (run_op m c ls s) <> Raised (ETimeout msg).
Proof. exact timeout_zero_never_times_out. Qed.
Print Assumptions C07_timeout_zero_never_times_out.

Theorem C07_timeout_zero_stall_hangs :
  forall m c pre l post s, c_To c = 0 -> inner_eff m c = false -> alarm s = None ->
    all_ret pre = true -> is_stall l = true -> topen s = true ->
    out (run_op m c (pre ++ l :: post) s) = Hang.
Proof. exact timeout_zero_stall_hangs. Qed.
Print Assumptions C07_timeout_zero_stall_hangs.

(* For every mechanism, every pair of timeouts (operation / transport read, the latter possibly absent or 0),
   every number of reads the device answers before it goes silent, either kind of stall, NO_TERMINATE on or
   off, channel lock on or off, any previous SIGALRM handler / pending timer: the operation raises
   ScrapliTimeout (with the message of whichever limit fires first) no later than timeout_ops, the transport
   is closed unless NO_TERMINATE, and handler, timer, worker threads, lock and the asyncio tasks (wrapped calls
   still running behind a decorated call that is over) are as before.
   The two extra hypotheses are the regions of the known findings (thread mechanism: NO_TERMINATE on, or a
   read that closing the transport does not end; signal over a decorated read with the longer timeout). *)
Theorem C07_timeout_fires :
  forall m c pre l post s,
    c_rearm c = true -> c_cancel c = true -> stall_premises m c pre l s ->
    (m = MThread -> c_nt c = false /\ l = StallClosed) ->
    (m = MSignal -> inner_eff m c = true -> dur pre + c_Ti c < c_To c) ->
    fires m c pre s (run_op m c (pre ++ l :: post) s).
Proof. exact timeout_fires_partial. Qed.
Print Assumptions C07_timeout_fires.

Theorem C07_timeout_fires_within_limit :
  forall m c pre l post s,
    c_rearm c = true -> c_cancel c = true -> stall_premises m c pre l s ->
    (m = MThread -> c_nt c = false /\ l = StallClosed) ->
    (m = MSignal -> inner_eff m c = true -> dur pre + c_Ti c < c_To c) ->
    exists msg, out (run_op m c (pre ++ l :: post) s) = Raised (ETimeout msg) /\
                now (rst (run_op m c (pre ++ l :: post) s)) <= now s + c_To c.
Proof. exact timeout_fires_within_limit. Qed.
Print Assumptions C07_timeout_fires_within_limit.

Theorem C07_timeout_fires_single :
  forall m nt T msg l s,
    0 < T -> is_stall l = true -> topen s = true -> user_handler s = true ->
    (m = MThread -> nt = false /\ l = StallClosed) ->
    let r := run_wrapped m true nt T msg l s in
    out r = Raised (ETimeout msg) /\ now (rst r) = now s + T /\ topen (rst r) = nt /\ restored m s (rst r).
Proof. exact timeout_fires_single. Qed.
Print Assumptions C07_timeout_fires_single.

(* asyncio, the nested (transport read) limit does not depend on the enclosing operation having a limit: with
   timeout_ops = 0 a read that stalls inside the operation is ended by timeout_transport, counted from the start of
   THAT read, with the read's message; transport closed unless NO_TERMINATE, process state as before.  (With
   timeout_ops > 0, C07_timeout_fires gives min(timeout_transport from the read, timeout_ops) for all mechanisms.) *)
Theorem C07_async_transport_limit_alone_fires :
  forall c pre l post s,
    c_To c = 0 -> inner_eff MAsync c = true -> all_ret pre = true -> is_stall l = true ->
    each_lt (c_Ti c) pre = true -> topen s = true ->
    let r := run_op MAsync c (pre ++ l :: post) s in
    out r = Raised (ETimeout (c_mi c)) /\ now (rst r) = now s + dur pre + c_Ti c /\
    topen (rst r) = c_nt c /\ restored MAsync s (rst r).
Proof. exact asy_inner_alone_fires. Qed.
Print Assumptions C07_async_transport_limit_alone_fires.

(* the full statement (no extra hypotheses) is false of the code as it is *)
Theorem C07_timeout_fires_full_refuted : ~ timeout_fires_full.
Proof. exact timeout_fires_full_refuted. Qed.
Print Assumptions C07_timeout_fires_full_refuted.

Theorem C07_thread_noterm_hangs :
  forall rearm T msg l s, 0 < T -> is_stall l = true -> topen s = true ->
    out (run_wrapped MThread rearm true T msg l s) = Hang.
Proof. exact thread_noterm_hangs. Qed.
Print Assumptions C07_thread_noterm_hangs.

Theorem C07_thread_unclosable_hangs :
  forall rearm nt T msg s, 0 < T -> topen s = true ->
    out (run_wrapped MThread rearm nt T msg Stall s) = Hang.
Proof. exact thread_unclosable_hangs. Qed.
Print Assumptions C07_thread_unclosable_hangs.

(* asyncio: a decorator that does not hand its own cancellation on to the wrapped call (c_cancel = false, e.g.
   the wrapped call run as a task of its own and waited for with asyncio.wait) leaves the decorated transport
   read running whenever the operation's limit falls due first; the code as it is (asyncio.wait_for, c_cancel =
   true, tied by C07_generated_structure and the correspondence run) is covered by C07_timeout_fires *)
Theorem C07_async_uncancelled_read_left_running :
  forall c pre l post s,
    c_cancel c = false -> stall_premises MAsync c pre l s ->
    c_wrapped c = true -> 0 < c_Ti c -> inner_first MAsync c pre = false ->
    (l = StallClosed -> c_nt c = true) ->
    let r := run_op MAsync c (pre ++ l :: post) s in
    out r = Raised (ETimeout (c_mo c)) /\ tasks (rst r) = S (tasks s) /\ ~ restored MAsync s (rst r).
Proof. exact asy_uncancelled_leaves_task. Qed.
Print Assumptions C07_async_uncancelled_read_left_running.

(* the pinned commit (ITIMER_REAL zeroed in the finally) is refuted; the code as it is now is covered above *)
Theorem C07_legacy_signal_zeroes_timer :
  forall nt T msg l s, 0 < T -> is_stall l = true -> topen s = true -> user_handler s = true ->
    deadline (rst (run_wrapped MSignal false nt T msg l s)) = 0.
Proof. exact legacy_signal_zeroes_timer. Qed.
Print Assumptions C07_legacy_signal_zeroes_timer.

Theorem C07_legacy_timer_restored_refuted :
  exists nt T msg l s, 0 < T /\ is_stall l = true /\ topen s = true /\ user_handler s = true /\
    ~ restored MSignal s (rst (run_wrapped MSignal false nt T msg l s)).
Proof. exact legacy_timer_restored_refuted. Qed.
Print Assumptions C07_legacy_timer_restored_refuted.

(* an operation the device answers in time, and the body's own exception, are left alone *)
Theorem C07_completes_in_time :
  forall m c ls s,
    c_rearm c = true -> 0 < c_To c -> all_ret ls = true -> dur ls < c_To c ->
    (inner_eff m c = true -> each_lt (c_Ti c) ls = true) -> topen s = true -> user_handler s = true ->
    let r := run_op m c ls s in
    out r = Returned (last_val ls 0) /\ now (rst r) = now s + dur ls /\ topen (rst r) = true
    /\ restored m s (rst r).
Proof. exact completes_in_time. Qed.
Print Assumptions C07_completes_in_time.

Theorem C07_own_exception_propagates :
  forall m nt T msg d e s,
    0 < T -> d < T -> topen s = true -> user_handler s = true ->
    let r := run_wrapped m true nt T msg (Exc d e) s in
    out r = Raised (EOther e) /\ now (rst r) = now s + d /\ topen (rst r) = true /\ restored m s (rst r).
Proof. exact own_exception_propagates. Qed.
Print Assumptions C07_own_exception_propagates.

(* mechanism selection *)
Theorem C07_select_mech_signal_iff :
  forall tc cls w mt, select_mech tc false cls w mt = MSignal <->
    (existsb (beq cls) tc = false /\ w = false /\ mt = true).
Proof. exact select_mech_signal_iff. Qed.
Print Assumptions C07_select_mech_signal_iff.

Theorem C07_inner_same_mech :
  forall tc coro cls w mt,
    let m := select_mech tc coro cls w mt in select_mech tc coro cls w (inner_main_thread m mt) = m.
Proof. exact inner_same_mech. Qed.
Print Assumptions C07_inner_same_mech.

(* Histories on ONE connection object: any number of decorated calls one after the other, each issued from the main
   thread or from another one, with its own limit (0 = none) and NO_TERMINATE setting, the device answering or going
   silent - whatever was run before on that object:
   the mechanism of call n is select_mech of call n's own context; outcome, duration and transport state after call n
   are what the call alone prescribes (a call that cannot complete raises ScrapliTimeout at its own limit, one that
   the device answers is left alone); handler, timer interval, workers, lock, tasks are after every call what they
   were before the first.  (call_ok carries the region of the known finding: thread mechanism => NO_TERMINATE off
   and a read that closing the transport ends.) *)
Theorem C07_history_independent :
  forall tc coro cls calls s,
    user_handler s = true ->
    Forall (fun c => call_ok (call_mech tc coro cls c) c) calls ->
    let rs := run_hist tc coro cls calls s in
    map fst rs = map (call_mech tc coro cls) calls /\
    map seen rs = want_hist calls (now s) /\
    Forall (fun x => keeps s (rst (snd x))) rs.
Proof. exact hist_independent. Qed.
Print Assumptions C07_history_independent.

(* a selection worked out once and kept on the connection object (NOT the code as it is: tied by
   C07_generated_per_call_selection and the history scenarios of the correspondence run) does not have this property *)
Theorem C07_history_cached_selection_refuted :
  exists tc cls calls s,
    user_handler s = true /\ Forall (fun c => call_ok (call_mech tc false cls c) c) calls /\
    map fst (run_hist_cached tc false cls None calls s) <> map (call_mech tc false cls) calls.
Proof. exact cached_selection_differs. Qed.
Print Assumptions C07_history_cached_selection_refuted.

(* ---- tie to the current source tree (regenerated on every run, decided by computation) ---- *)

(* every decorated function has its own entry in the message map (no shadowed key), none is the default *)
Theorem C07_generated_messages :
  forallb (fun kv => beq (timeout_message gen_msg_map gen_msg_default (fst kv)) (snd kv)) gen_msg_map = true
  /\ forallb (fun d => match lookup gen_msg_map (snd3 d) with Some _ => true | None => false end) gen_decorated = true
  /\ forallb (fun kv => negb (beq (snd kv) gen_msg_default)) gen_msg_map = true.
Proof. repeat split; vm_compute; reflexivity. Qed.
Print Assumptions C07_generated_messages.

(* which functions carry the decorator: the six operations of both channels, read() of the four transports;
   every core sync transport whose read() is decorated selects the thread mechanism in any thread, so the
   signal-over-signal nesting does not arise with the core transports *)
Theorem C07_generated_decorated :
  length gen_decorated = 16%nat
  /\ length (filter (fun d => beq (snd3 d) str_read) gen_decorated) = 4%nat
  /\ forallb (fun d => Bool.eqb (snd d)
                (match select_mech gen_thread_classes (snd d) (fst3 d) false true with MAsync => true | _ => false end))
             gen_decorated = true
  /\ forallb (fun d => if beq (snd3 d) str_read && negb (snd d)
                       then match select_mech gen_thread_classes false (fst3 d) false true with MThread => true | _ => false end
                       else true) gen_decorated = true.
Proof. repeat split; vm_compute; reflexivity. Qed.
Print Assumptions C07_generated_decorated.

(* shape of the decorator and the defaults: the finally restores handler and timer, the pool joins its worker,
   _handle_timeout closes unless NO_TERMINATE and raises ScrapliTimeout, wait_for's TimeoutError is handled and
   the wrapped coroutine is only ever awaited on the spot or through wait_for (so that cancelling the decorated
   call cancels it: c_cancel = true); termination on timeout is on and both limits are enabled by default *)
Theorem C07_generated_structure :
  (gen_signal_finally_restores, gen_pool_joins_worker, gen_handle_timeout_closes_and_raises,
   gen_async_wait_for_handled, gen_async_cancel_reaches_wrapped, gen_no_terminate_default)
  = (true, true, true, true, true, false)
  /\ 0 < gen_default_timeout_ops /\ 0 < gen_default_timeout_transport.
Proof. repeat split; vm_compute; reflexivity. Qed.
Print Assumptions C07_generated_structure.

(* no state is kept between calls: the sync decorate() decides the mechanism by `<class name of the transport> in
   (<constants>) or _IS_WINDOWS or threading.current_thread() is not threading.main_thread()`, evaluated inside the
   wrapper on every call (the three disjuncts of select_mech, in a test that guards the worker-thread branch), and
   none of the functions of decorators.py reachable from timeout_wrapper stores into an attribute, a subscript, a
   global / nonlocal name, calls setattr-like or container-mutating methods, or is memoised *)
Theorem C07_generated_per_call_selection :
  (gen_selection_per_call_context, gen_wrapper_keeps_no_state) = (true, true).
Proof. vm_compute; reflexivity. Qed.
Print Assumptions C07_generated_per_call_selection.
