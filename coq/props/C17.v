(* C17 — the connection parameters in effect are the ones resolved and reported.
   This file contains only the property theorems (closed by [exact]) and Print Assumptions.
   [resolve true] is the constructor as it is now, [resolve false] the pinned commit. *)
From Coq Require Import String.
From Verif Require Import Bytes Resolve SshArgv OpenHist Resolve_Proofs SshArgv_Proofs OpenHist_Proofs.
From Gen Require Import Gen_Resolve.

(* For every transport, host string, port / user / key / file arguments, strict flag and every
   environment (file system as seen by pathlib, result of the ssh-config lookup): if the constructor
   returns, the host and port held by the transport's BaseTransportArgs and the user / key / strict /
   config / known-hosts values of its plugin arguments are the ones the driver reports. *)
Theorem C17_reported_eq_dialled :
  forall e a r b p,
    resolve true e a = Built r b p ->
    b_host b = r_host r /\ b_port b = r_port r /\
    p = (if has_ssh_fields (a_transport a)
         then Some (mkP (r_user r) (r_key r) (r_strict r) (r_cfg r) (r_kh r)) else None).
Proof. exact reported_eq_dialled. Qed.
Print Assumptions C17_reported_eq_dialled.

(* The fixed precedence, field by field: explicit argument, then the ssh config (only for the transports
   that consult it), then the defaults 22 / 23-for-telnet; file arguments False / True / path with the
   system-transport magic values. *)
Theorem C17_precedence :
  forall e a r b p,
    resolve true e a = Built r b p ->
    r_host r = strip_s (a_host a) /\
    r_port r = spec_port e a (r_cfg r) (r_host r) /\
    r_user r = spec_user e a (r_cfg r) (r_host r) /\
    r_key r = spec_key e a (r_cfg r) (r_host r) /\
    r_strict r = a_strict a /\
    r_cfg r = spec_file e (a_transport a) (a_cfg a) MAGIC_CFG USER_CFG SYS_CFG /\
    r_kh r = spec_file e (a_transport a) (a_kh a) MAGIC_KH USER_KH SYS_KH.
Proof. exact precedence. Qed.
Print Assumptions C17_precedence.

(* the reported (= dialled) host is the host argument minus surrounding whitespace, nothing else *)
Theorem C17_reported_host_is_stripped_argument :
  forall e a r b p,
    resolve true e a = Built r b p ->
    exists pre post, a_host a = pre ++ r_host r ++ post /\
      forallb is_sws pre = true /\ forallb is_sws post = true /\
      match r_host r with c :: _ => is_sws c = false | [] => True end /\
      match rev (r_host r) with c :: _ => is_sws c = false | [] => True end.
Proof. exact reported_host_is_stripped_argument. Qed.
Print Assumptions C17_reported_host_is_stripped_argument.

(* Valid argument combinations are never refused; refused ones are invalid. *)
Theorem C17_total_on_valid :
  forall e a, valid_args e a -> exists r b p, resolve true e a = Built r b p.
Proof. exact resolve_total_on_valid. Qed.
Print Assumptions C17_total_on_valid.

Theorem C17_refuses_only_invalid :
  forall e a x, resolve true e a = Raised x -> ~ valid_args e a.
Proof. exact resolve_refuses_only_invalid. Qed.
Print Assumptions C17_refuses_only_invalid.

(* System transport: ssh, reading the argv with its own option grammar, finds the host as the destination
   and port / login / identity / -F / -o settings exactly as resolved, each in its own argv element, and no
   remote command — provided the host does not start with '-'. *)
Theorem C17_argv_faithful :
  forall b tsock ttrans p,
    starts_dash (b_host b) = false ->
    ssh_parse (build_open_cmd b tsock ttrans p []) = Parsed (b_host b) (expected_opts b tsock ttrans p) [].
Proof. exact argv_faithful. Qed.
Print Assumptions C17_argv_faithful.

Theorem C17_argv_settings :
  forall b tsock ttrans p,
    starts_dash (b_host b) = false ->
    exists o, ssh_parse (build_open_cmd b tsock ttrans p []) = Parsed (b_host b) o [] /\
      s_port o = Some (dec (b_port b)) /\
      s_user o = (if nonempty_s (p_user p) then Some (p_user p) else None) /\
      s_ids o = (if nonempty_s (p_key p) then [p_key p] else []) /\
      s_cfgfile o = (if negb (nonempty_s (p_cfg p)) then Some (lit "/dev/null")
                     else if beq (p_cfg p) MAGIC_CFG then None else Some (p_cfg p)) /\
      o_get (lit "StrictHostKeyChecking") (s_o o) = Some (if p_strict p then lit "yes" else lit "no") /\
      o_get (lit "UserKnownHostsFile") (s_o o) =
        (if negb (p_strict p) then Some (lit "/dev/null")
         else if beq (p_kh p) MAGIC_KH then None
         else if nonempty_s (p_kh p) then Some (p_kh p) else None) /\
      s_flags o = [] /\ s_other o = [].
Proof. exact argv_settings. Qed.
Print Assumptions C17_argv_settings.

Theorem C17_port_argument_determines_port : forall n m, dec n = dec m -> n = m.
Proof. exact dec_inj. Qed.
Print Assumptions C17_port_argument_determines_port.

(* whatever transport_options["open_cmd"] appends, the destination is the host *)
Theorem C17_destination_is_host :
  forall b tsock ttrans p extra,
    starts_dash (b_host b) = false ->
    match ssh_parse (build_open_cmd b tsock ttrans p extra) with
    | Parsed d _ _ => d = b_host b
    | Usage => True
    end.
Proof. exact destination_is_host. Qed.
Print Assumptions C17_destination_is_host.

(* the side condition is necessary ... *)
Theorem C17_argv_faithful_full_refuted : ~ argv_faithful_full.
Proof. exact argv_faithful_full_refuted. Qed.
Print Assumptions C17_argv_faithful_full_refuted.

(* ... and the constructor enforces it: end to end, for everything the constructor lets through *)
Theorem C17_host_never_option :
  forall e a r b p,
    resolve true e a = Built r b p -> starts_dash (r_host r) = false /\ starts_dash (b_host b) = false.
Proof. exact host_never_option. Qed.
Print Assumptions C17_host_never_option.

Theorem C17_system_argv_end_to_end :
  forall e a r b p tsock ttrans,
    resolve true e a = Built r b (Some p) ->
    ssh_parse (build_open_cmd b tsock ttrans p []) =
    Parsed (r_host r)
           (expected_opts (mkB (r_host r) (r_port r)) tsock ttrans
                          (mkP (r_user r) (r_key r) (r_strict r) (r_cfg r) (r_kh r))) [].
Proof. exact system_argv_end_to_end. Qed.
Print Assumptions C17_system_argv_end_to_end.

(* Several system transport objects in one process: over ANY sequence of open / close / re-open / direct
   _build_open_cmd() of any number of objects, the spawns are, operation by operation, a function of the
   opened object's own record: every open of object i spawns exactly once, with object i's own argv ... *)
Theorem C17_history_spawns_are_per_object :
  forall objs ops, hist_spawns objs ops = flat_map (spawn_of objs) ops.
Proof. exact hist_spawns_spec. Qed.
Print Assumptions C17_history_spawns_are_per_object.

(* ... which ssh reads as that object's own host (and, without user open_cmd arguments, its own port / login /
   identity / files), whatever was opened before *)
Theorem C17_history_argv_faithful :
  forall objs ops i argv,
    In (i, argv) (hist_spawns objs ops) ->
    exists o, nth_error objs i = Some o /\ argv = obj_argv o /\
      (starts_dash (b_host (so_b o)) = false ->
         match ssh_parse argv with Parsed d _ _ => d = b_host (so_b o) | Usage => True end /\
         (so_extra o = [] ->
          ssh_parse argv = Parsed (b_host (so_b o)) (expected_opts (so_b o) (so_tsock o) (so_ttrans o) (so_p o)) [])).
Proof. exact hist_argv_faithful. Qed.
Print Assumptions C17_history_argv_faithful.

(* per-object state is necessary: with `open_cmd` on the class the second object dials the first one's host *)
Theorem C17_shared_open_cmd_refuted :
  exists objs ops i argv o,
    In (i, argv) (shared_spawns objs ops) /\ nth_error objs i = Some o /\ argv <> obj_argv o /\
    starts_dash (b_host (so_b o)) = false /\
    match ssh_parse argv with Parsed d _ _ => d <> b_host (so_b o) | Usage => False end.
Proof. exact shared_open_cmd_not_isolated. Qed.
Print Assumptions C17_shared_open_cmd_refuted.

(* asyncssh transport: host / port / username keywords are always present, so whatever the library would take
   for an absent keyword (ssh config, local login name) it connects with what the driver reports *)
Theorem C17_asyncssh_connects_with_reported :
  forall l e a r b p,
    resolve true e a = Built r b (Some p) ->
    lib_resolve l (asyncssh_kwargs b p) = (r_host r, r_port r, r_user r).
Proof. exact asyncssh_end_to_end. Qed.
Print Assumptions C17_asyncssh_connects_with_reported.

(* ... which fails as soon as an empty username is dropped instead of passed *)
Theorem C17_asyncssh_user_if_any_refuted :
  exists l b p, lib_resolve l (asyncssh_kwargs_user_if_any b p) <> (b_host b, b_port b, p_user p).
Proof. exact asyncssh_user_if_any_refuted. Qed.
Print Assumptions C17_asyncssh_user_if_any_refuted.

(* Several asyncssh objects in one process, the dict the user passed as transport_options["asyncssh"] possibly ONE
   object held by several of them (an address in a heap of user dicts): over ANY order of opens and re-opens the
   user's dicts are afterwards what they were, and the connect calls are, open by open, a function of the opened
   object's own record and of its dict as the user wrote it ... *)
Theorem C17_asyncssh_history_per_object :
  forall objs hp opens, as_run as_open objs hp opens = (hp, flat_map (as_dial objs hp) opens).
Proof. exact as_hist_spec. Qed.
Print Assumptions C17_asyncssh_history_per_object.

(* ... so every connect call of object i carries object i's own host / port / username (a user dict that sets
   none of the three), whatever the library would take for an absent keyword, whoever shares the dict ... *)
Theorem C17_asyncssh_history_reported :
  forall objs hp opens i k,
    In (i, k) (snd (as_run as_open objs hp opens)) ->
    exists o u, nth_error objs i = Some o /\ nth_error hp (ao_d o) = Some u /\ k = own_kwargs o u /\
      (kw_free u -> forall l, lib_resolve l k = (b_host (ao_b o), b_port (ao_b o), p_user (ao_p o))).
Proof. exact as_hist_reported. Qed.
Print Assumptions C17_asyncssh_history_reported.

(* ... and the aliasing is invisible: devices given ONE dict connect exactly as devices given each its own copy *)
Theorem C17_asyncssh_shared_dict_eq_copies :
  forall devs u opens,
    snd (as_run as_open (devs_shared devs) [u] opens) =
    snd (as_run as_open (devs_copied_from 0 devs) (map (fun _ => u) devs) opens).
Proof. exact as_shared_eq_copies. Qed.
Print Assumptions C17_asyncssh_shared_dict_eq_copies.

(* read-only use of the user's dict is necessary: a transport that setdefault()s its arguments into it makes the
   second of two devices sharing one dict connect with the first one's host / port / username, and changes the dict *)
Theorem C17_asyncssh_shared_dict_setdefault_refuted :
  exists objs hp opens i j oi oj k,
    nth_error objs i = Some oi /\ nth_error objs j = Some oj /\ i <> j /\ shares_dict oi oj /\
    Forall kw_free hp /\
    In (j, k) (snd (as_run as_open_setdefault objs hp opens)) /\
    (forall l, lib_resolve l k <> (b_host (ao_b oj), b_port (ao_b oj), p_user (ao_p oj))) /\
    fst (as_run as_open_setdefault objs hp opens) <> hp.
Proof. exact as_setdefault_shared_refuted. Qed.
Print Assumptions C17_asyncssh_shared_dict_setdefault_refuted.

(* the pinned commit violates every part (the baseline findings, as theorems about [resolve false]) *)
Theorem C17_pinned_port_not_dialled :
  exists e a r b p, resolve false e a = Built r b p /\ b_port b <> r_port r.
Proof. exact reported_eq_dialled_port_refuted_at_pinned_commit. Qed.
Print Assumptions C17_pinned_port_not_dialled.

Theorem C17_pinned_host_not_dialled :
  exists e a r b p, resolve false e a = Built r b p /\ b_host b <> r_host r.
Proof. exact reported_eq_dialled_host_refuted_at_pinned_commit. Qed.
Print Assumptions C17_pinned_host_not_dialled.

Theorem C17_pinned_explicit_port_overridden :
  exists e a r b p n, resolve false e a = Built r b p /\ a_port a = PInt n /\ r_port r <> n.
Proof. exact precedence_explicit_port_refuted_at_pinned_commit. Qed.
Print Assumptions C17_pinned_explicit_port_overridden.

Theorem C17_pinned_dash_host_reaches_ssh :
  exists e a r b p, resolve false e a = Built r b (Some p) /\ ssh_parse (build_open_cmd b 15 30 p []) = Usage.
Proof. exact system_argv_end_to_end_refuted_at_pinned_commit. Qed.
Print Assumptions C17_pinned_dash_host_reaches_ssh.

(* ---- tie to the current source tree (Gen_Resolve.v is regenerated on every run) ---- *)
Theorem C17_generated_transport_table :
  map (fun t => (transport_name t, is_telnet t, uses_ssh_config t, has_ssh_fields t, default_port t))
      all_transports = gen_transport_table.
Proof. vm_compute. reflexivity. Qed.
Print Assumptions C17_generated_transport_table.

Theorem C17_generated_constants :
  (MAGIC_CFG, MAGIC_KH) = (gen_magic_cfg, gen_magic_kh)
  /\ [USER_CFG; SYS_CFG] = gen_cfg_candidates /\ [USER_KH; SYS_KH] = gen_kh_candidates
  /\ str_ws = gen_str_whitespace
  /\ transport_name System = gen_default_transport /\ gen_default_strict = true.
Proof. repeat split; vm_compute; reflexivity. Qed.
Print Assumptions C17_generated_constants.

(* the real _build_open_cmd, run by the generator on the product of its branch conditions, is [build_open_cmd] *)
Theorem C17_generated_open_cmd_samples :
  forallb (fun s => let '(b, tsk, ttr, p, extra, argv) := s in lbeq (build_open_cmd b tsk ttr p extra) argv)
          gen_open_cmd_samples = true.
Proof. vm_compute. reflexivity. Qed.
Print Assumptions C17_generated_open_cmd_samples.

(* ... and every generated argv without user additions reads back, through ssh's grammar, as its inputs *)
Theorem C17_generated_open_cmd_samples_parse :
  forallb (fun s => let '(b, tsk, ttr, p, extra, argv) := s in
             match extra, ssh_parse argv with
             | [], Parsed d o [] => beq d (b_host b) && match s_port o with Some x => beq x (dec (b_port b)) | None => false end
             | [], _ => false
             | _, Parsed d _ _ => beq d (b_host b)
             | _, Usage => true
             end)
          gen_open_cmd_samples = true.
Proof. vm_compute. reflexivity. Qed.
Print Assumptions C17_generated_open_cmd_samples_parse.
