(* C16 — ssh config and known_hosts lookups return that host's entry and only that.
   This file contains only the property theorems (closed by [exact]) and Print Assumptions.
   es   = the entries _parse discovered, in file order (Host line, option values)
   run  = SSHConfig(file).lookup(name) : dict + "*" completion + _merge_hosts + lookup *)
From Verif Require Import Bytes SshConfig SshConfig_Proofs KnownHosts KnownHosts_Proofs.
From Gen Require Import Gen_SshConfig.

(* lookup never raises — for every parsed file and every name (no KeyError, loops terminate) *)
Theorem C16_lookup_total : forall es name, exists r, run es name = Ok r.
Proof. exact lookup_total. Qed.
Print Assumptions C16_lookup_total.

(* the entry that names the host exactly: as its whole Host line, else the first line listing it *)
Theorem C16_lookup_exact : forall d name,
  (forall h, get name d = Some h -> lookup d name = Ok (name, h))
  /\ (forall k h, get name d = None -> find_listed name d = Some (k, h) ->
        lookup d name = Ok (k, h) /\ In (k, h) d /\ In name (split_ws k)).
Proof. exact lookup_exact. Qed.
Print Assumptions C16_lookup_exact.

(* inheritance never changes an option the entry sets itself (for every entry of every file) *)
Theorem C16_merge_preserves_set : forall es d k h,
  build es = Ok d -> get k (ensure_star (dictify es)) = Some h ->
  exists h', get k d = Some h' /\ keeps h h'.
Proof. exact merge_preserves_set. Qed.
Print Assumptions C16_merge_preserves_set.

Theorem C16_lookup_own_values : forall es d name h,
  build es = Ok d -> get name (ensure_star (dictify es)) = Some h ->
  exists h', lookup d name = Ok (name, h') /\ keeps h h'.
Proof. exact lookup_own_values. Qed.
Print Assumptions C16_lookup_own_values.

(* no value is invented: whatever lookup returns, each option value is one some entry of the
   file (or the default Host * ) has for that option *)
Theorem C16_lookup_values_from_file : forall es name k h,
  run es name = Ok (k, h) -> from_file (ensure_star (dictify es)) h.
Proof. exact lookup_values_from_file. Qed.
Print Assumptions C16_lookup_values_from_file.

(* an unlisted name gets the closest whole-name match (first in file order on ties), else Host *,
   wherever the unanchored search coincides with whole-name matching on that name *)
Theorem C16_lookup_choice_anchored : forall d name,
  has_star d -> get name d = None -> find_listed name d = None -> anchored_on (keys d) name ->
  exists h, lookup d name = Ok (spec_best (keys d) name, h)
            /\ get (spec_best (keys d) name) d = Some h.
Proof. exact lookup_choice_anchored. Qed.
Print Assumptions C16_lookup_choice_anchored.

(* the FULL statement (lookup = specification for every file and name) is false of the code *)
Theorem C16_lookup_refines_spec_refuted : ~ lookup_refines_spec_full.
Proof. exact lookup_refines_spec_refuted. Qed.
Print Assumptions C16_lookup_refines_spec_refuted.

Theorem C16_lookup_refines_spec_anchored_refuted : ~ lookup_refines_spec_anchored_full.
Proof. exact lookup_refines_spec_anchored_refuted. Qed.
Print Assumptions C16_lookup_refines_spec_anchored_refuted.

Theorem C16_only_matching_contribute_refuted : ~ only_matching_contribute_full.
Proof. exact only_matching_contribute_refuted. Qed.
Print Assumptions C16_only_matching_contribute_refuted.

(* ... and true for files of named hosts + Host * defaults whose names do not occur inside each
   other, for names no listed name occurs inside of *)
Theorem C16_lookup_refines_spec_partial : forall es name,
  simple_cfg es name = true -> run es name = to_outcome (spec_lookup es name).
Proof. exact lookup_refines_spec_partial. Qed.
Print Assumptions C16_lookup_refines_spec_partial.

(* the process-wide cache of parsed files (SSHConfig._config_files behind ssh_config_factory) is
   invisible: on EVERY history of direct lookups and driver constructions (explicit port / user /
   key or not), over any paths and names, the cached parse stays the parse of the file and every
   output is the one a fresh parse of the file gives ([run], about which the theorems above speak)
   -- given that nothing writes to the live Host object lookup hands out, a fact read from the
   source on every run (gen_lookup_result_written) *)
Theorem C16_cache_invisible : forall (file : bytes -> list (bytes * host)) (ops : list sop),
  (forall p d, cget p (fst (srun file gen_lookup_result_written [] ops)) = Some d -> build (file p) = Ok d)
  /\ snd (srun file gen_lookup_result_written [] ops) = sspec file ops.
Proof. exact cache_invisible_from_empty. Qed.
Print Assumptions C16_cache_invisible.

(* a consumer that writes to the looked-up object makes the history visible *)
Theorem C16_cache_written_refuted : snd (srun cw_file true [] cw_ops) <> sspec cw_file cw_ops.
Proof. exact cache_visible_when_written. Qed.
Print Assumptions C16_cache_written_refuted.

(* ssh_config_factory keys the cache by the path it was given and stores the parse of that path *)
Theorem C16_generated_factory_keyed_by_path : gen_factory_keyed_by_path = true.
Proof. reflexivity. Qed.
Print Assumptions C16_generated_factory_keyed_by_path.

(* known_hosts, for ANY hmac / base64 functions *)
Theorem C16_known_hosts_dict : forall lines h, kget h (kparse lines) = last_plain lines h.
Proof. exact kparse_get. Qed.
Print Assumptions C16_known_hosts_dict.

Theorem C16_known_hosts_plain : forall hmac b64dec lines h v,
  last_plain lines h = Some v -> klookup hmac b64dec (kparse lines) h = KFound v.
Proof. exact known_hosts_plain. Qed.
Print Assumptions C16_known_hosts_plain.

Theorem C16_known_hosts_hashed : forall hmac b64dec lines h d1 id v d2 s,
  last_plain lines h = None -> kparse lines = d1 ++ (id, v) :: d2 ->
  (forall e, In e d1 -> miss hmac b64dec h e) ->
  parse_hid b64dec id = Hid s (hmac s h) ->
  klookup hmac b64dec (kparse lines) h = KFound v.
Proof. exact known_hosts_hashed. Qed.
Print Assumptions C16_known_hosts_hashed.

Theorem C16_known_hosts_other_host : forall hmac b64dec lines h,
  last_plain lines h = None ->
  (forall id v, In (id, v) (kparse lines) ->
     parse_hid b64dec id = NotHashed
     \/ exists s g, parse_hid b64dec id = Hid s (hmac s g) /\ hmac s g <> hmac s h) ->
  klookup hmac b64dec (kparse lines) h = KNone.
Proof. exact known_hosts_other_host. Qed.
Print Assumptions C16_known_hosts_other_host.

(* ---- tie to the current source tree (Gen_SshConfig.v is regenerated on every run) ---- *)
(* every printable pattern character translates, under CPython's re with the flags the source
   passes, to exactly the token the model uses; matching is re.search with re.I; first minimal wins *)
Theorem C16_generated_pattern_translation :
  map fst gen_tok_class = map N.of_nat (seq 33 94)
  /\ forallb (fun cc => snd cc =? tok_class (tok_of (fst cc))) gen_tok_class = true
  /\ gen_match_fn = 0 /\ gen_flags = gen_flag_ignorecase /\ gen_best_cmp = 0.
Proof. repeat split; vm_compute; reflexivity. Qed.
Print Assumptions C16_generated_pattern_translation.

(* the options _merge_hosts inherits include the five the model's [fill] copies, and the five
   are exactly the parsed ones with the defaults the model's truthiness tests assume *)
Definition str_in (s : list N) (l : list (list N)) : bool := existsb (beq s) l.
Definition default_of (s : list N) : option N :=
  match find (fun e => beq s (fst e)) gen_host_defaults with Some e => Some (snd e) | None => None end.
Theorem C16_generated_host_attrs :
  forallb (fun a => str_in a gen_host_attrs)
    [[104;111;115;116;110;97;109;101]; [112;111;114;116]; [117;115;101;114];
     [105;100;101;110;116;105;116;105;101;115;95;111;110;108;121];
     [105;100;101;110;116;105;116;121;95;102;105;108;101]] = true
  /\ default_of [104;111;115;116;110;97;109;101] = Some 0
  /\ default_of [112;111;114;116] = Some 0
  /\ default_of [117;115;101;114] = Some 1
  /\ default_of [105;100;101;110;116;105;116;105;101;115;95;111;110;108;121] = Some 0
  /\ default_of [105;100;101;110;116;105;116;121;95;102;105;108;101] = Some 0.
Proof. repeat split; vm_compute; reflexivity. Qed.
Print Assumptions C16_generated_host_attrs.

Theorem C16_generated_known_hosts_constants :
  gen_kh_prefix = HASH_PREFIX /\ gen_kh_bar = BAR_C /\ gen_kh_comma = COMMA_C.
Proof. repeat split. Qed.
Print Assumptions C16_generated_known_hosts_constants.
