(* C13 — the device receives exactly the lines given, and failures stop the run.
   This file contains only the property theorems (closed by [exact] or, over the regenerated
   definitions of Gen_Send.v, by computation) and Print Assumptions. *)
From Coq Require Import Strings.String.
From Verif Require Import Bytes Response Send Response_Proofs Send_Proofs ResponseRaw ResponseRaw_Proofs.
From Gen Require Import Gen_Send.

(* ---- failed flags ---- *)
(* a response is marked failed exactly when its output contains one of the failure markers *)
Theorem C13_failed_iff_marker : forall input f result,
  r_failed (record_response (new_response input f) result) = true
  <-> exists m, In m (markers_of f) /\ Infix m result.
Proof. exact failed_iff_marker. Qed.
Print Assumptions C13_failed_iff_marker.

(* markers are literal text, not patterns (witnesses with regular-expression metacharacters) *)
Theorem C13_failed_marker_literal :
  (forall f result, flag_of f result = contains_any (markers_of f) result) /\
  flag_of (FStr [97;46;99]) [120;97;46;99;120] = true /\ flag_of (FStr [97;46;99]) [97;98;99] = false /\
  flag_of (FStr [40]) [102;40;120;41] = true /\ flag_of (FStr [40]) [102;120] = false /\
  flag_of (FList [[69;124;82]]) [120;69;124;82;121] = true /\ flag_of (FList [[69;124;82]]) [69] = false /\
  flag_of (FList [[97;42]; [40]]) [97;42;98] = true /\ flag_of (FList [[97;42]; [40]]) [97;97;97] = false /\
  flag_of (FStr ios_invalid) ([32;32;94;10] ++ ios_invalid ++ [10;120]) = true /\
  flag_of (FStr ios_invalid) [37;32;73;110;118;97;108;105;100;32;105;110;112;117;116] = false.
Proof. exact (conj flag_of_literal failed_iff_marker_metachar). Qed.
Print Assumptions C13_failed_marker_literal.

Theorem C13_multi_failed_iff_any : forall rs,
  multi_failed rs = true <-> exists r, In r rs /\ r_failed r = true.
Proof. exact multi_failed_iff_any. Qed.
Print Assumptions C13_multi_failed_iff_any.

(* ---- the output as the BYTES the channel returned (any bytes: well-formed UTF-8 or not) ----
   record_raw = decode (UTF-8 where well-formed, ISO-8859-1 otherwise) then record_response.
   The response is failed exactly when a marker occurs in the text the bytes are read as ... *)
Theorem C13_failed_iff_marker_raw : forall input f raw,
  r_failed (record_raw (new_response input f) raw) = true
  <-> exists m, In m (markers_of f) /\ Infix m (decode_output raw).
Proof. exact failed_iff_marker_raw. Qed.
Print Assumptions C13_failed_iff_marker_raw.

(* ... and for ASCII markers exactly when the marker's bytes occur in the raw output itself: a byte that is
   not UTF-8 (latin-1 text, garbage, a truncated sequence) neither hides a marker nor makes one up
   (witnesses: ResponseRaw_Proofs.raw_flag_witnesses) *)
Theorem C13_failed_raw_ascii_markers : forall input f raw,
  forallb is_ascii (markers_of f) = true ->
  (r_failed (record_raw (new_response input f) raw) = true <-> exists m, In m (markers_of f) /\ Infix m raw).
Proof. exact failed_raw_ascii_markers_iff. Qed.
Print Assumptions C13_failed_raw_ascii_markers.

(* the reading of the bytes: well-formed UTF-8 is taken as it is, and whatever the bytes the result is text *)
Theorem C13_decode_output_text :
  (forall raw, utf8_valid raw = true -> decode_output raw = raw) /\
  (forall raw, all_bytes raw = true -> utf8_valid (decode_output raw) = true).
Proof. exact (conj decode_output_utf8 decode_output_valid). Qed.
Print Assumptions C13_decode_output_text.

(* ---- delivery: for every device, every list (also the empty one with the guard of the current
   code), every marker set, eager or not: without a stop (no stop_on_failed, or no failing line
   before the last) the events are each line once, in order, each followed by one return, and
   there is one response per line ---- *)
Theorem C13_delivery_exact : forall dev guard f stop eager ls,
  (ls <> [] \/ guard = true) ->
  (stop = false \/
   forall j l, (S j < length ls)%nat -> nth_error ls j = Some l ->
               spec_fails dev f eager (length ls) j l = false) ->
  send_commands dev guard f stop eager ls =
    (lines_events ls, Ok (spec_resps dev f eager (length ls) 0 ls)).
Proof. exact send_commands_all. Qed.
Print Assumptions C13_delivery_exact.

(* byte for byte *)
Theorem C13_delivery_bytes : forall ls, written (lines_events ls) = wire ls.
Proof. exact written_lines_events. Qed.
Print Assumptions C13_delivery_bytes.

(* ---- stop_on_failed: first failing line at position k => exactly lines 0..k are sent ---- *)
Theorem C13_stop_on_failed_prefix : forall dev guard f eager ls k l,
  nth_error ls k = Some l ->
  (forall j l', (j < k)%nat -> nth_error ls j = Some l' -> spec_fails dev f eager (length ls) j l' = false) ->
  spec_fails dev f eager (length ls) k l = true ->
  send_commands dev guard f true eager ls =
    (lines_events (firstn (S k) ls), Ok (spec_resps dev f eager (length ls) 0 (firstn (S k) ls))).
Proof. exact stop_on_failed_prefix. Qed.
Print Assumptions C13_stop_on_failed_prefix.

(* ---- network drivers: only the driver's own navigation besides the lines ---- *)
Theorem C13_net_send_commands : forall dev d cur f stop eager ls,
  let f' := net_fwc (d_markers d) f in
  (stop = false \/
   forall j l, (S j < length ls)%nat -> nth_error ls j = Some l -> spec_fails dev f' eager (length ls) j l = false) ->
  net_send_commands dev v_now d cur f stop eager ls =
    (nav cur (d_default_priv d) ++ lines_events ls, Ok (spec_resps dev f' eager (length ls) 0 ls), d_default_priv d).
Proof. exact net_send_commands_all. Qed.
Print Assumptions C13_net_send_commands.

Theorem C13_send_configs_delivery : forall dev d cur f stop eager priv lvl ls,
  let f' := net_fwc (d_markers d) f in
  resolve_level d priv = Ok lvl ->
  (stop = false \/
   forall j l, nth_error ls j = Some l -> spec_fails dev f' eager (length ls) j l = false) ->
  send_configs dev v_now d cur f stop eager priv ls =
    (nav cur lvl ++ lines_events ls, Ok (spec_resps dev f' eager (length ls) 0 ls), lvl).
Proof. exact send_configs_all. Qed.
Print Assumptions C13_send_configs_delivery.

(* as the device sees it: its log is exactly the lines, in the target level *)
Theorem C13_delivery_device : forall dev d cur f stop eager priv lvl ls,
  let f' := net_fwc (d_markers d) f in
  resolve_level d priv = Ok lvl -> Forall no_lf ls ->
  (stop = false \/ forall j l, nth_error ls j = Some l -> spec_fails dev f' eager (length ls) j l = false) ->
  dlog cur [] (fst (fst (send_configs dev v_now d cur f stop eager priv ls))) = map (fun l => (lvl, l)) ls.
Proof. exact delivery_device. Qed.
Print Assumptions C13_delivery_device.

(* ---- a failed run: [navigation] ++ lines 0..k ++ the abort step, nothing else, no navigation
   after the first line ---- *)
Theorem C13_send_configs_failed_run : forall dev d cur f eager priv lvl ls k l,
  let f' := net_fwc (d_markers d) f in
  keeps_session (d_abort d) = true -> has_level d lvl = true ->
  resolve_level d priv = Ok lvl ->
  nth_error ls k = Some l ->
  (forall j l', (j < k)%nat -> nth_error ls j = Some l' -> spec_fails dev f' eager (length ls) j l' = false) ->
  spec_fails dev f' eager (length ls) k l = true ->
  send_configs dev v_now d cur f true eager priv ls =
    (nav cur lvl ++ lines_events (firstn (S k) ls) ++ lines_events (abort_lines d lvl),
     Ok (spec_resps dev f' eager (length ls) 0 (firstn (S k) ls)),
     abort_after d lvl).
Proof. exact send_configs_failed_run. Qed.
Print Assumptions C13_send_configs_failed_run.

Theorem C13_abort_in_session : forall dev d cur f eager priv lvl ls k l,
  let f' := net_fwc (d_markers d) f in
  keeps_session (d_abort d) = true -> has_level d lvl = true ->
  resolve_level d priv = Ok lvl -> Forall no_lf ls -> Forall no_lf (a_lines (d_abort d)) ->
  nth_error ls k = Some l ->
  (forall j l', (j < k)%nat -> nth_error ls j = Some l' -> spec_fails dev f' eager (length ls) j l' = false) ->
  spec_fails dev f' eager (length ls) k l = true ->
  dlog cur [] (fst (fst (send_configs dev v_now d cur f true eager priv ls))) =
    map (fun x => (lvl, x)) (firstn (S k) ls) ++ map (fun x => (lvl, x)) (abort_lines d lvl).
Proof. exact abort_in_session. Qed.
Print Assumptions C13_abort_in_session.

(* ---- a level that is no configuration session (the user's own privilege_levels: a shell ...) under a guarded abort
   shape: a failed run = [navigation] ++ lines 0..k and NOTHING else, the believed level stays ---- *)
Theorem C13_failed_run_outside_session : forall dev d cur f eager priv lvl ls k l,
  let f' := net_fwc (d_markers d) f in
  a_guard (d_abort d) = true -> is_session d lvl = false ->
  keeps_session (d_abort d) = true -> has_level d lvl = true ->
  resolve_level d priv = Ok lvl ->
  nth_error ls k = Some l ->
  (forall j l', (j < k)%nat -> nth_error ls j = Some l' -> spec_fails dev f' eager (length ls) j l' = false) ->
  spec_fails dev f' eager (length ls) k l = true ->
  send_configs dev v_now d cur f true eager priv ls =
    (nav cur lvl ++ lines_events (firstn (S k) ls),
     Ok (spec_resps dev f' eager (length ls) 0 (firstn (S k) ls)),
     lvl).
Proof. exact failed_run_outside_session. Qed.
Print Assumptions C13_failed_run_outside_session.

(* ---- send_config = send_configs of its lines ---- *)
Theorem C13_send_config_eq_send_configs_splitlines : forall dev v d cur f stop eager priv cfg,
  let '(es, o, cur') := send_configs dev v d cur f stop eager priv (usplitlines cfg) in
  exists o', send_config dev v d cur f stop eager priv cfg = (es, o', cur') /\
    match o with
    | Raised e => o' = Raised e
    | Ok [] => o' = (if v_guard_cfg v then Ok (mkR cfg [] [] false) else Raised IndexError)
    | Ok (r0 :: rs) =>
        exists r, o' = Ok r /\ r_input r = cfg /\
                  r_failed r = multi_failed (r0 :: rs) /\
                  r_result r = join [10] (map r_result (r0 :: rs))
    end.
Proof. exact send_config_eq_send_configs_splitlines. Qed.
Print Assumptions C13_send_config_eq_send_configs_splitlines.

Theorem C13_merged_failed_iff_some_line : forall dev f eager n cfg ls r,
  ls <> [] ->
  post_send_config true cfg (spec_resps dev f eager n 0 ls) = Ok r ->
  (r_failed r = true <->
   exists j l, nth_error ls j = Some l /\ contains_any (markers_of f) (result_of dev eager n j l) = true).
Proof. exact merged_failed_iff_some_line. Qed.
Print Assumptions C13_merged_failed_iff_some_line.

(* known finding: "failed iff ITS output contains a marker" is false of the merged response *)
Theorem C13_merged_failed_iff_marker_refuted : ~ merged_failed_iff_marker.
Proof. exact merged_failed_iff_marker_refuted. Qed.
Print Assumptions C13_merged_failed_iff_marker_refuted.

(* ... and true (the strongest partial form) for marker sets free of newlines *)
Theorem C13_merged_failed_iff_marker_partial : forall dev f eager n cfg ls r,
  ls <> [] -> (forall m, In m (markers_of f) -> ~ In 10 m) ->
  post_send_config true cfg (spec_resps dev f eager n 0 ls) = Ok r ->
  (r_failed r = true <-> exists m, In m (markers_of f) /\ Infix m (r_result r)).
Proof. exact merged_failed_iff_marker_partial. Qed.
Print Assumptions C13_merged_failed_iff_marker_partial.

(* ---- from-file variants ---- *)
Theorem C13_usplitlines_wire : forall ls,
  Forall (fun l => cleanb l = true) ls -> usplitlines (wire ls) = ls.
Proof. exact usplitlines_wire. Qed.
Print Assumptions C13_usplitlines_wire.

Theorem C13_from_file_delivers_lines : forall dev v d cur f stop eager priv ls,
  Forall (fun l => cleanb l = true) ls ->
  send_configs_from_file dev v d cur f stop eager priv (wire ls) = send_configs dev v d cur f stop eager priv ls /\
  net_send_commands_from_file dev v d cur f stop eager (wire ls) = net_send_commands dev v d cur f stop eager ls /\
  send_commands_from_file dev (v_guard_cmds v) f stop eager (wire ls) = send_commands dev (v_guard_cmds v) f stop eager ls.
Proof. exact from_file_delivers_lines. Qed.
Print Assumptions C13_from_file_delivers_lines.

(* ---- the pinned code is refuted (the three baseline defects) ---- *)
Theorem C13_empty_list_pinned_refuted : empty_list_ok v_now /\ ~ empty_list_ok v_pinned.
Proof. exact (conj empty_list_now empty_list_pinned_refuted). Qed.
Print Assumptions C13_empty_list_pinned_refuted.

Theorem C13_empty_config_pinned_refuted :
  empty_config_ok v_now /\ ~ empty_config_ok v_pinned /\ ~ empty_config_ok (mkV true false).
Proof. exact (conj empty_config_now empty_config_pinned_refuted). Qed.
Print Assumptions C13_empty_config_pinned_refuted.

Theorem C13_junos_abort_pinned_refuted : abort_stays (d_junos true) /\ ~ abort_stays (d_junos false).
Proof. exact (conj junos_abort_now junos_abort_pinned_refuted). Qed.
Print Assumptions C13_junos_abort_pinned_refuted.

(* ---- obligations over the CURRENT source tree (Gen_Send.v is regenerated on every run) ---- *)
(* the tree has the guards for empty input (so [v_now] is the model of the tree) *)
Theorem C13_generated_code_guards_empty_input :
  (gen_sc_guard_empty_sync, gen_sc_guard_empty_async, gen_guard_cfg) = (true, true, true).
Proof. vm_compute. reflexivity. Qed.
Print Assumptions C13_generated_code_guards_empty_input.

(* structure of GenericDriver.send_commands, both twins: loop over commands[:-1], append before the
   break, break on stop_on_failed and failed, the else clause sends commands[-1] with eager=False *)
Theorem C13_generated_send_commands_structure :
  [gen_sc_slice_all_but_last_sync; gen_sc_append_before_break_sync; gen_sc_break_on_stop_and_failed_sync;
   gen_sc_else_sends_last_sync; gen_sc_else_eager_false_sync;
   gen_sc_slice_all_but_last_async; gen_sc_append_before_break_async; gen_sc_break_on_stop_and_failed_async;
   gen_sc_else_sends_last_async; gen_sc_else_eager_false_async; gen_response_initially_failed]
  = [true; true; true; true; true; true; true; true; true; true; true].
Proof. vm_compute. reflexivity. Qed.
Print Assumptions C13_generated_send_commands_structure.

Theorem C13_generated_return_char : gen_return_char = RET.
Proof. vm_compute. reflexivity. Qed.
Print Assumptions C13_generated_return_char.

(* every platform's abort step, sync and asyncio twin, as read from the source: stays in the session
   that failed (for every device, list, failing position, marker set, level incl. sessions) *)
Theorem C13_generated_abort_in_session :
  abort_stays gen_drv_network_sync /\
  abort_stays gen_drv_network_async /\
  abort_stays gen_drv_cisco_iosxe_sync /\
  abort_stays gen_drv_cisco_iosxe_async /\
  abort_stays gen_drv_cisco_iosxr_sync /\
  abort_stays gen_drv_cisco_iosxr_async /\
  abort_stays gen_drv_cisco_nxos_sync /\
  abort_stays gen_drv_cisco_nxos_async /\
  abort_stays gen_drv_arista_eos_sync /\
  abort_stays gen_drv_arista_eos_async /\
  abort_stays gen_drv_juniper_junos_sync /\
  abort_stays gen_drv_juniper_junos_async.
Proof. repeat split; apply abort_stays_of_shape; vm_compute; reflexivity. Qed.
Print Assumptions C13_generated_abort_in_session.

Theorem C13_generated_twins_agree :
  gen_abort_network_sync = gen_abort_network_async /\
  gen_abort_cisco_iosxe_sync = gen_abort_cisco_iosxe_async /\
  gen_abort_cisco_iosxr_sync = gen_abort_cisco_iosxr_async /\
  gen_abort_cisco_nxos_sync = gen_abort_cisco_nxos_async /\
  gen_abort_arista_eos_sync = gen_abort_arista_eos_async /\
  gen_abort_juniper_junos_sync = gen_abort_juniper_junos_async.
Proof. repeat split; vm_compute; reflexivity. Qed.
Print Assumptions C13_generated_twins_agree.

(* the abort shapes are the vendor-specific ones the model's witnesses use; the session guard of
   NX-OS / EOS selects the registered session and not the plain configuration level *)
Theorem C13_generated_abort_shapes :
  gen_abort_network_sync = mkA false [] false false None /\
  gen_abort_cisco_iosxe_sync = mkA false [] false false None /\
  gen_abort_cisco_iosxr_sync = mkA false [bs "abort"] false false (Some (bs "privilege_exec")) /\
  gen_abort_cisco_nxos_sync = mkA true [bs "abort"] false false (Some (bs "privilege_exec")) /\
  gen_abort_arista_eos_sync = mkA true [bs "abort"] false false (Some (bs "privilege_exec")) /\
  gen_abort_juniper_junos_sync = junos_shape true /\
  (is_session gen_drv_cisco_nxos_sync gen_session_name, is_session gen_drv_cisco_nxos_sync lv_configuration,
   is_session gen_drv_arista_eos_sync gen_session_name, is_session gen_drv_arista_eos_sync lv_configuration)
  = (true, false, true, false).
Proof. repeat split; vm_compute; reflexivity. Qed.
Print Assumptions C13_generated_abort_shapes.

(* the regenerated NX-OS / EOS drivers (both twins) given an extra level of the user's that is no session: the premises of
   C13_failed_run_outside_session hold for it (guarded shape that stays in the level; the level exists and is no session)
   while the registered session still is one; the regenerated IOS-XR / Junos shapes are NOT guarded: they type their abort
   lines at any level, the user's included (known findings C13-iosxr/junos-abort-at-user-level) *)
Theorem C13_generated_user_levels :
  forallb (fun d => let d' := with_levels d [(bs "bash", false)] in
                    a_guard (d_abort d') && negb (is_session d' (bs "bash")) && keeps_session (d_abort d') &&
                    has_level d' (bs "bash") && is_session d' gen_session_name &&
                    match abort_lines d' (bs "bash") with [] => true | _ => false end)
    [gen_drv_cisco_nxos_sync; gen_drv_cisco_nxos_async; gen_drv_arista_eos_sync; gen_drv_arista_eos_async] = true /\
  forallb (fun d => let d' := with_levels d [(bs "bash", false)] in
                    negb (a_guard (d_abort d')) && negb (match abort_lines d' (bs "bash") with [] => true | _ => false end))
    [gen_drv_cisco_iosxr_sync; gen_drv_cisco_iosxr_async; gen_drv_juniper_junos_sync; gen_drv_juniper_junos_async] = true.
Proof. split; vm_compute; reflexivity. Qed.
Print Assumptions C13_generated_user_levels.

(* the default level of send_configs exists on every platform; default markers are non-trivial on the
   five core platforms and free of newlines (so the merged response's known finding needs a per-call marker) *)
Theorem C13_generated_levels_and_markers :
  forallb (fun d => has_level d lv_configuration && has_level d (d_default_priv d))
    [gen_drv_network_sync; gen_drv_network_async; gen_drv_cisco_iosxe_sync; gen_drv_cisco_iosxe_async; gen_drv_cisco_iosxr_sync; gen_drv_cisco_iosxr_async; gen_drv_cisco_nxos_sync; gen_drv_cisco_nxos_async; gen_drv_arista_eos_sync; gen_drv_arista_eos_async; gen_drv_juniper_junos_sync; gen_drv_juniper_junos_async] = true /\
  forallb (fun d => negb (match d_markers d with [] => true | _ => false end) && no_lfb (d_markers d)
                    && negb (existsb (fun m => match m with [] => true | _ => false end) (d_markers d)))
    [gen_drv_cisco_iosxe_sync; gen_drv_cisco_iosxe_async; gen_drv_cisco_iosxr_sync; gen_drv_cisco_iosxr_async; gen_drv_cisco_nxos_sync; gen_drv_cisco_nxos_async; gen_drv_arista_eos_sync; gen_drv_arista_eos_async; gen_drv_juniper_junos_sync; gen_drv_juniper_junos_async] = true.
Proof. split; vm_compute; reflexivity. Qed.
Print Assumptions C13_generated_levels_and_markers.
