(* C06 — sync and asyncio drivers behave identically.
   This file contains only the property theorems (closed by [exact] / decided by vm_compute over the
   tables regenerated from the source) and Print Assumptions. *)
From Verif Require Import Bytes Twins Twins_Proofs.
From Gen Require Import Gen_Twins.

(* ---- obligations over the regenerated tables (a one-sided source edit breaks one of these) ---- *)
Example C06_gen_tables_present :
  (11 <=? N.of_nat (length gen_classes)) && (60 <=? N.of_nat (length gen_funcs)) &&
  (N.of_nat (length gen_drop) =? 2) && (40 <=? N.of_nat (count_equal gen_drop gen_rename gen_funcs)) = true.
Proof. vm_compute. reflexivity. Qed.

Example C06_gen_sigs_ok : sigs_ok gen_classes = true.
Proof. vm_compute. reflexivity. Qed.

Example C06_gen_fns_ok : fns_ok gen_drop gen_rename gen_allowed gen_funcs = true.
Proof. vm_compute. reflexivity. Qed.

Example C06_gen_allowed_exact : allowed_exact gen_drop gen_rename gen_allowed gen_funcs = true.
Proof. vm_compute. reflexivity. Qed.

(* Every public attribute of a sync class exists on its asyncio counterpart with the same kind and the
   same parameters (names, order, kinds incl. keyword-only, defaults), and conversely; no attribute of
   a sync class is a coroutine function.  For all class pairs of the current source tree. *)
Theorem C06_public_signatures_equal :
  forall c, In c gen_classes ->
    (forall m, In m (c_smeths c) -> exists m', In m' (c_ameths c) /\ same_attr m m') /\
    (forall m, In m (c_ameths c) -> exists m', In m' (c_smeths c) /\ same_attr m m') /\
    (forall m, In m (c_smeths c) -> m_coro m = false).
Proof. exact (sigs_ok_sound gen_classes C06_gen_sigs_ok). Qed.
Print Assumptions C06_public_signatures_equal.

(* Every function of every sync/async module pair is token-identical to its twin after dropping
   async/await and renaming the twin names, or it is on the committed difference list with exactly
   the reviewed difference. *)
Theorem C06_twin_functions :
  forall f, In f gen_funcs ->
    twin_identical gen_drop gen_rename f \/ (f_hash f <> [] /\ In (f_name f, f_hash f) gen_allowed).
Proof. exact (fns_ok_sound gen_drop gen_rename gen_allowed gen_funcs C06_gen_fns_ok). Qed.
Print Assumptions C06_twin_functions.

Theorem C06_difference_list_exact :
  forall n h, In (n, h) gen_allowed ->
    exists f, In f gen_funcs /\ f_name f = n /\ ~ twin_identical gen_drop gen_rename f.
Proof. exact (allowed_exact_sound gen_drop gen_rename gen_allowed gen_funcs C06_gen_allowed_exact). Qed.
Print Assumptions C06_difference_list_exact.

(* the asyncio Telnet login handles a connection error like the sync one (model parameter l_catch) *)
Example C06_gen_async_login_catches : gen_async_login_catches = true.
Proof. vm_compute. reflexivity. Qed.

(* the normaliser is exactly "erase the dropped tokens, rename the others" *)
Theorem C06_normalise_spec :
  forall drop rn ts out, erases drop rn ts out <-> out = normalise drop rn ts.
Proof. exact normalise_spec. Qed.
Print Assumptions C06_normalise_spec.

(* ---- the login loops: for ALL match predicates rejecting the empty buffer, ALL histories ---- *)
(* inserting any number of empty reads / non-kicking poll expiries anywhere changes neither the bytes
   written nor the outcome (LBlocks and the exceptions are outcomes, not defaults) *)
Theorem C06_auth_stutter_invariant :
  forall cfg evs evs', empty_safe cfg -> stutters cfg evs evs' ->
    lrun cfg l_init evs' = lrun cfg l_init evs.
Proof. exact auth_stutter_invariant. Qed.
Print Assumptions C06_auth_stutter_invariant.

(* the polling asyncio loop and the blocking sync loop agree *)
Theorem C06_login_sync_eq_async :
  forall cfg evs, empty_safe cfg -> expiries_quiet cfg evs ->
    lrun cfg l_init evs = lrun cfg l_init (sync_view evs).
Proof. exact login_sync_eq_async. Qed.
Print Assumptions C06_login_sync_eq_async.

(* the pinned commit (asyncio login without `except ScrapliConnectionError`) is refuted; what was true of it *)
Theorem C06_login_catch_irrelevant_refuted : ~ login_catch_irrelevant.
Proof. exact login_catch_irrelevant_refuted. Qed.
Print Assumptions C06_login_catch_irrelevant_refuted.

Theorem C06_login_catch_partial :
  forall cfg evs, has_err evs = false ->
    lrun (with_catch cfg true) l_init evs = lrun (with_catch cfg false) l_init evs.
Proof. exact login_catch_partial. Qed.
Print Assumptions C06_login_catch_partial.
