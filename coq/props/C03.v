(* C03 — commands and configs are only ever sent at the right privilege level.
   This file contains only the property theorems (closed by [exact] / decided by vm_compute over the
   tables regenerated from the source) and Print Assumptions. *)
From Coq Require Import List Arith Bool.
Import ListNotations.
From Verif Require Import NetDriver NetDriver_Proofs.
From Gen Require Import Gen_NetDriver.

(* For EVERY platform table passing the computed check, every login level and EVERY finite history of
   open / send_command(s) / send_config(s) (failing lines, stop_on_failed, abort) / acquire_priv /
   send_interactive / register_configuration_session / generic-mode toggles whose user lines are
   mode-neutral (the proviso) and which resets the belief only while the device's prompt is unambiguous
   (the complement of the finding's region): every operation has the specified outcome, the user lines
   that reach the device are exactly the expected ones, each executed in the required level
   (send_command(s): default_desired while generic mode is off; send_config(s): exactly the requested
   level; send_interactive: the level asked for), and afterwards the belief is DUMMY or the device's mode. *)
Theorem C03_levels_partial :
  forall P, platform_check P = true -> forall m0 h,
    In m0 (p_login P) -> forallb (op_neutral P) h = true -> hist_safe P (init P m0) h = true ->
    Forall (step_good P) (run_hist P (init P m0) h).
Proof. exact levels_partial. Qed.
Print Assumptions C03_levels_partial.

(* Belief soundness after EVERY operation, interrupted ones included.  A history item is an operation with an optional
   interruption point: the caller catches an exception raised in the middle of the operation (transport error, timeout
   that leaves the connection usable, asyncio cancellation) and goes on.  Points: every channel call of the navigation
   (prompt query or escalate / deescalate line, the cut line executed by the device or not) and every line of the send
   loop of open / send_command(s) / send_config(s) / acquire_priv / send_interactive.  After every operation, cut or
   not, the belief is DUMMY or the device's mode.  [platform_check] contains the ORDER fact p_reset_first (generated
   from the ast of acquire_priv / _process_acquire_priv: the reset to DUMMY precedes the escalate / deescalate call) and
   evaluates the interrupted navigation under it; [hist_safe_i] excludes the finding's region, which an interruption
   can also enter (belief DUMMY while the prompt is shared). *)
Theorem C03_belief_sound :
  forall P, platform_check P = true -> forall m0 h,
    In m0 (p_login P) -> forallb (fun io => op_neutral P (fst io)) h = true -> hist_safe_i P (init P m0) h = true ->
    Forall (fun t => belief_sound (snd t)) (run_hist_i P (init P m0) h).
Proof. exact belief_sound_hist_i. Qed.
Print Assumptions C03_belief_sound.

(* ... and the user lines that did reach the device during a cut operation ran in the required level; operations that
   were not cut have the full specification *)
Theorem C03_levels_interrupted :
  forall P, platform_check P = true -> forall m0 h,
    In m0 (p_login P) -> forallb (fun io => op_neutral P (fst io)) h = true -> hist_safe_i P (init P m0) h = true ->
    Forall (step_good_i P) (run_hist_i P (init P m0) h).
Proof. exact levels_hist_i. Qed.
Print Assumptions C03_levels_interrupted.

(* histories without interruption points are the plain histories of C03_levels_partial *)
Theorem C03_plain_histories : forall P h s, run_hist_i P s (map (fun o => (o, None)) h) = run_hist P s h.
Proof. exact run_hist_i_plain. Qed.
Print Assumptions C03_plain_histories.

(* one interrupted operation from ANY state satisfying the invariant *)
Theorem C03_interrupted_step :
  forall P, platform_check P = true -> forall s o pt s' seg,
    Inv P s -> op_neutral P o = true -> run_op_int P s o pt = Some (s', seg) ->
    belief_sound s' /\ seg_at (req_level P s o) seg /\ (st_safe P s' = true -> Inv P s').
Proof. exact int_ok. Qed.
Print Assumptions C03_interrupted_step.

(* the order fact is necessary: with the reset AFTER the step the same statement is false (witness: send_configs cut
   while "configure terminal" is in flight leaves the belief at privilege_exec with the device in configuration) *)
Theorem C03_reset_after_refuted : ~ C03_int_without_order.
Proof. exact int_without_order_refuted. Qed.
Print Assumptions C03_reset_after_refuted.

(* tie of the order to the current source tree *)
Theorem C03_generated_order : gen_reset_first = true /\ forallb p_reset_first gen_platforms = true.
Proof. split; vm_compute; reflexivity. Qed.
Print Assumptions C03_generated_order.

(* Registering a configuration session is NOT a belief-resetting event: [platform_check] contains the REGISTER fact
   p_reg_keeps (generated from the ast of update_privilege_levels and what it calls, register_configuration_session and
   _create_configuration_session, sync and async: no assignment to _current_priv_level) ... *)
Theorem C03_register_keeps_belief :
  forall P, platform_check P = true -> forall s k, belief (fst (fst (run_op P s (ORegister k)))) = belief s.
Proof. exact register_keeps_belief_checked. Qed.
Print Assumptions C03_register_keeps_belief.

(* ... so from ANY state with the belief set — the device in exec, privilege_exec, configuration or INSIDE another
   configuration session, whose prompt the new session's pattern may match — a session is registered and any commands /
   configs at any level (the new session, the one the device sits in, plain configuration) / acquire_priv /
   send_interactive / generic-off follow: full specification (exact lines, each in the required level, belief sound)
   with no region hypothesis.  (The tracked level is the only thing telling same-prompt sessions apart.) *)
Theorem C03_register_in_any_level :
  forall P, platform_check P = true -> forall s k h,
    Inv P s -> belief s <> None -> forallb (op_neutral P) h = true -> forallb plain_op h = true ->
    Forall (step_good P) (run_hist P s (ORegister k :: h)).
Proof. exact register_in_level. Qed.
Print Assumptions C03_register_in_any_level.

(* ... and more generally: switching generic-driver mode on is the ONLY operation that resets a belief the driver has.
   open, then ANY history that never switches it on — sessions registered at any moment and in any level, inside another
   session included — has the full specification, with no region hypothesis at all *)
Theorem C03_levels_without_generic_on :
  forall P, platform_check P = true -> forall m0 h,
    In m0 (p_login P) -> forallb (op_neutral P) h = true -> forallb no_generic_on h = true ->
    Forall (step_good P) (run_hist P (init P m0) (OOpen :: h)).
Proof. exact levels_no_generic_on. Qed.
Print Assumptions C03_levels_without_generic_on.

(* the register fact is necessary: with a registration that forgets the level the same statement is false (witness on
   the NX-OS shape: send_configs(A) . register B . send_configs(B) types B's lines into session A) *)
Theorem C03_register_reset_refuted : ~ C03_without_register_fact.
Proof. exact without_register_fact_refuted. Qed.
Print Assumptions C03_register_reset_refuted.

(* tie of the register fact to the current source tree *)
Theorem C03_generated_register_keeps : gen_reg_keeps = true /\ forallb p_reg_keeps gen_platforms = true.
Proof. split; vm_compute; reflexivity. Qed.
Print Assumptions C03_generated_register_keeps.

(* one operation from ANY state satisfying the invariant (not only states reached from login) *)
Theorem C03_step :
  forall P, platform_check P = true -> forall s o s' seg res,
    Inv P s -> op_neutral P o = true -> op_safe P s o = true -> run_op P s o = (s', seg, res) ->
    Inv P s' /\ op_spec P s o seg res.
Proof. exact step_ok. Qed.
Print Assumptions C03_step.

(* acquire_priv's own counter (2 * number of levels) is what ends its loop, whatever the device and the belief:
   the model's fuel never decides an outcome *)
Theorem C03_acquire_never_out_of_fuel : forall P r b m d, snd (acquire P r b m d) <> OutOfFuel.
Proof. exact acquire_never_out_of_fuel. Qed.
Print Assumptions C03_acquire_never_out_of_fuel.

(* the statement without the restriction is false of the faithful model: shared prompt + belief reset *)
Theorem C03_full_refuted : ~ C03_full.
Proof. exact full_refuted. Qed.
Print Assumptions C03_full_refuted.

(* tie to the current source tree: the five tables regenerated from PRIVS / _abort_config / on_open and the
   vendor device tables pass the check — navigation from every sound (belief, mode) to every level under
   every reachable key order, the abort steps, registration closure, login levels *)
Theorem C03_generated_tables_checked : forallb platform_check gen_platforms = true.
Proof. vm_compute. reflexivity. Qed.
Print Assumptions C03_generated_tables_checked.

Theorem C03_levels_on_core_platforms :
  forall P, In P gen_platforms -> forall m0 h,
    In m0 (p_login P) -> forallb (op_neutral P) h = true -> hist_safe P (init P m0) h = true ->
    Forall (step_good P) (run_hist P (init P m0) h).
Proof. exact (levels_on_checked gen_platforms C03_generated_tables_checked). Qed.
Print Assumptions C03_levels_on_core_platforms.

(* shape facts of the generated tables the reading of the property relies on *)
Theorem C03_generated_shape :
  length gen_platforms = 5
  /\ forallb (fun P => negb (Nat.eqb (p_default P) (p_cfg P)) && (0 <? length (p_login P))
                       && (length (p_regs P) =? match length (p_cands P) with 0 => 1 | 1 => 2 | 2 => 5 | _ => 0 end))
             gen_platforms = true.
Proof. split; vm_compute; reflexivity. Qed.
Print Assumptions C03_generated_shape.
