(* C03 — commands and configs are only ever sent at the right privilege level.
   This file contains only the property theorems (closed by [exact] / decided by vm_compute over the
   tables regenerated from the source) and Print Assumptions. *)
From Coq Require Import List Arith Bool.
Import ListNotations.
From Verif Require Import NetDriver NetDriver_Proofs.
From Gen Require Import Gen_NetDriver.

(* For EVERY platform table passing the computed check, every login level and EVERY finite history of
   open / send_command(s) / send_config(s) (failing lines, stop_on_failed, abort) / acquire_priv /
   send_interactive / register_configuration_session / generic-mode toggles whose user lines are
   mode-neutral (the proviso) and which resets the belief only while the device's prompt is unambiguous
   (the complement of the finding's region): every operation has the specified outcome, the user lines
   that reach the device are exactly the expected ones, each executed in the required level
   (send_command(s): default_desired while generic mode is off; send_config(s): exactly the requested
   level; send_interactive: the level asked for), and afterwards the belief is DUMMY or the device's mode. *)
Theorem C03_levels_partial :
  forall P, platform_check P = true -> forall m0 h,
    In m0 (p_login P) -> forallb (op_neutral P) h = true -> hist_safe P (init P m0) h = true ->
    Forall (step_good P) (run_hist P (init P m0) h).
Proof. exact levels_partial. Qed.
Print Assumptions C03_levels_partial.

Theorem C03_belief_sound :
  forall P, platform_check P = true -> forall m0 h,
    In m0 (p_login P) -> forallb (op_neutral P) h = true -> hist_safe P (init P m0) h = true ->
    Forall (fun t => belief_sound (snd t)) (run_hist P (init P m0) h).
Proof. exact belief_sound_hist. Qed.
Print Assumptions C03_belief_sound.

(* one operation from ANY state satisfying the invariant (not only states reached from login) *)
Theorem C03_step :
  forall P, platform_check P = true -> forall s o s' seg res,
    Inv P s -> op_neutral P o = true -> op_safe P s o = true -> run_op P s o = (s', seg, res) ->
    Inv P s' /\ op_spec P s o seg res.
Proof. exact step_ok. Qed.
Print Assumptions C03_step.

(* acquire_priv's own counter (2 * number of levels) is what ends its loop, whatever the device and the belief:
   the model's fuel never decides an outcome *)
Theorem C03_acquire_never_out_of_fuel : forall P r b m d, snd (acquire P r b m d) <> OutOfFuel.
Proof. exact acquire_never_out_of_fuel. Qed.
Print Assumptions C03_acquire_never_out_of_fuel.

(* the statement without the restriction is false of the faithful model: shared prompt + belief reset *)
Theorem C03_full_refuted : ~ C03_full.
Proof. exact full_refuted. Qed.
Print Assumptions C03_full_refuted.

(* tie to the current source tree: the five tables regenerated from PRIVS / _abort_config / on_open and the
   vendor device tables pass the check — navigation from every sound (belief, mode) to every level under
   every reachable key order, the abort steps, registration closure, login levels *)
Theorem C03_generated_tables_checked : forallb platform_check gen_platforms = true.
Proof. vm_compute. reflexivity. Qed.
Print Assumptions C03_generated_tables_checked.

Theorem C03_levels_on_core_platforms :
  forall P, In P gen_platforms -> forall m0 h,
    In m0 (p_login P) -> forallb (op_neutral P) h = true -> hist_safe P (init P m0) h = true ->
    Forall (step_good P) (run_hist P (init P m0) h).
Proof. exact (levels_on_checked gen_platforms C03_generated_tables_checked). Qed.
Print Assumptions C03_levels_on_core_platforms.

(* shape facts of the generated tables the reading of the property relies on *)
Theorem C03_generated_shape :
  length gen_platforms = 5
  /\ forallb (fun P => negb (Nat.eqb (p_default P) (p_cfg P)) && (0 <? length (p_login P))
                       && (length (p_regs P) =? match length (p_cands P) with 0 => 1 | 1 => 2 | 2 => 5 | _ => 0 end))
             gen_platforms = true.
Proof. split; vm_compute; reflexivity. Qed.
Print Assumptions C03_generated_shape.
