(* C15 — Telnet option negotiation is invisible and independent of TCP segmentation.
   This file contains only the property theorems (closed by [exact]) and Print Assumptions. *)
From Verif Require Import Bytes Telnet Telnet_Proofs.
From Gen Require Import Gen_Telnet.

(* For every stream of the negotiation grammar (application data free of IAC, interleaved with
   commands IAC verb opt, any verb, any option; at most [limit] commands for the counting = sync
   transport), and EVERY segmentation of it into non-empty recv() results: the concatenation of
   what the successive read() calls return is the data with NULs dropped, and the bytes written
   back are the correct reply to every command, in order. *)
Theorem C15_negotiation_invisible :
  forall (counting : bool) (limit : nat) (ts : list tok) (chunks : list bytes),
    toks_ok ts = true -> (0 < limit)%nat -> (counting = true -> (ncmds ts <= limit)%nat) ->
    Forall nonempty chunks -> concat chunks = stream ts ->
    run true counting limit chunks = (spec_data ts, spec_replies ts).
Proof. exact negotiation_invisible. Qed.
Print Assumptions C15_negotiation_invisible.

Theorem C15_seg_independent :
  forall counting limit ts chunks1 chunks2,
    toks_ok ts = true -> (0 < limit)%nat -> (counting = true -> (ncmds ts <= limit)%nat) ->
    Forall nonempty chunks1 -> Forall nonempty chunks2 ->
    concat chunks1 = stream ts -> concat chunks2 = stream ts ->
    run true counting limit chunks1 = run true counting limit chunks2.
Proof. exact seg_independent. Qed.
Print Assumptions C15_seg_independent.

Theorem C15_sync_eq_async :
  forall limit ts chunks1 chunks2,
    toks_ok ts = true -> (0 < limit)%nat -> (ncmds ts <= limit)%nat ->
    Forall nonempty chunks1 -> Forall nonempty chunks2 ->
    concat chunks1 = stream ts -> concat chunks2 = stream ts ->
    run true true limit chunks1 = run true false limit chunks2.
Proof. exact sync_eq_async. Qed.
Print Assumptions C15_sync_eq_async.

(* the handler with a per-call control buffer (the pinned commit) is refuted *)
Theorem C15_local_control_buf_refuted :
  exists ts chunks, toks_ok ts = true /\ (ncmds ts <= 10)%nat /\ Forall nonempty chunks /\
    concat chunks = stream ts /\ run false true 10 chunks <> (spec_data ts, spec_replies ts).
Proof. exact seg_independent_refuted_for_local_control_buf. Qed.
Print Assumptions C15_local_control_buf_refuted.

(* tie to the constants of the current source tree (regenerated on every run) *)
Theorem C15_generated_constants :
  (gen_IAC, gen_DONT, gen_DO, gen_WONT, gen_WILL, gen_SGA, gen_NULL) = (IAC, DONT, DO, WONT, WILL, SGA, NUL)
  /\ (0 < gen_limit_sync)%nat /\ (0 < gen_limit_async)%nat /\ (10 <= gen_limit_sync)%nat.
Proof. repeat split; vm_compute; repeat constructor. Qed.
Print Assumptions C15_generated_constants.
