(* C15 — Telnet option negotiation is invisible and independent of TCP segmentation.
   This file contains only the property theorems (closed by [exact]) and Print Assumptions. *)
From Verif Require Import Bytes Telnet Telnet_Proofs.
From Gen Require Import Gen_Telnet.

(* For every stream of the negotiation grammar (application data free of IAC, interleaved with
   commands IAC verb opt, any verb, any option; at most [limit] commands for the counting = sync
   transport), and EVERY segmentation of it into non-empty recv() results: the concatenation of
   what the successive read() calls return is the data with NULs dropped, and the bytes written
   back are the correct reply to every command, in order. *)
Theorem C15_negotiation_invisible :
  forall (counting : bool) (limit : nat) (ts : list tok) (chunks : list bytes),
    toks_ok ts = true -> (0 < limit)%nat -> (counting = true -> (ncmds ts <= limit)%nat) ->
    Forall nonempty chunks -> concat chunks = stream ts ->
    run true counting limit chunks = (spec_data ts, spec_replies ts).
Proof. exact negotiation_invisible. Qed.
Print Assumptions C15_negotiation_invisible.

Theorem C15_seg_independent :
  forall counting limit ts chunks1 chunks2,
    toks_ok ts = true -> (0 < limit)%nat -> (counting = true -> (ncmds ts <= limit)%nat) ->
    Forall nonempty chunks1 -> Forall nonempty chunks2 ->
    concat chunks1 = stream ts -> concat chunks2 = stream ts ->
    run true counting limit chunks1 = run true counting limit chunks2.
Proof. exact seg_independent. Qed.
Print Assumptions C15_seg_independent.

Theorem C15_sync_eq_async :
  forall limit ts chunks1 chunks2,
    toks_ok ts = true -> (0 < limit)%nat -> (ncmds ts <= limit)%nat ->
    Forall nonempty chunks1 -> Forall nonempty chunks2 ->
    concat chunks1 = stream ts -> concat chunks2 = stream ts ->
    run true true limit chunks1 = run true false limit chunks2.
Proof. exact sync_eq_async. Qed.
Print Assumptions C15_sync_eq_async.

(* the handler with a per-call control buffer (the pinned commit) is refuted *)
Theorem C15_local_control_buf_refuted :
  exists ts chunks, toks_ok ts = true /\ (ncmds ts <= 10)%nat /\ Forall nonempty chunks /\
    concat chunks = stream ts /\ run false true 10 chunks <> (spec_data ts, spec_replies ts).
Proof. exact seg_independent_refuted_for_local_control_buf. Qed.
Print Assumptions C15_local_control_buf_refuted.

(* tie to the constants of the current source tree (regenerated on every run) *)
Theorem C15_generated_constants :
  (gen_IAC, gen_DONT, gen_DO, gen_WONT, gen_WILL, gen_SGA, gen_NULL) = (IAC, DONT, DO, WONT, WILL, SGA, NUL)
  /\ (0 < gen_limit_sync)%nat /\ (0 < gen_limit_async)%nat /\ (10 <= gen_limit_sync)%nat.
Proof. repeat split; vm_compute; repeat constructor. Qed.
Print Assumptions C15_generated_constants.

(* several sessions on ONE transport object (open() again after close(), after a connection the
   peer reset + close(), after a reset without close()): every session is negotiated like a first
   one -- its data is its stream minus the negotiation, its connection gets the reply to each of
   its commands -- for every segmentation of every session and whatever state [st] the earlier
   sessions (any streams, cut anywhere, stopped anywhere) left on the transport object *)
Theorem C15_sessions_invisible :
  forall (counting : bool) (limit : nat) (tss : list (list tok)) (ss : list (list bytes)) (st : tstate),
    (0 < limit)%nat -> Forall2 (session_ok counting limit) tss ss ->
    run_sessions true true counting limit st ss = map (fun ts => (spec_data ts, spec_replies ts)) tss.
Proof. exact sessions_invisible. Qed.
Print Assumptions C15_sessions_invisible.

(* an open() that keeps the negotiation state (answered-commands counter, pending control
   sequence) of the previous session is refuted, for the counting transport by the counter and for
   both by a session that stopped inside a command *)
Theorem C15_kept_negotiation_state_refuted :
  (exists tss ss, Forall2 (session_ok true 10) tss ss /\
     run_sessions true false true 10 t_init ss <> map (fun ts => (spec_data ts, spec_replies ts)) tss) /\
  (exists ts1 tail ts2 c2, session_ok false 10 ts2 c2 /\ toks_ok ts1 = true /\
     (run_sessions true true false 10 t_init [[stream ts1 ++ tail]; c2]
       = [(spec_data ts1, spec_replies ts1); (spec_data ts2, spec_replies ts2)]) /\
     (run_sessions true false false 10 t_init [[stream ts1 ++ tail]; c2]
       <> [(spec_data ts1, spec_replies ts1); (spec_data ts2, spec_replies ts2)])).
Proof. exact sessions_refuted_when_negotiation_state_survives. Qed.
Print Assumptions C15_kept_negotiation_state_refuted.
