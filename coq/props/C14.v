(* C14 — per-call timeout overrides never outlive the call.
   This file contains only the property theorems (closed by [exact]), the obligations over the
   regenerated Gen_Timeouts.v (decided by computation) and Print Assumptions. *)
From Verif Require Import TimeoutRestore TimeoutRestore_Proofs TimeoutSites TimeoutOverlap TimeoutOverlap_Proofs.
From Gen Require Import Gen_Timeouts.

(* For the code as it is now (restores in finally), for EVERY sequence of calls of the operations that
   accept a per-call timeout, EVERY override value / read_duration / read_timeout / next_timeout, EVERY
   outcome of every step (success, failed command, ScrapliTimeout, connection error, closed transport,
   privilege error, exception inside a callback, interrupt, a read that never returns) and callbacks
   that leave the timeouts alone (they may run such calls themselves: C14_callbacks_may_nest):
   timeout_ops and timeout_transport are afterwards what they were before. *)
Theorem C14_timeouts_restored :
  forall (c : cfg) (l : list op) (s : st),
    fin c = true -> Forall (wf_op false c) l ->
    ops (fst (run_ops c l s)) = ops s /\ tr (fst (run_ops c l s)) = tr s.
Proof. exact timeouts_restored. Qed.
Print Assumptions C14_timeouts_restored.

(* ... and so is the timeout pushed into the library session (paramiko / ssh2), when it agreed with
   timeout_transport before and no read_callback stage loses the transport between its two pushes *)
Theorem C14_session_timeout_restored :
  forall (c : cfg) (l : list op) (s : st),
    fin c = true -> Forall (wf_op true c) l -> inv c s ->
    core (fst (run_ops c l s)) = core s.
Proof. exact session_timeout_restored. Qed.
Print Assumptions C14_session_timeout_restored.

Theorem C14_call_restores :
  forall (c : cfg) (x : op) (s s' : st) (out : outcome),
    fin c = true -> wf_op true c x -> inv c s -> run_op c x s = (s', out) -> core s' = core s.
Proof. exact call_restores. Qed.
Print Assumptions C14_call_restores.

Theorem C14_call_without_callbacks_restores :
  forall (c : cfg) (x : op) (s : st),
    fin c = true -> no_callbacks x ->
    ops (fst (run_op c x s)) = ops s /\ tr (fst (run_op c x s)) = tr s.
Proof. exact call_without_callbacks_restores. Qed.
Print Assumptions C14_call_without_callbacks_restores.

Theorem C14_callbacks_may_nest :
  forall b c l raise,
    Forall (wf_op b c) l -> (fin c = true \/ Forall benign l) -> cb_ok b c (cb_of_ops c l raise).
Proof. exact cb_of_ops_ok. Qed.
Print Assumptions C14_callbacks_may_nest.

Theorem C14_every_outcome_occurs :
  forall out : outcome, exists x, no_callbacks x /\ snd (run_op (cfg_now true) x s30) = out.
Proof. exact every_outcome_occurs. Qed.
Print Assumptions C14_every_outcome_occurs.

Theorem C14_override_in_effect :
  forall c v r s, v <> ops s -> (forall e, r <> BPre e) ->
    hd_error (log (fst (run_op c (OSendCommand (OvVal v) r) s))) = Some (PhIo, (v, tr s, sess s)).
Proof. exact override_in_effect. Qed.
Print Assumptions C14_override_in_effect.

(* degenerate arguments (empty batch / empty config string / file without a line; an argument of the wrong type, a file that
   is not there): no decorated call is reached, so whatever override was passed is never set - the state, observations
   included, is exactly what it was *)
Theorem C14_degenerate_calls_touch_nothing :
  forall c o stop e x s,
    run_op c (OSendCommands o stop []) s = (s, Ok)
    /\ run_op c (ONet PNone (OSendCommands o stop [])) s = (s, Ok)
    /\ run_op c (ONet (PNoIo e) x) s = (s, Raised e)
    /\ core (fst (run_op c (OSendCommands o stop [BPre e]) s)) = core s.
Proof. exact degenerate_calls_touch_nothing. Qed.
Print Assumptions C14_degenerate_calls_touch_nothing.

(* the thread based timeout of the sync stack (system / telnet transports, windows, off the main thread):
   the pool's exit joins the worker, so when ScrapliTimeout reaches the caller the worker has left the
   timed read loop through its finally: both timeouts (and the session's) are what they were at the moment
   the call ENDS, and no thread is left that could write them afterwards.  [joins] is [gen_pool_joins],
   read from the source on every run (C14_thread_timeout_joins_its_worker). *)
Theorem C14_thread_timeout_restores_before_the_call_ends :
  forall (c : cfg) (o : ov) (w : wpos) (k : wake) (s : st),
    fin c = true -> p_out (pool_call c true o w k s) <> Blocks ->
    core (p_state (pool_call c true o w k s)) = core s /\ p_late (pool_call c true o w k s) = None.
Proof. exact pool_call_restores. Qed.
Print Assumptions C14_thread_timeout_restores_before_the_call_ends.

Theorem C14_thread_timeout_call_ends_unless_read_never_wakes :
  forall c joins o w k s,
    p_out (pool_call c joins o w k s) = Blocks <-> (joins = true /\ k = WakeNever /\ o <> OvBad).
Proof. exact pool_call_blocks_iff. Qed.
Print Assumptions C14_thread_timeout_call_ends_unless_read_never_wakes.

(* without the join the statement is false: the read duration is the connection's timeout_transport when the
   call has ended, and the abandoned worker's restore later overwrites what the user assigned meanwhile *)
Theorem C14_thread_timeout_unjoined_refuted :
  forall hs, p_out (pool_witness hs) = Raised ETimeout /\ ops (p_state (pool_witness hs)) = 30000
             /\ tr (p_state (pool_witness hs)) = 5000.
Proof. exact pool_unjoined_refuted. Qed.
Print Assumptions C14_thread_timeout_unjoined_refuted.

Theorem C14_thread_timeout_unjoined_late_write :
  forall hs, tr (user_sets (mkcfg true hs) (Some (20000, 11000)) (p_state (pool_witness hs))) = 11000
             /\ tr (settled (mkcfg true hs) (Some (20000, 11000)) (pool_witness hs)) = 30000.
Proof. exact pool_unjoined_late_write. Qed.
Print Assumptions C14_thread_timeout_unjoined_late_write.

(* ---- calls on SEVERAL connections, interleaved (asyncio tasks, threads): timeout_modifier wraps a METHOD, one
   wrapper for all connections.  With the saved value in a local of the wrapper CALL (SlotLocal; read from the
   source: C14_saved_value_is_a_local_of_the_call), for EVERY number of connections and EVERY schedule that
   interleaves their calls, at EVERY moment of the run a connection that is not inside a call has ITS OWN
   timeouts (in particular when its call has just ended, and when all calls have ended) *)
Theorem C14_overlapping_calls_restore_each_connection :
  forall (l : list ev) (c0 : nat -> st) (w' : world),
    run SlotLocal l (world0 c0) = Some w' -> forall i, idle w' i -> core (w_conn w' i) = core (c0 i).
Proof. exact interleaving_preserves_restore. Qed.
Print Assumptions C14_overlapping_calls_restore_each_connection.

(* the connections' automata have disjoint state: what connection i goes through in the interleaved run is what it
   goes through when its own events run alone *)
Theorem C14_interleaving_is_a_product :
  forall (l : list ev) (c0 : nat -> st) (w' : world) (i : nat),
    run SlotLocal l (world0 c0) = Some w' ->
    exists w'', run SlotLocal (on i l) (world0 c0) = Some w''
                /\ w_conn w'' i = w_conn w' i /\ w_frame w'' i = w_frame w' i.
Proof. exact interleaving_is_a_product. Qed.
Print Assumptions C14_interleaving_is_a_product.

(* while a call is in flight its connection's I/O sees ITS override, whatever the other connections do meanwhile *)
Theorem C14_own_override_in_effect_during_overlap :
  forall k w i v w1 l w2 p,
    step k w (EvEnter i (OvVal v)) = Some w1 -> v <> ops (w_conn w i) ->
    Forall (fun e => ev_conn e <> i) l -> run k l w1 = Some w2 ->
    exists w3, step k w2 (EvIo i p) = Some w3
               /\ hd_error (log (w_conn w3 i)) = Some (p, (v, tr (w_conn w i), sess (w_conn w i))).
Proof. exact own_override_in_effect. Qed.
Print Assumptions C14_own_override_in_effect_during_overlap.

(* a slot shared between the connections (a nonlocal of the decorator, a module / class attribute) is refuted: two
   connections configured with 10 s and 60 s, nested or staggered calls: the call that started first ends with the
   OTHER connection's 60 s - although the same events of that connection alone restore its 10 s *)
Theorem C14_shared_slot_refuted : ~ C14_overlap_full SlotShared.
Proof. exact shared_slot_refutes_full. Qed.
Print Assumptions C14_shared_slot_refuted.

Theorem C14_shared_slot_witnesses :
  final_ops SlotShared nested_schedule (two conn_a conn_b) 0 = Some (true, 60000)
  /\ final_ops SlotShared nested_schedule (two conn_a conn_b) 1 = Some (true, 60000)
  /\ final_ops SlotShared staggered_schedule (two conn_a conn_b) 0 = Some (true, 60000).
Proof. exact shared_slot_refuted. Qed.
Print Assumptions C14_shared_slot_witnesses.

Theorem C14_shared_slot_is_not_a_product :
  final_ops SlotShared (on 0 nested_schedule) (two conn_a conn_b) 0 = Some (true, 10000)
  /\ final_ops SlotShared nested_schedule (two conn_a conn_b) 0 = Some (true, 60000).
Proof. exact shared_slot_not_a_product. Qed.
Print Assumptions C14_shared_slot_is_not_a_product.

(* ... and it cannot be seen without overlap: a call nobody interleaves with restores with either slot; such a call
   is TimeoutRestore's with_override *)
Theorem C14_without_overlap_either_slot_restores :
  forall k i o n w, o <> OvBad -> idle w i ->
    exists w', run k (call_events i o n) w = Some w' /\ idle w' i /\ core (w_conn w' i) = core (w_conn w i).
Proof. exact shared_slot_sequential_restores. Qed.
Print Assumptions C14_without_overlap_either_slot_restores.

Theorem C14_single_call_is_with_override :
  forall k o n c0 i, o <> OvBad ->
    exists w', run k (call_events i o n) (world0 c0) = Some w'
               /\ core (w_conn w' i) = core (fst (with_override o (fun s => (ticks PhIo n s, Ok)) (c0 i))).
Proof. exact single_call_is_with_override. Qed.
Print Assumptions C14_single_call_is_with_override.

(* the code of the pinned commit (restore after the loop / on match / on ScrapliTimeout only) *)
Theorem C14_pinned_refuted : forall hs, ~ C14_full (cfg_pinned hs).
Proof. exact pinned_refuted. Qed.
Print Assumptions C14_pinned_refuted.

Theorem C14_pinned_partial :
  forall (c : cfg) (l : list op) (s : st),
    Forall (wf_op true c) l -> Forall benign l -> inv c s -> core (fst (run_ops c l s)) = core s.
Proof. exact pinned_partial. Qed.
Print Assumptions C14_pinned_partial.

(* ---- tie to the current source tree (Gen_Timeouts.v is regenerated on every run) ------------------ *)
(* every method that accepts timeout_ops / read_duration / read_timeout is one the model covers, the
   decorated ones are the expected ones, and no other method of those classes assigns a timeout *)
Theorem C14_every_operation_is_modelled :
  gen_timeout_methods = modelled_methods /\ gen_decorated = modelled_decorated /\ gen_other_swap_sites = [].
Proof. repeat split; vm_compute; reflexivity. Qed.
Print Assumptions C14_every_operation_is_modelled.

(* timeout_modifier only sees kwargs: every hand-over of timeout_ops is by keyword, no method drops it *)
Theorem C14_timeout_ops_handed_on_by_keyword :
  forallb (fun h => snd h) gen_handovers = true /\ gen_timeout_ops_unused = [] /\ (20 <= length gen_handovers)%nat.
Proof. repeat split; vm_compute; try reflexivity; repeat constructor. Qed.
Print Assumptions C14_timeout_ops_handed_on_by_keyword.

(* [fin c = true] is what the source says: each of the six swaps is covered by a try whose finally restores *)
Theorem C14_every_swap_restores_in_finally :
  map fst gen_swap_sites = swap_site_names /\ forallb site_ok gen_swap_sites = true.
Proof. split; vm_compute; reflexivity. Qed.
Print Assumptions C14_every_swap_restores_in_finally.

(* [SlotLocal] is what the source says: at each of the six swaps the value put back is a local of the function's own
   frame - bound there, once, from the timeout attribute, not nonlocal / global - and nothing is restored from a
   closure, module, class or instance slot *)
Theorem C14_saved_value_is_a_local_of_the_call :
  map fst gen_saved_in_frame = swap_site_names /\ forallb save_ok gen_saved_in_frame = true /\ gen_saved_local = true.
Proof. repeat split; vm_compute; reflexivity. Qed.
Print Assumptions C14_saved_value_is_a_local_of_the_call.

(* ... hence, for the source as it is: *)
Theorem C14_overlapping_calls_restore_as_the_source_is :
  forall (l : list ev) (c0 : nat -> st) (w' : world),
    run (slot_of gen_saved_local) l (world0 c0) = Some w' -> forall i, idle w' i -> core (w_conn w' i) = core (c0 i).
Proof. exact interleaving_preserves_restore. Qed.
Print Assumptions C14_overlapping_calls_restore_as_the_source_is.

(* defaults: no override unless asked for; the default read_timeout / next_timeout are negative, i.e.
   leave the transport timeout alone (negative_read_timeout_is_neutral); read_duration defaults to 2.5 s *)
Theorem C14_defaults :
  forallb default_ok gen_defaults = true /\ (gen_next_timeout_default <? 0)%Z = true
  /\ forallb (fun x => (snd x =? 2500)%Z) gen_read_duration_when_none = true.
Proof. repeat split; vm_compute; reflexivity. Qed.
Print Assumptions C14_defaults.

Theorem C14_default_read_timeout_is_neutral :
  forall c g s, st_closed g = false -> inv c s ->
    core (fst (set_tr_driver c (st_closed g)
                 (if (gen_next_timeout_default >=? 0)%Z then gen_next_timeout_default else tr s) s)) = core s.
Proof. intros c g s; apply negative_read_timeout_is_neutral; vm_compute; reflexivity. Qed.
Print Assumptions C14_default_read_timeout_is_neutral.

(* the thread based timeout joins its worker: the one executor of decorators.py is left through a context
   manager / shutdown(wait=True) in a finally that covers every raise and return, and nothing else in that
   module starts a thread *)
Theorem C14_thread_timeout_joins_its_worker :
  gen_pool_joins = true /\ gen_thread_sites = thread_sites.
Proof. split; vm_compute; reflexivity. Qed.
Print Assumptions C14_thread_timeout_joins_its_worker.

(* ... hence, for the source as it is: *)
Theorem C14_thread_timeout_restores_as_the_source_is :
  forall (c : cfg) (o : ov) (w : wpos) (k : wake) (s : st),
    fin c = true -> p_out (pool_call c gen_pool_joins o w k s) <> Blocks ->
    core (p_state (pool_call c gen_pool_joins o w k s)) = core s /\ p_late (pool_call c gen_pool_joins o w k s) = None.
Proof. exact pool_call_restores. Qed.
Print Assumptions C14_thread_timeout_restores_as_the_source_is.
