(* C18 — the factory builds what direct construction builds; connections are isolated.
   Only the property theorems (closed by [exact], generated facts by vm_compute) and Print Assumptions. *)
From Verif Require Import Bytes Factory Factory_Proofs Heap Heap_Proofs.
From Gen Require Import Gen_Factory.

(* For EVERY keyword dictionary kw (unique keys; any subset of the arguments, any values: False, 0,
   "" and empty containers are values like any other), every core platform p, sync and asyncio:
   when every named argument that is present is not None, Scrapli(platform=p, ...kw) is
   CORE_PLATFORM_MAP[p] called with kw — the same class and fields, or the same exception. *)
Theorem C18_factory_eq_direct :
  forall e async p v kw c cl,
    NoDup (f_params e) -> NoDup (keys kw) -> host_given e kw -> supplied (f_params e) kw ->
    mixup (f_te e) async (getd k_transport kw) = false ->
    lookup p (f_core e async) = Some c -> find_cls e c = Some cl ->
    factory e async (Some p) v kw = construct (f_te e) cl kw.
Proof. exact factory_eq_direct. Qed.
Print Assumptions C18_factory_eq_direct.

(* ... and in general (an argument given as None is an argument not given) *)
Theorem C18_factory_eq_direct_general :
  forall e async p v kw c cl,
    NoDup (f_params e) -> NoDup (keys kw) -> host_given e kw ->
    mixup (f_te e) async (getd k_transport kw) = false ->
    lookup p (f_core e async) = Some c -> find_cls e c = Some cl ->
    factory e async (Some p) v kw = construct (f_te e) cl (drop_none (f_params e) kw).
Proof. exact factory_eq_direct_general. Qed.
Print Assumptions C18_factory_eq_direct_general.

(* every supplied argument reaches the constructor with the value given, whatever its truth value;
   what is not a named parameter (the extra kwargs) is forwarded even when None; nothing else is passed *)
Theorem C18_falsy_take_effect :
  forall e async p variant kw c k v,
    NoDup (f_params e) -> NoDup (keys kw) -> host_given e kw ->
    mixup (f_te e) async (getd k_transport kw) = false ->
    lookup p (f_core e async) = Some c ->
    get k kw = Some v -> (In k (f_params e) -> v <> VNone) ->
    exists fk, factory_call e async (Some p) variant kw = Call c fk /\ get k fk = Some v.
Proof. exact falsy_take_effect. Qed.
Print Assumptions C18_falsy_take_effect.

Theorem C18_nothing_invented :
  forall e async p variant kw c k v,
    NoDup (f_params e) -> NoDup (keys kw) -> host_given e kw ->
    mixup (f_te e) async (getd k_transport kw) = false ->
    lookup p (f_core e async) = Some c ->
    forall fk, factory_call e async (Some p) variant kw = Call c fk -> get k fk = Some v -> get k kw = Some v.
Proof. exact nothing_invented. Qed.
Print Assumptions C18_nothing_invented.

(* community platform: for every key, the user's (non-None) value if there is one, else the
   platform's default / variant value (deep-copied, on_open / on_close picked for the family) *)
Theorem C18_user_overrides_community :
  forall e async p variant kw cm0 c add fk,
    NoDup (f_params e) -> NoDup (keys kw) ->
    factory_call e async (Some p) variant kw = Call c fk ->
    lookup p (f_core e async) = None ->
    lookup (dotted p) (f_community e) = Some (Some cm0) ->
    driver_kwargs (mkCom (cm_driver_type cm0) (deepcopy_kw (cm_defaults cm0))
                         (map (fun x => (fst x, (fst (snd x), deepcopy_kw (snd (snd x))))) (cm_variants cm0)))
                  variant async = Ok add ->
    forall k, get k fk = match forwarded (f_params e) kw k with Some v => Some v | None => get k add end.
Proof. exact user_overrides_community. Qed.
Print Assumptions C18_user_overrides_community.

(* rejections, whatever the other arguments are *)
Theorem C18_rejects_explicit_mixup :
  forall e async platform variant kw,
    host_given e kw -> mixup (f_te e) async (getd k_transport kw) = true ->
    factory e async platform variant kw = Raised ScrapliValueError.
Proof. exact rejects_explicit_mixup. Qed.
Print Assumptions C18_rejects_explicit_mixup.

Theorem C18_rejects_unknown_platform :
  forall e async p variant kw,
    host_given e kw -> lookup p (f_core e async) = None ->
    (lookup (dotted p) (f_community e) = None \/ lookup (dotted p) (f_community e) = Some None) ->
    exists x, factory e async (Some p) variant kw = Raised x /\ scrapli_error x = true.
Proof. exact rejects_unknown_platform. Qed.
Print Assumptions C18_rejects_unknown_platform.

Theorem C18_rejects_non_str_platform :
  forall e async variant kw, host_given e kw ->
    exists x, factory e async None variant kw = Raised x /\ scrapli_error x = true.
Proof. exact rejects_non_str_platform. Qed.
Print Assumptions C18_rejects_non_str_platform.

(* no path through either factory builds a driver whose transport belongs to the other family
   (this covers the implicit mix-up: AsyncScrapli without transport, community default transports) *)
Theorem C18_built_never_mixed :
  forall e async platform variant kw cid fields,
    factory e async platform variant kw = Built cid fields ->
    exists cl tr, find_cls e cid = Some cl /\ mixup (f_te e) (c_async cl) (VStr tr) = false.
Proof. exact built_never_mixed. Qed.
Print Assumptions C18_built_never_mixed.

(* isolation: for EVERY history (any interleaving of creating connections, registering sessions,
   editing levels, appending failure strings) from a well-formed initial heap *)
Theorem C18_isolation_defs :
  forall s ops, init_ok s = true -> view_defs (run s ops) = view_defs s.
Proof. exact isolation_defs_ok. Qed.
Print Assumptions C18_isolation_defs.

Theorem C18_isolation_conns :
  forall s ops o j, init_ok s = true ->
    (j < length (st_conns (run s ops)))%nat -> target o <> Some j ->
    view_conn (fst (step (run s ops) o)) j = view_conn (run s ops) j.
Proof. exact isolation_conns_ok. Qed.
Print Assumptions C18_isolation_conns.

Theorem C18_isolation_untouched :
  forall s ops1 ops2 j, init_ok s = true ->
    (j < length (st_conns (run s ops1)))%nat -> Forall (fun o => target o <> Some j) ops2 ->
    view_conn (run (run s ops1) ops2) j = view_conn (run s ops1) j.
Proof. exact isolation_untouched_ok. Qed.
Print Assumptions C18_isolation_untouched.

(* behaviour: every answer that is a function of the connection's own tables -- the classification of a
   prompt by _determine_current_priv read without its cache is one, `classify m` for any regex matcher m --
   is the same before and after any operation(s) on other connections.  That the real code's answers ARE
   such a function (no cache or other state shared between connections) is what harness/c18_iso.py observes. *)
Theorem C18_isolation_answers :
  forall (Q R : Type) (f : conn_view -> Q -> R) s ops o j q, init_ok s = true ->
    (j < length (st_conns (run s ops)))%nat -> target o <> Some j ->
    answer f (fst (step (run s ops) o)) j q = answer f (run s ops) j q.
Proof. exact isolation_answers_ok. Qed.
Print Assumptions C18_isolation_answers.

Theorem C18_isolation_answers_untouched :
  forall (Q R : Type) (f : conn_view -> Q -> R) s ops1 ops2 j q, init_ok s = true ->
    (j < length (st_conns (run s ops1)))%nat -> Forall (fun o => target o <> Some j) ops2 ->
    answer f (run (run s ops1) ops2) j q = answer f (run s ops1) j q.
Proof. exact isolation_answers_untouched_ok. Qed.
Print Assumptions C18_isolation_answers_untouched.

Theorem C18_isolation_classification :
  forall m s ops o j prompt, init_ok s = true ->
    (j < length (st_conns (run s ops)))%nat -> target o <> Some j ->
    answer (classify m) (fst (step (run s ops) o)) j prompt = answer (classify m) (run s ops) j prompt.
Proof. exact (fun m => isolation_answers_ok bytes (option (list bytes)) (classify m)). Qed.
Print Assumptions C18_isolation_classification.

(* ---- tie to the current source tree (Gen_Factory.v is regenerated on every run) ------------------- *)
(* the heap built from the real PRIVS / FAILED_WHEN_CONTAINS of the five platforms is well-formed,
   so the isolation theorems apply to it *)
Theorem C18_gen_init_ok : init_ok gen_init = true.
Proof. vm_compute. reflexivity. Qed.
Print Assumptions C18_gen_init_ok.

Theorem C18_gen_isolation_defs : forall ops, view_defs (run gen_init ops) = view_defs gen_init.
Proof. exact (fun ops => isolation_defs_ok gen_init ops C18_gen_init_ok). Qed.
Print Assumptions C18_gen_isolation_defs.

(* the keys of _provided_args are distinct, are exactly the parameters of _build_provided_kwargs_dict,
   and both factories take exactly platform, host (required), those keys and variant (default None) *)
Theorem C18_gen_params_nodup : NoDup gen_provided_keys.
Proof. apply nodup_keysb_spec. vm_compute. reflexivity. Qed.
Print Assumptions C18_gen_params_nodup.

Theorem C18_gen_signatures :
  same_keys gen_build_params gen_provided_keys = true
  /\ new_sig_ok gen_provided_keys gen_new_sync = true
  /\ new_sig_ok gen_provided_keys gen_new_async = true
  /\ gen_required = [k_host]
  /\ forallb (fun t => existsb (beq t) (core_transports gen_tenv)) (asyncio_transports gen_tenv) = true.
Proof. repeat split; vm_compute; reflexivity. Qed.
Print Assumptions C18_gen_signatures.

(* every class in CORE_PLATFORM_MAP (both factories) accepts every forwarded key, is of the
   factory's family, and replaces absent tables by COPIES of the platform's, absent hooks by callables *)
Theorem C18_gen_core_classes : core_classes_ok (gen_fenv [] []) = true.
Proof. vm_compute. reflexivity. Qed.
Print Assumptions C18_gen_core_classes.

(* with nothing but a host: Scrapli builds all five, AsyncScrapli (default transport is the sync
   "system") rejects all five with ScrapliValueError; unknown platform names are rejected *)
Theorem C18_gen_defaults :
  forallb (fun pc => is_built (factory (gen_fenv [] []) false (Some (fst pc)) VNone [(k_host, VStr s_h)])) gen_core_sync = true
  /\ forallb (fun pc => raises ScrapliValueError (factory (gen_fenv [] []) true (Some (fst pc)) VNone [(k_host, VStr s_h)])) gen_core_async = true
  /\ length gen_core_sync = 5%nat /\ length gen_core_async = 5%nat
  /\ raises ScrapliModuleNotFound (factory (gen_fenv [] []) false (Some s_h) VNone [(k_host, VStr s_h)]) = true.
Proof. repeat split; vm_compute; reflexivity. Qed.
Print Assumptions C18_gen_defaults.

(* the general theorem instantiated at the generated environment: for every core platform of
   either factory and every dictionary of supplied arguments *)
Theorem C18_gen_factory_eq_direct :
  forall ct async p v kw c cl,
    NoDup (keys kw) -> get k_host kw <> None -> supplied gen_provided_keys kw ->
    mixup gen_tenv async (getd k_transport kw) = false ->
    lookup p (if async then gen_core_async else gen_core_sync) = Some c ->
    find_cls (gen_fenv [] ct) c = Some cl ->
    factory (gen_fenv [] ct) async (Some p) v kw = construct gen_tenv cl kw.
Proof.
  intros. apply (factory_eq_direct (gen_fenv [] ct) async p v kw c cl); auto.
  - exact C18_gen_params_nodup.
  - intros r [Hr|[]]. subst. exact H0.
Qed.
Print Assumptions C18_gen_factory_eq_direct.
