(* C04 — acquire_priv reaches the target level or fails in bounded steps.
   This file contains only the property theorems (closed by [exact] / by computation over the
   regenerated tables) and Print Assumptions. *)
From Verif Require Import Bytes PrivGraph PrivGraph_Proofs.
From Gen Require Import Gen_PrivGraph.
Local Open Scope nat_scope.

(* For EVERY privilege table whose previous_priv pointers form a tree (depth function, common root),
   EVERY iteration order of the graph sets, a prompt classification that is exact on levels having
   a child (leaves may share prompts), a device that answers get_prompt and performs the requested
   single-step transitions, and every ordered pair (src the driver has navigated to, dst):
   acquire_priv(dst) returns normally with device mode = belief = dst, and the transitions it
   attempted are exactly the route (deescalate up to the meeting point, then escalate down), each
   once; their number is at most |levels| - 1, below the loop bound factor*|levels| for any
   factor >= 1 (so the bound never cuts a successful navigation). *)
Theorem C04_nav_reaches :
  forall (N factor : nat) (stop : bool) (parent : nat -> option nat) (auth : nat -> bool)
         (nbrs matches : nat -> list nat) (D : Type) (dmode : D -> nat) (dline : D -> line -> D * reply)
         (depth : nat -> nat) (root : nat),
    (forall n p : nat, parent n = Some p -> depth n = S (depth p)) ->
    (forall a b : nat, In b (nbrs a) <-> parent a = Some b \/ parent b = Some a) ->
    (forall x : nat, valid parent depth root x -> depth x < N) ->
    1 <= factor ->
    (forall x : nat, valid parent depth root x -> x < N) ->
    (forall m : nat, valid parent depth root m -> In m (matches m)) ->
    (forall m c : nat, parent c = Some m -> matches m = [m]) ->
    forall Inv : D -> Prop,
    (forall d : D, Inv d -> exists d' : D, dline d LRet = (d', RPrompt) /\ dmode d' = dmode d /\ Inv d') ->
    (forall (d : D) (p : nat), Inv d -> parent (dmode d) = Some p ->
       exists d' : D, deescalate D dline (dmode d) d = (d', None) /\ dmode d' = p /\ Inv d') ->
    (forall (d : D) (x : nat), Inv d -> parent x = Some (dmode d) ->
       exists d' : D, escalate stop parent auth matches D dmode dline x d = (d', None) /\ dmode d' = x /\ Inv d') ->
    forall (src dst : nat) (d : D),
      valid parent depth root src -> valid parent depth root dst -> dst < N -> Inv d -> dmode d = src ->
      exists d' : D,
        acquire N factor stop parent auth nbrs matches D dmode dline (Some src) dst d =
          (Reached, Some dst, d', route parent depth (2 * N) src dst) /\
        dmode d' = dst /\ length (route parent depth (2 * N) src dst) + 1 <= N.
Proof. exact nav_reaches. Qed.
Print Assumptions C04_nav_reaches.

(* The property has no "mode changed only by the driver's own navigation" proviso (C03 has one): the
   level the device is in may differ from the level the driver REMEMBERS, because a line the user sent
   through send_command / send_configs moved the device.  Same hypotheses, any remembered level (or
   DUMMY), the prompt of the level the device is in matched by that level only: same conclusion. *)
Theorem C04_nav_reaches_stale_belief :
  forall (N factor : nat) (stop : bool) (parent : nat -> option nat) (auth : nat -> bool)
         (nbrs matches : nat -> list nat) (D : Type) (dmode : D -> nat) (dline : D -> line -> D * reply)
         (depth : nat -> nat) (root : nat),
    (forall n p : nat, parent n = Some p -> depth n = S (depth p)) ->
    (forall a b : nat, In b (nbrs a) <-> parent a = Some b \/ parent b = Some a) ->
    (forall x : nat, valid parent depth root x -> depth x < N) ->
    1 <= factor ->
    (forall x : nat, valid parent depth root x -> x < N) ->
    (forall m : nat, valid parent depth root m -> In m (matches m)) ->
    (forall m c : nat, parent c = Some m -> matches m = [m]) ->
    forall Inv : D -> Prop,
    (forall d : D, Inv d -> exists d' : D, dline d LRet = (d', RPrompt) /\ dmode d' = dmode d /\ Inv d') ->
    (forall (d : D) (p : nat), Inv d -> parent (dmode d) = Some p ->
       exists d' : D, deescalate D dline (dmode d) d = (d', None) /\ dmode d' = p /\ Inv d') ->
    (forall (d : D) (x : nat), Inv d -> parent x = Some (dmode d) ->
       exists d' : D, escalate stop parent auth matches D dmode dline x d = (d', None) /\ dmode d' = x /\ Inv d') ->
    forall (belief : option nat) (src dst : nat) (d : D),
      valid parent depth root src -> valid parent depth root dst -> dst < N -> Inv d -> dmode d = src ->
      matches src = [src] ->
      exists d' : D,
        acquire N factor stop parent auth nbrs matches D dmode dline belief dst d =
          (Reached, Some dst, d', route parent depth (2 * N) src dst) /\
        dmode d' = dst /\ length (route parent depth (2 * N) src dst) + 1 <= N.
Proof. exact nav_reaches_stale_belief. Qed.
Print Assumptions C04_nav_reaches_stale_belief.

(* The same for every concrete table that passes the boolean checks evaluated below on the generated
   tables (is_tree, order_ok on the observed set order, cls_ok), levels = indices into the table. *)
Theorem C04_nav_reaches_table :
  forall (t : table) (root : nat) (order cls : list (list nat)) (factor : nat) (stop : bool)
         (D : Type) (dmode : D -> nat) (dline : D -> line -> D * reply) (Inv : D -> Prop),
    is_tree t root = true -> order_ok t order = true -> cls_ok t cls = true -> 1 <= factor ->
    (forall d, Inv d -> exists d', dline d LRet = (d', RPrompt) /\ dmode d' = dmode d /\ Inv d') ->
    (forall d p, Inv d -> parent_of t (dmode d) = Some p ->
       exists d', deescalate D dline (dmode d) d = (d', None) /\ dmode d' = p /\ Inv d') ->
    (forall d x, Inv d -> parent_of t x = Some (dmode d) ->
       exists d', escalate stop (parent_of t) (auth_of t) (fun m => nth m cls []) D dmode dline x d = (d', None)
                  /\ dmode d' = x /\ Inv d') ->
    forall src dst d, src < length t -> dst < length t -> Inv d -> dmode d = src ->
      exists d',
        acquire (length t) factor stop (parent_of t) (auth_of t) (order_nbrs order) (fun m => nth m cls [])
                D dmode dline (Some src) dst d = (Reached, Some dst, d', route_of t src dst)
        /\ dmode d' = dst /\ length (route_of t src dst) + 1 <= length t.
Proof. exact nav_reaches_table. Qed.
Print Assumptions C04_nav_reaches_table.

(* For EVERY device whatsoever (all refusal sets, all password outcomes, any behaviour), every
   graph, classification and belief: acquire_priv ends — never out of fuel — after at most
   factor*|levels|+1 transition attempts. *)
Theorem C04_nav_bounded :
  forall (N factor : nat) (stop : bool) (parent : nat -> option nat) (auth : nat -> bool)
         (nbrs matches : nat -> list nat) (D : Type) (dmode : D -> nat) (dline : D -> line -> D * reply)
         (belief : option nat) (dst : nat) (d : D) (o : outcome) (b : option nat) (d' : D) (tr : list line),
    acquire N factor stop parent auth nbrs matches D dmode dline belief dst d = (o, b, d', tr) ->
    o <> OutOfFuel /\ length tr <= factor * N + 1 /\
    (o = Reached \/ o = PrivilegeError \/ o = AuthFailed \/ o = Timeout \/ o = Crash).
Proof. exact nav_bounded. Qed.
Print Assumptions C04_nav_bounded.

(* On trees the search always finds a map, so the only ways out are success and the scrapli
   privilege / authentication / timeout errors (no IndexError), whatever the device does. *)
Theorem C04_nav_bounded_tree :
  forall (N factor : nat) (stop : bool) (parent : nat -> option nat) (auth : nat -> bool)
         (nbrs matches : nat -> list nat) (D : Type) (dmode : D -> nat) (dline : D -> line -> D * reply)
         (depth : nat -> nat) (root : nat),
    (forall n p : nat, parent n = Some p -> depth n = S (depth p)) ->
    (forall a b : nat, In b (nbrs a) <-> parent a = Some b \/ parent b = Some a) ->
    (forall x : nat, valid parent depth root x -> depth x < N) ->
    (forall m x : nat, In x (matches m) -> valid parent depth root x) ->
    forall (belief : option nat) (dst : nat) (d : D) (o : outcome) (b : option nat) (d' : D) (tr : list line),
      valid parent depth root dst ->
      acquire N factor stop parent auth nbrs matches D dmode dline belief dst d = (o, b, d', tr) ->
      length tr <= factor * N + 1 /\
      (o = Reached \/ o = PrivilegeError \/ o = AuthFailed \/ o = Timeout).
Proof. exact nav_bounded_tree. Qed.
Print Assumptions C04_nav_bounded_tree.

(* HISTORIES of acquire_priv calls on one connection (the device's behaviour may differ from call to
   call).  Every call of every history, whatever the earlier calls ended in, ends within
   factor*|levels|+1 attempts OF ITS OWN, never out of fuel. *)
Theorem C04_calls_bounded :
  forall (N factor : nat) (stop : bool) (parent : nat -> option nat) (auth : nat -> bool)
         (nbrs matches : nat -> list nat) (D : Type) (dmode : D -> nat)
         (cs : list (call D)) (belief : option nat) (d : D),
    Forall (fun r : outcome * option nat * D * list line =>
              let '(o, _, _, tr) := r in
              o <> OutOfFuel /\ length tr <= factor * N + 1 /\
              (o = Reached \/ o = PrivilegeError \/ o = AuthFailed \/ o = Timeout \/ o = Crash))
           (acquire_calls N factor stop parent auth nbrs matches D dmode cs belief d).
Proof. exact calls_bounded. Qed.
Print Assumptions C04_calls_bounded.

(* ... and a call during which the device cooperates reaches its target after ANY history (failed calls
   included), by exactly the route from where the device is: the hypotheses of C04_nav_reaches are asked
   of the LAST call's device only, the device must be at the prompt of a level matched by that level only. *)
Theorem C04_nav_history_reaches :
  forall (N factor : nat) (stop : bool) (parent : nat -> option nat) (auth : nat -> bool)
         (nbrs matches : nat -> list nat) (D : Type) (dmode : D -> nat) (dline : D -> line -> D * reply)
         (depth : nat -> nat) (root : nat),
    (forall n p : nat, parent n = Some p -> depth n = S (depth p)) ->
    (forall a b : nat, In b (nbrs a) <-> parent a = Some b \/ parent b = Some a) ->
    (forall x : nat, valid parent depth root x -> depth x < N) ->
    1 <= factor ->
    (forall x : nat, valid parent depth root x -> x < N) ->
    (forall m : nat, valid parent depth root m -> In m (matches m)) ->
    (forall m c : nat, parent c = Some m -> matches m = [m]) ->
    forall Inv : D -> Prop,
    (forall d : D, Inv d -> exists d' : D, dline d LRet = (d', RPrompt) /\ dmode d' = dmode d /\ Inv d') ->
    (forall (d : D) (p : nat), Inv d -> parent (dmode d) = Some p ->
       exists d' : D, deescalate D dline (dmode d) d = (d', None) /\ dmode d' = p /\ Inv d') ->
    (forall (d : D) (x : nat), Inv d -> parent x = Some (dmode d) ->
       exists d' : D, escalate stop parent auth matches D dmode dline x d = (d', None) /\ dmode d' = x /\ Inv d') ->
    forall (cs : list (call D)) (belief0 : option nat) (d0 : D) (src dst : nat),
      let st := calls_state N factor stop parent auth nbrs matches D dmode cs belief0 d0 in
      valid parent depth root src -> valid parent depth root dst -> dst < N ->
      Inv (snd st) -> dmode (snd st) = src -> matches src = [src] ->
      exists d' : D,
        acquire_calls N factor stop parent auth nbrs matches D dmode (cs ++ [(dline, dst)]) belief0 d0 =
          acquire_calls N factor stop parent auth nbrs matches D dmode cs belief0 d0
          ++ [(Reached, Some dst, d', route parent depth (2 * N) src dst)] /\
        dmode d' = dst /\ length (route parent depth (2 * N) src dst) + 1 <= N.
Proof. exact nav_history_reaches. Qed.
Print Assumptions C04_nav_history_reaches.

(* Refusing devices, partial: with unambiguous prompts a normal return means the device IS in the
   target, for every device.  The full statement (any classification containing the mode) is
   refuted: two levels sharing a prompt + a refused deescalate => normal return in the wrong level. *)
Theorem C04_reached_sound_partial :
  forall (N factor : nat) (stop : bool) (parent : nat -> option nat) (auth : nat -> bool)
         (nbrs matches : nat -> list nat) (D : Type) (dmode : D -> nat) (dline : D -> line -> D * reply),
    (forall m : nat, matches m = [m]) ->
    forall (belief : option nat) (dst : nat) (d : D) (b : option nat) (d' : D) (tr : list line),
      acquire N factor stop parent auth nbrs matches D dmode dline belief dst d = (Reached, b, d', tr) ->
      dmode d' = dst /\ b = Some dst.
Proof. exact reached_sound. Qed.
Print Assumptions C04_reached_sound_partial.

Theorem C04_refusal_full_refuted : ~ Findings.refusal_full.
Proof. exact Findings.refusal_full_refuted. Qed.
Print Assumptions C04_refusal_full_refuted.

(* "using only the single-step commands": false of send_inputs_interact as pinned (auth_secondary is
   typed as a command when no password is asked), true once the interaction stops at a completion
   pattern; which one the source is now is the generated [gen_stop]. *)
Theorem C04_secondary_typed_refuted : ~ Findings.only_route_lines false.
Proof. exact Findings.secondary_typed_refuted. Qed.
Print Assumptions C04_secondary_typed_refuted.

Theorem C04_secondary_not_typed_when_stopping : Findings.only_route_lines true.
Proof. exact Findings.secondary_not_typed_when_stopping. Qed.
Print Assumptions C04_secondary_not_typed_when_stopping.

(* the search: sound and complete on ANY graph, for any neighbour order *)
Theorem C04_dfs_sound :
  forall (nbrs : nat -> list nat) (fuel : nat) (pm : list nat) (cur dst : nat) (res : list nat),
    dfs nbrs fuel pm cur dst = res -> res <> [] -> ~ In cur pm ->
    exists p : list nat,
      res = pm ++ cur :: p /\ chain nbrs cur p /\ lst cur p = dst /\ NoDup (cur :: p)
      /\ (forall y : nat, In y p -> ~ In y pm).
Proof. exact dfs_sound. Qed.
Print Assumptions C04_dfs_sound.

Theorem C04_dfs_complete :
  forall (nbrs : nat -> list nat) (fuel : nat) (pm : list nat) (cur dst : nat) (p : list nat),
    chain nbrs cur p -> lst cur p = dst -> NoDup (cur :: p) ->
    (forall y : nat, In y (cur :: p) -> ~ In y pm) -> length p < fuel ->
    dfs nbrs fuel pm cur dst <> [].
Proof. exact dfs_complete. Qed.
Print Assumptions C04_dfs_complete.

(* ---- over the tables of the CURRENT source tree (regenerated on every run) ---- *)
(* Each of the 5 core platforms, EOS / NX-OS also with 1 and 2 registered sessions: the table is a
   tree, the commands typed in one mode are distinct and non-blank, the observed set iteration order
   lists exactly the tree neighbours; and for ALL ordered pairs, under no / every single / every
   pair of refused transitions, with right / unneeded / unneeded-blank / wrong / absent secondary
   password: success with exactly the route's lines in the device log iff the route avoids the
   refusals and the password is accepted, else PrivilegeError / AuthenticationFailed in front of the
   first blocked hop within factor*|levels|+1 attempts — outside the shared-prompt region. *)
Theorem C04_core_platforms_partial :
  forallb (all_ok true gen_factor gen_stop) gen_platforms = true.
Proof. vm_compute. reflexivity. Qed.
Print Assumptions C04_core_platforms_partial.

(* every generated table, byte-level simulated device, 5 secondary-password situations: from every level
   whose prompt is matched by that level only, with EVERY remembered level (and DUMMY), acquire_priv(dst)
   gives exactly the outcome / belief / device mode / device log / hidden lines / transitions it gives
   when it remembers the right level (which C04_core_platforms_partial pins to the route) *)
Theorem C04_core_platforms_stale_belief :
  forallb (stale_ok gen_factor gen_stop) gen_platforms = true.
Proof. vm_compute. reflexivity. Qed.
Print Assumptions C04_core_platforms_stale_belief.

(* every generated table, byte-level simulated device: call 1 from any level to any target under the 5
   secondary-password situations (device giving 3 password attempts; 1 attempt for the rejected ones) or
   under every single refused transition (password right / not asked) - whatever it ends in, within the
   bound -, then call 2 to any target with the device cooperating and the right secret: whenever call 1
   FAILED and left the device at the prompt of a level matched by that level only (no dialogue pending),
   call 2 ends in its target by exactly the route from where the device is, the device log extended by
   exactly the route's lines *)
Theorem C04_core_platforms_history :
  forallb (history_ok gen_factor gen_stop) gen_platforms = true.
Proof. vm_compute. reflexivity. Qed.
Print Assumptions C04_core_platforms_history.

(* the premises of C04_nav_reaches_table that are about the source: the loop-bound factor; every
   generated table is a tree, with the observed set order and the 'identical pattern text'
   classification passing the checks *)
Theorem C04_generated_bound : 1 <= gen_factor.
Proof. vm_compute. repeat constructor. Qed.
Print Assumptions C04_generated_bound.

Theorem C04_generated_trees :
  forallb (fun p => let '(t, cls, order, root) := p in
             is_tree t root && cmds_ok t && order_ok t order && cls_ok t cls) gen_platforms = true.
Proof. vm_compute. reflexivity. Qed.
Print Assumptions C04_generated_trees.
