#!/bin/bash
# usage: goal.sh file.v LINE  — replay the file up to LINE in coqtop and show the goal
f=$1; n=$2
( head -n "$n" "$f"; echo; echo "Show."; ) | timeout 120 coqtop -Q /verif/coq Verif -quiet 2>&1 | tail -n ${3:-40}
