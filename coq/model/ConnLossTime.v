(* ConnLossTime.v — the read-for-a-duration loop of the channels (C08): Channel / AsyncChannel
   ._read_until_prompt_or_time, reached from send_input_and_read (GenericDriver / NetworkDriver.send_and_read).
   Definitions only; the proofs are in proofs/ConnLossTime_Proofs.v.

   It is the one read loop of the channels beside the Telnet login that has an exception table of its own around
   self.read() (`with suppress(ScrapliTimeout)`): the table is DATA generated from the current source tree
   (Gen_ConnLoss.v: gen_rtime_sync / gen_rtime_async), the loop below is parametrised by it.

       while True:
           with suppress(ScrapliTimeout):  read_buf.write(self.read())         <- [ts], one read() per round
           if time is up: break                                                 <- [fuel]: the rounds the clock allows
           if an expected output / the prompt is in the buffer: break           <- [m]

   Time: [fuel] is the number of further rounds the read duration allows -- the theorems hold for every fuel, so for
   every speed of the machine.  A read() that never returns is the timeout's business ([LBlock], resolved by
   ConnLoss.resolve like that of every other loop; the loop arms int(read_duration) as the transport timeout: that
   variant -- read_duration >= 1 on a silent peer -- is outside this model). *)
From Verif Require Import Bytes ConnLoss.

(* what read() raises for a connection that is lost / was never opened / was closed: everything scrapli but the
   timeout *)
Definition loss_classes : list cls := [SException; SConnectionError; SNotOpened; SAuthFailed].

(* the check on the generated table: no scrapli exception other than a ScrapliTimeout (sub)class is swallowed or
   answered False -- each leaves the loop as a scrapli exception --, and a ScrapliTimeout is swallowed or leaves as a
   scrapli exception *)
Definition rtime_ok (c : cfg) (ts : list table) : bool :=
  forallb (fun x => flow_raised_scrapli c (chain c ts x)) loss_classes
  && flow_good c (chain c ts STimeout).

Fixpoint read_time (c : cfg) (tr : transport) (ts : list table) (m : bytes -> bool) (fuel : nat) (buf : bytes)
         (st : tst) (e : env) (rs : list rev) : lres :=
  match t_read c tr st e rs with
  | (XBytes b, st1, e1, rs1) =>
      match fuel with
      | O => LNext st1 e1 rs1                                   (* the read duration is over *)
      | S k => if m (buf ++ b) then LNext st1 e1 rs1 else read_time c tr ts m k (buf ++ b) st1 e1 rs1
      end
  | (XExc x, st1, e1, rs1) =>
      match chain c ts x with
      | FRaised y => LStop (ORaised y) st1 e1 rs1
      | FSwallowed | FFalse =>                                  (* swallowed: the checks run on the buffer as it was *)
          match fuel with
          | O => LNext st1 e1 rs1
          | S k => read_time c tr ts m k buf st1 e1 rs1
          end
      end
  | (XBlock, st1, e1, rs1) => LBlock st1 e1 rs1
  end.

(* channel.send_input_and_read under its @timeout_wrapper: write(input), _read_until_input, send_return(),
   _read_until_prompt_or_time *)
Definition send_and_read (c : cfg) (ts : list table) (tr : transport) (To Ti : N) (inp m : bytes -> bool) (fuel : nat)
           (st : tst) (e : env) (rs : list rev) : outcome * tst * env * list rev :=
  match run_prog c tr To Ti [IWrite; IRead inp; IWrite] st e rs with
  | (ODone, st1, e1, rs1) =>
      match resolve c tr To Ti false (read_time c tr ts m fuel [] st1 e1 rs1) with
      | LNext st2 e2 rs2 => (ODone, st2, e2, rs2)
      | LStop o st2 e2 rs2 => (o, st2, e2, rs2)
      | LBlock st2 e2 rs2 | LSpin st2 e2 rs2 | LEmpty st2 e2 rs2 => (OHang, st2, e2, rs2)
      end
  | r => r
  end.

(* send_and_read, then isalive(), then a get_prompt on the same connection: canonical codes as in ConnLoss.obs_codes *)
Definition sar_codes (c : cfg) (ts : list table) (tr : transport) (To Ti : N) (inp m : bytes -> bool) (fuel : nat)
           (e : env) (rs : list rev) : list (N * N * (N * N)) :=
  let '(o, st1, e1, rs1) := send_and_read c ts tr To Ti inp m fuel st_open e rs in
  let '(al, st2, e2) := t_isalive c tr st1 e1 in
  (out_code o, alive_code al) :: obs_codes (run_ops c tr To Ti [OpChan [IWrite; IRead m]] st2 e2 rs1).
