(* TimeoutSites.v — which source methods the constructors of TimeoutRestore.op stand for, and what
   is expected of the places that swap a timeout value.  Definitions only.  Compared with
   Gen_Timeouts.v (regenerated from the source tree on every run) in props/C14.v. *)
From Coq Require Import ZArith List String Bool.
Import ListNotations.
Open Scope string_scope.

(* (class, method, parameter): every method of the generic / network drivers and the channels that
   accepts a per-call timeout.  OSendCommand = send_command/_send_command, OSendCommands =
   send_commands[_from_file] and, under ONet, send_config(s)[_from_file]; OSendInteractive;
   OSendAndRead = send_and_read -> send_input_and_read -> _read_until_prompt_or_time;
   OReadCallback = read_callback; ONet = the NetworkDriver methods. *)
Definition driver_methods (g n : string) : list (string * string * string) := [
  (g, "_send_command", "timeout_ops");
  (g, "read_callback", "read_timeout");
  (g, "send_and_read", "read_duration");
  (g, "send_and_read", "timeout_ops");
  (g, "send_command", "timeout_ops");
  (g, "send_commands", "timeout_ops");
  (g, "send_commands_from_file", "timeout_ops");
  (g, "send_interactive", "timeout_ops");
  (n, "send_command", "timeout_ops");
  (n, "send_commands", "timeout_ops");
  (n, "send_commands_from_file", "timeout_ops");
  (n, "send_config", "timeout_ops");
  (n, "send_configs", "timeout_ops");
  (n, "send_configs_from_file", "timeout_ops");
  (n, "send_interactive", "timeout_ops") ].

Definition channel_methods (c : string) : list (string * string * string) := [
  (c, "_read_until_prompt_or_time", "read_duration");
  (c, "send_input_and_read", "read_duration") ].

Definition modelled_methods : list (string * string * string) :=
  channel_methods "AsyncChannel" ++ driver_methods "AsyncGenericDriver" "AsyncNetworkDriver"
  ++ channel_methods "Channel" ++ driver_methods "GenericDriver" "NetworkDriver".

Definition modelled_decorated : list (string * string) := [
  ("AsyncGenericDriver", "_send_command"); ("AsyncGenericDriver", "send_and_read"); ("AsyncGenericDriver", "send_interactive");
  ("GenericDriver", "_send_command"); ("GenericDriver", "send_and_read"); ("GenericDriver", "send_interactive") ].

Definition swap_site_names : list string := [
  "timeout_modifier.decorate.async"; "timeout_modifier.decorate.sync";
  "Channel._read_until_prompt_or_time"; "AsyncChannel._read_until_prompt_or_time";
  "GenericDriver.read_callback"; "AsyncGenericDriver.read_callback" ].

(* the only function of scrapli/decorators.py that starts a thread: the thread based timeout of the sync
   stack (TimeoutRestore.pool_call) *)
Definition thread_sites : list string := [ "_multiprocessing_timeout" ].

(* [fin = true] of the model: at least one assignment sets the value, every such assignment is covered
   by a try whose finally restores it *)
Definition site_ok (x : string * (nat * nat * nat * nat)) : bool :=
  let '(_, (sets, guarded, rin, _)) := x in
  (1 <=? sets)%nat && (sets =? guarded)%nat && (1 <=? rin)%nat.

(* [SlotLocal] of TimeoutOverlap: the value a site puts back is a local of the function's own frame (at least one
   such restore, none from a closure / module / class / instance slot) *)
Definition save_ok (x : string * (nat * nat)) : bool :=
  let '(_, (from_frame, elsewhere)) := x in (1 <=? from_frame)%nat && (elsewhere =? 0)%nat.

Definition default_ok (x : string * string * string * option Z) : bool :=
  let '(_, _, p, d) := x in
  if p =? "timeout_ops" then match d with None => true | Some _ => false end
  else if p =? "read_timeout" then match d with Some z => (z <? 0)%Z | None => false end
  else if p =? "read_duration" then match d with Some z => (z =? 2500)%Z | None => true end
  else false.
