(* Chunking.v — model of what C02 needs of scrapli's channel (sync_channel.py / async_channel.py /
   base_channel.py / helper.py), as the code is on this branch (with the two repairs: carry-over of a
   trailing partial escape sequence in read(); rough matching = subsequence on the lower-cased buffer).
   Definitions only; theorems in proofs/Chunking_Proofs.v.

   1. read():  CR removal, hold-back of a trailing partial escape sequence, ANSI stripping
   2. the accumulate-and-match read loop over a list of transport reads
   3. the predicates the loops test (echo strict / rough, prompt through the search window,
      explicit prompts, get_prompt) and output processing
   4. channel programs (writes, read loops) run against a causal device under a read schedule
   5. the channel operations as programs (get_prompt, send_input, send_inputs_interact,
      channel_authenticate_telnet / _ssh) *)
From Verif Require Import Bytes Regex RegexPrio.

(* ------------------------------------------------------------------------------------------ *)
(* 1. read()                                                                                   *)
(* ------------------------------------------------------------------------------------------ *)
Definition rm_cr (s : bytes) : bytes := remove_byte 13 s.

(* character classes of ANSI_ESCAPE_PATTERN (bytes pattern, re.VERBOSE, no other flag) *)
Definition is_pfx (c : N) : bool := (c =? 27) || (c =? 155) || (c =? 157).      (* [\x1B\x9B\x9D] *)
Definition is_fin (c : N) : bool := (64 <=? c) && (c <=? 126).                   (* [@-~] *)
Definition is_digit (c : N) : bool := (48 <=? c) && (c <=? 57).                  (* \d *)
Definition is_cur (c : N) : bool := (c =? 55) || (c =? 56) || (c =? 77) || (c =? 69). (* [78ME] *)

(* outcome of trying to match the pattern at one position *)
Inductive att := Matched (rest : bytes) | Failed | InProg.

(* \]\d.*?\x07 after "]d":  up to the first BEL, no newline before it *)
Fixpoint osc (x : bytes) : att :=
  match x with
  | [] => InProg
  | c :: r => if c =? 7 then Matched r else if c =? 10 then Failed else osc r
  end.

(* \[.*?[@-~] after "[":  up to the first byte of [@-~], no newline before it *)
Fixpoint csi (x : bytes) : att :=
  match x with
  | [] => InProg
  | c :: r => if is_fin c then Matched r else if c =? 10 then Failed else csi r
  end.

(* the alternatives after the prefix and the optional blank *)
Definition alts (x : bytes) : att :=
  match x with
  | [] => InProg
  | c :: r =>
      if is_cur c then Matched r
      else if c =? 93 then
        match r with
        | [] => InProg
        | d :: r' => if is_digit d then osc r' else Failed
        end
      else if c =? 91 then csi r
      else Failed
  end.

(* (\s)? then the alternatives: a blank is consumed when there is one (no alternative starts with
   a blank, so backtracking over the optional blank never succeeds) *)
Definition after_pfx (x : bytes) : att :=
  match x with
  | [] => InProg
  | c :: r => if is_ws c then alts r else alts x
  end.

Definition attempt (s : bytes) : att :=
  match s with
  | c :: r => if is_pfx c then after_pfx r else Failed
  | [] => Failed
  end.

(* re.sub(ANSI_ESCAPE_PATTERN, b"", s): leftmost matches removed, scanning resumes after a match;
   an attempt that runs into the end of the string fails (the prefix byte stays) *)
Fixpoint strip_from (s : bytes) (fuel : nat) : bytes :=
  match fuel with
  | O => s
  | S f =>
      match s with
      | [] => []
      | c :: r =>
          match attempt s with
          | Matched rest => strip_from rest f
          | _ => c :: strip_from r f
          end
      end
  end.
Definition strip (s : bytes) : bytes := strip_from s (S (length s)).

(* ANSI_ESCAPE_PARTIAL_PATTERN = \x1B\s?((\](\d[^\x07\n]{0,n})?)|(\[[^@-~\n]{0,n}))?\Z, n = 64 *)
Fixpoint all_le (p : N -> bool) (n : nat) (x : bytes) : bool :=
  match x with
  | [] => true
  | c :: r => match n with O => false | S n' => p c && all_le p n' r end
  end.
Definition par_osc (c : N) : bool := negb (c =? 7) && negb (c =? 10).
Definition par_csi (c : N) : bool := negb (is_fin c) && negb (c =? 10).

Definition inL_alts (n : nat) (x : bytes) : bool :=
  match x with
  | [] => true
  | c :: r =>
      if c =? 93 then match r with [] => true | d :: r' => is_digit d && all_le par_osc n r' end
      else if c =? 91 then all_le par_csi n r
      else false
  end.

Definition inL (n : nat) (x : bytes) : bool :=
  match x with
  | c :: r =>
      (c =? 27) && match r with
                   | [] => true
                   | w :: r' => if is_ws w then inL_alts n r' else inL_alts n r
                   end
  | [] => false
  end.

(* _hold_back_partial_ansi on (previous partial + new bytes): the buffer is walked with
   ANSI_ESCAPE_OR_PARTIAL_PATTERN = whole sequence | (?P<partial> start of one, up to the very end),
   i.e. exactly as re.sub walks it: a whole sequence is stepped over; where none matches, a start of
   a sequence that reaches the end of the buffer is the hold point.  (passed on, held back) *)
Fixpoint hold_from (n : nat) (s : bytes) (fuel : nat) : bytes * bytes :=
  match fuel with
  | O => (s, [])
  | S f =>
      match s with
      | [] => ([], [])
      | c :: r =>
          match attempt s with
          | Matched rest =>
              let (a, h) := hold_from n rest f in (firstn (length s - length rest) s ++ a, h)
          | _ => if inL n s then ([], s) else let (a, h) := hold_from n r f in (c :: a, h)
          end
      end
  end.
Definition hold_back (n : nat) (b : bytes) : bytes * bytes := hold_from n b (S (length b)).

(* the same walk in one pass: (bytes visible after stripping, held back) — specification function *)
Fixpoint scanh_from (n : nat) (s : bytes) (fuel : nat) : bytes * bytes :=
  match fuel with
  | O => (s, [])
  | S f =>
      match s with
      | [] => ([], [])
      | c :: r =>
          match attempt s with
          | Matched rest => scanh_from n rest f
          | _ => if inL n s then ([], s) else let (a, h) := scanh_from n r f in (c :: a, h)
          end
      end
  end.
Definition scanh (n : nat) (s : bytes) : bytes * bytes := scanh_from n s (S (length s)).

(* the first repair (leftmost suffix that can be the start of a sequence) — kept for its refutation *)
Fixpoint hold_back_leftmost (n : nat) (b : bytes) : bytes * bytes :=
  match b with
  | [] => ([], [])
  | c :: r => if inL n b then ([], b) else let (a, h) := hold_back_leftmost n r in (c :: a, h)
  end.

(* one read(): state = the held-back partial sequence.  (new state, bytes returned) *)
Definition read_step (n : nat) (h chunk : bytes) : bytes * bytes :=
  let (a, h') := hold_back n (h ++ rm_cr chunk) in
  (h', if mem 27 a then strip a else a).

(* what has become visible / what is held after the raw stream P, starting with h held *)
Definition vis (n : nat) (h P : bytes) : bytes := strip (fst (hold_back n (h ++ rm_cr P))).
Definition held (n : nat) (h P : bytes) : bytes := snd (hold_back n (h ++ rm_cr P)).

(* all reads of a chunk list: (final state, pieces returned) *)
Fixpoint reads (n : nat) (h : bytes) (cs : list bytes) : bytes * list bytes :=
  match cs with
  | [] => (h, [])
  | c :: r => let (h', p) := read_step n h c in let (hf, ps) := reads n h' r in (hf, p :: ps)
  end.

(* ------------------------------------------------------------------------------------------ *)
(* 2. the accumulate-and-match loop:  while True: acc += read(); if Q(acc): return acc          *)
(* ------------------------------------------------------------------------------------------ *)
Inductive lres :=
| LDone (acc h : bytes) (rest : list bytes)     (* returned acc; reads not consumed *)
| LBlocks (acc h : bytes).                       (* nothing more to read: the call never returns *)

Fixpoint rloop (n : nat) (Q : bytes -> bool) (h acc : bytes) (cs : list bytes) : lres :=
  match cs with
  | [] => LBlocks acc h
  | c :: r =>
      let (h', p) := read_step n h c in
      let acc' := acc ++ p in
      if Q acc' then LDone acc' h' r else rloop n Q h' acc' r
  end.

(* the pinned (pre-repair) read: per-chunk stripping, no carry-over — kept for the refutation *)
Definition read_step_old (chunk : bytes) : bytes :=
  let a := rm_cr chunk in if mem 27 a then strip a else a.

(* ------------------------------------------------------------------------------------------ *)
(* 3. predicates and output processing                                                         *)
(* ------------------------------------------------------------------------------------------ *)
(* helper.output_roughly_contains_input (as repaired) *)
Fixpoint drop_to (c : N) (o : bytes) : option bytes :=
  match o with
  | [] => None
  | y :: o' => if c =? y then Some o' else drop_to c o'
  end.
Fixpoint rough_iter (i o : bytes) : bool :=
  match i with
  | [] => true
  | c :: i' => match drop_to c o with Some o' => rough_iter i' o' | None => false end
  end.
Definition roughly (i o : bytes) : bool :=
  if infixb i o then true
  else if Nat.ltb (length o) (length i) then false
  else rough_iter i o.

(* the pinned version:  `if output in input_: return True` *)
Definition roughly_old (i o : bytes) : bool :=
  if infixb o i then true
  else if Nat.ltb (length o) (length i) then false
  else rough_iter i o.

Definition proc_input (inp : bytes) : bytes := squash_ws (lower inp).
Definition Q_strict (pin : bytes) (acc : bytes) : bool :=
  infixb pin (squash_ws (remove_byte 8 (lower acc))).
Definition Q_rough (pin : bytes) (acc : bytes) : bool := roughly pin (lower acc).

(* _process_read_buf: last [depth] bytes; drop the first (possibly partial) line unless nothing follows it *)
Definition process_read_buf (depth : nat) (b : bytes) : bytes :=
  let '(hd, _, tl) := partition_byte 10 (lastn depth b) in
  match tl with [] => hd | _ => tl end.

Definition Q_prompt (depth : nat) (pat : re) (acc : bytes) : bool :=
  search_bool pat (process_read_buf depth acc).
Definition Q_explicit (depth : nat) (pats : list re) (acc : bytes) : bool :=
  existsb (fun p => search_bool p (process_read_buf depth acc)) pats.
Definition Q_getprompt (pat : re) (acc : bytes) : bool := search_bool pat acc.

Record cfg := mkCfg {
  c_hb : nat;            (* hold-back bound of ANSI_ESCAPE_PARTIAL_PATTERN *)
  c_depth : nat;         (* comms_prompt_search_depth *)
  c_prompt : re;         (* compiled comms_prompt_pattern *)
  c_ret : bytes;         (* comms_return_char *)
  c_rough : bool         (* comms_roughly_match_inputs *)
}.

Definition process_output (c : cfg) (buf : bytes) (strip_prompt : bool) : bytes :=
  let b1 := join [10] (map rstrip_ws (splitlines buf)) in
  let b2 := if strip_prompt then sub_all (c_prompt c) b1 else b1 in
  rstrip_ws (lstrip_chars (c_ret c) b2).

Definition Q_echo (c : cfg) (inp : bytes) : bytes -> bool :=
  if c_rough c then Q_rough (proc_input inp) else Q_strict (proc_input inp).

(* ------------------------------------------------------------------------------------------ *)
(* 4. channel programs against a causal device, under a read schedule                          *)
(* ------------------------------------------------------------------------------------------ *)
Inductive prog :=
| Ret (r : list bytes)
| Fail (e : nat)
| Write (b : bytes) (k : prog)
| Until (Q : bytes -> bool) (acc : bytes) (k : bytes -> prog).

(* a schedule: sizes of the successive transport reads (0 or exhausted = everything pending);
   a read always delivers at least one byte, and blocks when nothing is pending *)
Definition take (sched : list nat) (pend : bytes) : bytes * bytes * list nat :=
  match sched with
  | [] => (pend, [], [])
  | k :: s' => match k with
               | O => (pend, [], s')
               | _ => (firstn k pend, skipn k pend, s')
               end
  end.

(* the chunks a schedule cuts a pending stream into *)
Fixpoint chunks_of (fuel : nat) (sched : list nat) (pend : bytes) : list bytes :=
  match fuel with
  | O => []
  | S f =>
      match pend with
      | [] => []
      | _ => let '(c, rest, s') := take sched pend in c :: chunks_of f s' rest
      end
  end.

Inductive ures :=
| UDone (acc h pend : bytes) (sched : list nat)
| UBlocks (acc h : bytes).

Fixpoint run_until (fuel : nat) (n : nat) (Q : bytes -> bool) (h acc pend : bytes) (sched : list nat) : ures :=
  match fuel with
  | O => UBlocks acc h
  | S f =>
      match pend with
      | [] => UBlocks acc h
      | _ =>
          let '(c, rest, s') := take sched pend in
          let (h', p) := read_step n h c in
          let acc' := acc ++ p in
          if Q acc' then UDone acc' h' rest s' else run_until f n Q h' acc' rest s'
      end
  end.

Section Exec.
  Variable D : Type.
  Variable feed : D -> bytes -> D * bytes.      (* the device: what it prints in answer to a write *)

  (* result, device state, bytes printed but not read, held partial sequence, write log *)
  Inductive outcome :=
  | Done (r : list bytes) (d : D) (pend h : bytes) (ws : list bytes)
  | Raised (e : nat) (d : D) (pend h : bytes) (ws : list bytes)
  | Blocks (acc : bytes) (d : D) (h : bytes) (ws : list bytes).

  Fixpoint exec (n : nat) (p : prog) (d : D) (pend h : bytes) (sched : list nat) (ws : list bytes) : outcome :=
    match p with
    | Ret r => Done r d pend h ws
    | Fail e => Raised e d pend h ws
    | Write b k => let (d', resp) := feed d b in exec n k d' (pend ++ resp) h sched (ws ++ [b])
    | Until Q acc k =>
        match run_until (length pend) n Q h acc pend sched with
        | UDone acc' h' pend' sched' => exec n (k acc') d pend' h' sched' ws
        | UBlocks acc' h' => Blocks acc' d h' ws
        end
    end.

  (* the side condition under which a program's run cannot depend on the schedule: at every read
     loop, on the stream pending there, the predicate first holds exactly when everything pending
     has been read (or never holds), and no sequence is cut off by the hold-back bound *)
  Fixpoint inits (s : bytes) : list bytes :=
    match s with [] => [[]] | c :: r => [] :: map (cons c) (inits r) end.

  Definition wb_at (n : nat) (x : bytes) : bool :=
    forallb (fun p => match attempt p with InProg => inL n p | _ => true end) (inits x).
  Fixpoint wb (n : nat) (s : bytes) : bool :=
    wb_at n s && match s with [] => true | _ :: r => wb n r end.

  Definition Qat (n : nat) (Q : bytes -> bool) (h acc P : bytes) : bool := Q (acc ++ vis n h P).

  (* Q false on every non-empty proper prefix of pend *)
  Definition quiet_before (n : nat) (Q : bytes -> bool) (h acc pend : bytes) : bool :=
    forallb (fun P => match P with
                      | [] => true
                      | _ => Nat.eqb (length P) (length pend) || negb (Qat n Q h acc P)
                      end) (inits pend).

  Fixpoint tidy (n : nat) (p : prog) (d : D) (pend h : bytes) : bool :=
    match p with
    | Ret _ => true
    | Fail _ => true
    | Write b k => let (d', resp) := feed d b in tidy n k d' (pend ++ resp) h
    | Until Q acc k =>
        match pend with
        | [] => true
        | _ =>
            wb n (h ++ rm_cr pend) && quiet_before n Q h acc pend &&
            (if Qat n Q h acc pend then tidy n (k (acc ++ vis n h pend)) d [] (held n h pend) else true)
        end
    end.
End Exec.

(* the scripted device: answers the k-th write with the k-th recorded response *)
Definition script_feed (d : list bytes) (w : bytes) : list bytes * bytes :=
  match d with [] => ([], []) | r :: d' => (d', r) end.

(* ------------------------------------------------------------------------------------------ *)
(* 5. the channel operations                                                                    *)
(* ------------------------------------------------------------------------------------------ *)
Definition echo_then (c : cfg) (inp : bytes) (k : bytes -> prog) : prog :=
  match inp with
  | [] => k []
  | _ => Until (Q_echo c inp) [] k
  end.

(* get_prompt *)
Definition p_get_prompt (c : cfg) : prog :=
  Write (c_ret c)
    (Until (Q_getprompt (c_prompt c)) []
       (fun buf => match group0 (c_prompt c) buf with
                   | Some g => Ret [strip_ws g]
                   | None => Fail 98
                   end)).

(* send_input *)
Definition p_send_input (c : cfg) (inp : bytes) (strip_prompt eager eager_input : bool) : prog :=
  Write inp
    ((if eager_input then (fun k => k []) else echo_then c inp)
       (fun _ =>
          Write (c_ret c)
            (if eager then Ret [[]; process_output c [] strip_prompt]
             else Until (Q_prompt (c_depth c) (c_prompt c)) []
                    (fun buf => Ret [buf; process_output c buf strip_prompt])))).

(* send_inputs_interact: an event = input, echo read or not, the compiled pattern of the expected
   response, the compiled interaction_complete_patterns *)
Record event := mkEv { e_inp : bytes; e_echo : bool; e_resp : re; e_complete : list re }.

Definition interaction_complete (c : cfg) (e : event) (evb : bytes) : bool :=
  match e_complete e with
  | [] => false
  | _ =>
      let sb := process_read_buf (c_depth c) evb in
      if search_bool (e_resp e) sb then false
      else existsb (fun p => search_bool p sb) (e_complete e)
  end.

Fixpoint p_interact (c : cfg) (evs : list event) (buf : bytes) : prog :=
  match evs with
  | [] => Ret [buf; process_output c buf false]
  | e :: r =>
      Write (e_inp e)
        ((if e_echo e then echo_then c (e_inp e) else (fun k => k []))
           (fun eb =>
              Write (c_ret c)
                (Until (Q_explicit (c_depth c) (e_resp e :: e_complete e)) []
                   (fun evb =>
                      let buf' := buf ++ eb ++ evb in
                      if interaction_complete c e evb then Ret [buf'; process_output c buf' false]
                      else p_interact c r buf'))))
  end.

(* channel_authenticate_telnet / _ssh: one loop; the buffer (lower-cased) is cleared when a
   credential prompt is answered; a third sighting of the same prompt fails.
   e = 1: ScrapliAuthenticationFailed;  e = 97: model fuel exhausted (never: at most 5 rounds) *)
Record auth := mkAuth {
  a_user_pat : option re;     (* telnet only *)
  a_pass_pat : re;
  a_phrase_pat : option re;   (* ssh only *)
  a_user : bytes; a_pass : bytes; a_phrase : bytes;
  a_msgs : list bytes         (* ssh only: lower-case error texts of _ssh_message_handler *)
}.

Definition osearch (p : option re) (b : bytes) : bool :=
  match p with Some r => search_bool r b | None => false end.

Definition Q_auth (c : cfg) (a : auth) (acc : bytes) : bool :=
  let b := lower acc in
  existsb (fun l => infixb l b) (a_msgs a) ||
  osearch (a_user_pat a) b || search_bool (a_pass_pat a) b || osearch (a_phrase_pat a) b ||
  search_bool (c_prompt c) b.

Fixpoint p_auth (fuel : nat) (c : cfg) (a : auth) (nu np nph : nat) (acc0 : bytes) : prog :=
  match fuel with
  | O => Fail 97
  | S f =>
      Until (Q_auth c a) acc0
        (fun acc =>
           let b := lower acc in
           if existsb (fun l => infixb l b) (a_msgs a) then Fail 1 else
           (* username (telnet) *)
           let after_phrase (b2 : bytes) (nu' np' nph' : nat) : prog :=
             if search_bool (c_prompt c) b2 then Ret [] else p_auth f c a nu' np' nph' b2 in
           let after_pass (b1 : bytes) (nu' np' : nat) : prog :=
             if osearch (a_phrase_pat a) b1 then
               if Nat.ltb 2 (S nph) then Fail 1
               else Write (a_phrase a) (Write (c_ret c) (after_phrase [] nu' np' (S nph)))
             else after_phrase b1 nu' np' nph in
           let after_user (b0 : bytes) (nu' : nat) : prog :=
             if search_bool (a_pass_pat a) b0 then
               if Nat.ltb 2 (S np) then Fail 1
               else Write (a_pass a) (Write (c_ret c) (after_pass [] nu' (S np)))
             else after_pass b0 nu' np in
           if osearch (a_user_pat a) b then
             if Nat.ltb 2 (S nu) then Fail 1
             else Write (a_user a) (Write (c_ret c) (after_user [] (S nu)))
           else after_user b nu)
  end.

(* ------------------------------------------------------------------------------------------ *)
(* 6. decorated streams: text with well-formed control sequences between characters             *)
(* ------------------------------------------------------------------------------------------ *)
Inductive seqf :=
| SCsi (params : bytes) (final : N)      (* ESC [ params final   (SGR: params digits and ';', final m) *)
| SOsc (d : N) (text : bytes)            (* ESC ] d text BEL     (window title) *)
| SCur (c : N).                          (* ESC 7 / 8 / M / E *)

Definition plain_byte (c : N) : bool := negb (is_pfx c).

Definition seq_ok (n : nat) (q : seqf) : bool :=
  match q with
  | SCsi p f => forallb (fun c => par_csi c && plain_byte c) p && is_fin f && Nat.leb (length p) n
  | SOsc d t => is_digit d && forallb (fun c => par_osc c && plain_byte c) t && Nat.leb (length t) n
  | SCur c => is_cur c
  end.

Definition seq_bytes (q : seqf) : bytes :=
  match q with
  | SCsi p f => 27 :: 91 :: p ++ [f]
  | SOsc d t => 27 :: 93 :: d :: t ++ [7]
  | SCur c => [27; c]
  end.

Inductive tok := TChar (c : N) | TSeq (q : seqf).

Definition tok_ok (n : nat) (t : tok) : bool :=
  match t with TChar c => plain_byte c | TSeq q => seq_ok n q end.
Definition tok_bytes (t : tok) : bytes := match t with TChar c => [c] | TSeq q => seq_bytes q end.
Definition tok_plain (t : tok) : bytes := match t with TChar c => [c] | TSeq _ => [] end.
Definition stream (ts : list tok) : bytes := concat (map tok_bytes ts).
Definition plain (ts : list tok) : bytes := concat (map tok_plain ts).

Inductive subseq : bytes -> bytes -> Prop :=
| sub_nil : forall o, subseq [] o
| sub_take : forall c i o, subseq i o -> subseq (c :: i) (c :: o)
| sub_skip : forall c i o, subseq i o -> subseq i (c :: o).

(* the first repair of read() (leftmost start), for its refutation *)
Definition read_step_leftmost (n : nat) (h chunk : bytes) : bytes * bytes :=
  let (a, h') := hold_back_leftmost n (h ++ rm_cr chunk) in
  (h', if mem 27 a then strip a else a).
Fixpoint reads_with (step : bytes -> bytes -> bytes * bytes) (h : bytes) (cs : list bytes) : bytes * list bytes :=
  match cs with
  | [] => (h, [])
  | c :: r => let (h', p) := step h c in let (hf, ps) := reads_with step h' r in (hf, p :: ps)
  end.
