(* ChanReopen.v — executable model of the channel log of ONE channel object over several open / close cycles
   (scrapli/channel/base_channel.py BaseChannel.open / close, Channel.read / AsyncChannel.read), as Driver.open / close
   run them when the same driver object is opened again after close.  Definitions only; proofs in
   proofs/ChanReopen_Proofs.v.

   The destination is configured once (ChanLog.sink_kind) and outlives the handles: [dest] is what it holds (file
   content / BytesIO value).  channel.channel_log is a handle: none yet, open, or closed — close() closes it but the
   attribute keeps the closed object.
   open():  a file destination is opened ANEW at every open ("wb": truncated, "ab": kept) and the handle is a fresh open
            one; a BytesIO destination is the caller's object itself: if a previous close() closed it, the handle is
            that closed object again.  [keeps_open] = true: the caller's BytesIO survives close() (a subclass whose
            close() keeps it usable), false: io.BytesIO proper.
   read():  no handle: nothing is logged; open handle: the bytes read, CRs removed, are appended; closed handle: the
            write raises ValueError (a constructor of the outcome: counted in [raised], nothing is logged).
   [skip_if_set] = true is the variant "open() sets the log up only when channel_log is None and read() skips a closed
   log" — used only to show that the theorem notices it. *)
From Verif Require Import Bytes ChanLog.

Inductive handle := HNone | HOpen | HClosed.
Inductive hist_ev := HEvOpen | HEvRead (c : bytes) | HEvClose.

Record rstate := mkRS { dest : bytes; hnd : handle; logged : nat; raised : nat; dropped : nat }.

Definition reopen_step (skip_if_set : bool) (k : sink_kind) (keeps_open : bool) (st : rstate) (e : hist_ev) : rstate :=
  match e with
  | HEvOpen =>
      match k with
      | SNone => st
      | SFile a =>
          if skip_if_set && match hnd st with HNone => false | _ => true end then st
          else mkRS (if a then dest st else []) HOpen (logged st) (raised st) (dropped st)
      | SBytesIO =>
          match hnd st with
          | HClosed => st                                             (* the same, closed, object *)
          | _ => mkRS (dest st) HOpen (logged st) (raised st) (dropped st)
          end
      end
  | HEvRead c =>
      match hnd st with
      | HNone => mkRS (dest st) HNone (logged st) (raised st) (S (dropped st))
      | HOpen => mkRS (dest st ++ remove_byte CR c) HOpen (S (logged st)) (raised st) (dropped st)
      | HClosed =>
          if skip_if_set then mkRS (dest st) HClosed (logged st) (raised st) (S (dropped st))
          else mkRS (dest st) HClosed (logged st) (S (raised st)) (dropped st)
      end
  | HEvClose =>
      match hnd st with
      | HOpen =>
          match k with
          | SBytesIO => if keeps_open then st else mkRS (dest st) HClosed (logged st) (raised st) (dropped st)
          | _ => mkRS (dest st) HClosed (logged st) (raised st) (dropped st)
          end
      | _ => st
      end
  end.

Definition reopen_run (skip_if_set : bool) (k : sink_kind) (keeps_open : bool) (st : rstate) (evs : list hist_ev) : rstate :=
  fold_left (reopen_step skip_if_set k keeps_open) evs st.

Definition reopen_init (existing : bytes) : rstate := mkRS existing HNone 0 0 0.

(* a history of whole sessions on one object: open, the reads of the session, close *)
Definition session_evs (chunks : list bytes) : list hist_ev := HEvOpen :: map HEvRead chunks ++ [HEvClose].
Definition history (sessions : list (list bytes)) : list hist_ev := flat_map session_evs sessions.

Definition crs (chunks : list bytes) : bytes := remove_byte CR (concat chunks).
