(* TimeoutOverlap.v — calls with per-call timeouts on SEVERAL connections, interleaved.

   TimeoutRestore.v is the bookkeeping of one connection.  scrapli/decorators.py timeout_modifier wraps
   a METHOD: one wrapper object per decorated operation, shared by every driver instance and every
   call.  Where the wrapper keeps the value it has to put back is therefore part of the property:
     SlotLocal    a local of the wrapper CALL (its frame / its coroutine): one per call      (the source)
     SlotShared   a place that outlives the call and is shared between connections: a nonlocal of the
                  decorator's closure, a module global, a class attribute, ...
   (which of the two the source has is read from it on every run: Gen_Timeouts.gen_saved_in_frame).
   SlotShared is ONE slot for all decorated methods (a module global); a slot per decorated method (a nonlocal
   of the decorator) behaves like it for overlapping calls of the SAME method and like SlotLocal for calls of
   different methods - the refutation uses calls of one method.

   A WORLD is the family of connections (index -> TimeoutRestore.st, disjoint), for every connection the
   frame of the call in flight on it (one channel per connection: calls on ONE connection do not overlap),
   and the shared slot.  A SCHEDULE is the global sequence of what the connections do, in the order in
   which it happens (asyncio tasks interleave at awaits, threads at blocking reads): each element belongs
   to one connection.  The interleaving is an INPUT; [step] is partial: [None] is a sequence no run of the
   code can produce (leaving a call that was not entered, ...), never a default.

   Definitions only; proofs are in proofs/TimeoutOverlap_Proofs.v. *)
From Verif Require Import TimeoutRestore.
Open Scope Z_scope.

Inductive slot := SlotLocal | SlotShared.

(* Gen_Timeouts.gen_saved_local: every swap site restores from a local of its own frame *)
Definition slot_of (saved_local : bool) : slot := if saved_local then SlotLocal else SlotShared.

(* the frame of a decorated call in flight *)
Record frame := mkframe {
  f_mod : bool;            (* timeout_modifier did set the override (and so restores in its finally) *)
  f_saved : Z;             (* base_timeout_ops as a local of the wrapper call *)
  f_prev : option Z        (* inside _read_until_prompt_or_time: its local previous_timeout_transport *)
}.

Record world := mkworld {
  w_conn : nat -> st;
  w_frame : nat -> option frame;
  w_shared : Z             (* the slot every wrapper call writes when the saved value is not a local *)
}.

Definition upd {A : Type} (m : nat -> A) (i : nat) (v : A) : nat -> A :=
  fun j => if Nat.eqb j i then v else m j.

Inductive ev :=
| EvEnter (i : nat) (o : ov)      (* timeout_modifier's wrapper is entered on connection i: save, set *)
| EvIo (i : nat) (p : phase)      (* a transport read / write on connection i (an observation point) *)
| EvTimedIn (i : nat) (rd : Z)    (* _read_until_prompt_or_time: prev := timeout_transport; := int(rd) *)
| EvTimedOut (i : nat)            (* ... its finally *)
| EvLeave (i : nat).              (* the wrapper's finally: the call ends, whatever its outcome *)

Definition ev_conn (e : ev) : nat :=
  match e with EvEnter i _ | EvIo i _ | EvTimedIn i _ | EvTimedOut i | EvLeave i => i end.

Definition set_conn (w : world) (i : nat) (s : st) (f : option frame) (sh : Z) : world :=
  mkworld (upd (w_conn w) i s) (upd (w_frame w) i f) sh.

Definition step (k : slot) (w : world) (e : ev) : option world :=
  match e with
  | EvEnter i o =>
      match w_frame w i with
      | Some _ => None
      | None =>
          let s := w_conn w i in
          match o with
          | OvBad => Some w          (* the setter raises before assigning: the call has already ended *)
          | OvNone => Some (set_conn w i s (Some (mkframe false 0 None)) (w_shared w))
          | OvVal v =>
              if v =? ops s then Some (set_conn w i s (Some (mkframe false 0 None)) (w_shared w))
              else Some (set_conn w i (set_ops v s) (Some (mkframe true (ops s) None)) (ops s))
          end
      end
  | EvIo i p => Some (set_conn w i (tick p (w_conn w i)) (w_frame w i) (w_shared w))
  | EvTimedIn i rd =>
      match w_frame w i with
      | Some (mkframe m sv None) =>
          let s := w_conn w i in
          Some (set_conn w i (set_tr_direct (trunc_s rd) s) (Some (mkframe m sv (Some (tr s)))) (w_shared w))
      | _ => None
      end
  | EvTimedOut i =>
      match w_frame w i with
      | Some (mkframe m sv (Some p)) =>
          Some (set_conn w i (set_tr_direct p (w_conn w i)) (Some (mkframe m sv None)) (w_shared w))
      | _ => None
      end
  | EvLeave i =>
      match w_frame w i with
      | Some (mkframe m sv None) =>
          let s := w_conn w i in
          let back := match k with SlotLocal => sv | SlotShared => w_shared w end in
          Some (set_conn w i (if m then set_ops back s else s) None (w_shared w))
      | _ => None
      end
  end.

Fixpoint run (k : slot) (l : list ev) (w : world) : option world :=
  match l with
  | [] => Some w
  | e :: r => match step k w e with Some w1 => run k r w1 | None => None end
  end.

(* every connection idle *)
Definition world0 (c0 : nat -> st) : world := mkworld c0 (fun _ => None) 0.

Definition idle (w : world) (i : nat) : Prop := w_frame w i = None.

(* the events of one connection, in their order *)
Definition on (i : nat) (l : list ev) : list ev := filter (fun e => Nat.eqb (ev_conn e) i) l.

(* ---- the correspondence run -------------------------------------------------------------------------
   one case: number of connections, their states before, the schedule as it was observed on the real
   drivers (asyncio tasks in one loop / threads), and what was observed: every connection's state after
   all calls have ended and its de-duplicated observations (oldest first) *)
Definition st_of (x : Z * Z * Z) : st := let '(a, b, c) := x in mkst a b c [].

Definition check_overlap_case
  (x : slot * nat * list (Z * Z * Z) * list ev * list (Z * Z * Z) * list (list obs)) : bool :=
  let '(k, n, init, l, fin_, seen) := x in
  Nat.eqb (length init) n && Nat.eqb (length fin_) n && Nat.eqb (length seen) n &&
  match run k l (world0 (fun i => st_of (nth i init (0, 0, 0)))) with
  | None => false
  | Some w =>
      forallb (fun i => triple_eqb (core (w_conn w i)) (nth i fin_ (0, 0, 0))
                        && obs_list_eqb (dedup (rev (log (w_conn w i)))) (nth i seen [])
                        && match w_frame w i with None => true | Some _ => false end) (seq 0 n)
  end.
