(* HostKey.v — executable model of the host-key / credential ordering in scrapli's SSH transports
   (scrapli/transport/plugins/{paramiko,ssh2,asyncssh,system}/transport.py).  Definitions only;
   proofs are in proofs/HostKey_Proofs.v.

   Library transports: open() as the sequence of externally visible events it produces, as a
   function of a scenario (strictness, what SSHKnownHosts.lookup returns for the host, the key
   the server presents, the configured credentials, what the server accepts).
   System transport: the argv handed to the ssh binary, and OpenSSH's first-value-wins reading
   of -o options. *)
From Verif Require Import Bytes.

(* ------------------------------------------------------------------------------------------ *)
(* library transports                                                                          *)
(* ------------------------------------------------------------------------------------------ *)
Inductive lib := Paramiko | Ssh2 | Asyncssh.

Inductive cred := Password | PrivateKey | KbdInt.

(* exceptions leaving open(): scrapli classes, or a library exception that escapes unmapped *)
Inductive exc := AuthenticationFailed | ConnectionNotOpened | LibraryError.

Inductive event :=
| KeyExchange            (* start_client / handshake / the key exchange inside asyncssh.connect *)
| CheckPresent           (* SSHKnownHosts(file).lookup(host) *)
| CheckValue             (* server key fetched from the session and compared with the entry *)
| LibVerify              (* asyncssh checks the server key against the known_hosts it was given *)
| Offer (c : cred)       (* a credential crosses the wire *)
| Fail (e : exc)         (* open() raises *)
| Opened.                (* open() returns *)

(* what asyncssh itself decides about (known_hosts file, host, server key) when it is given the
   file: the key is trusted / is not / the entry's key types exclude every key the server has
   (asyncssh narrows the host key algorithms to the known ones, so the key exchange fails) *)
Inductive verdict := Trusted | Untrusted | NoCommonAlg.

Record scen := mkS {
  strict : bool;            (* auth_strict_key *)
  entry : option bytes;     (* lookup(host): None for {}, Some public_key otherwise *)
  skey : bytes;             (* the server's host key (base64 text) *)
  libv : verdict;           (* asyncssh's own decision, consulted only when it gets the file *)
  handshake_ok : bool;      (* transport-level handshake succeeds *)
  has_key : bool;           (* auth_private_key truthy *)
  has_pw : bool;            (* auth_password truthy *)
  has_user : bool;          (* auth_username truthy *)
  key_ok : bool;            (* server accepts the key *)
  pw_ok : bool;             (* server accepts the password *)
  kbd_ok : bool             (* server accepts keyboard-interactive (ssh2 fallback) *)
}.

(* paramiko / ssh2  _verify_key : events, and whether open() goes on *)
Definition verify_key (s : scen) : list event * bool :=
  match entry s with
  | None => ([CheckPresent; Fail AuthenticationFailed], false)
  | Some k => if beq k (skey s) then ([CheckPresent; CheckValue], true)
              else ([CheckPresent; CheckValue; Fail AuthenticationFailed], false)
  end.

(* _authenticate_password (+ the "all authentication methods failed" test of open) *)
Definition pw_phase (l : lib) (s : scen) : list event :=
  match l with
  | Ssh2 => Offer Password ::
            (if pw_ok s then [Opened]
             else Offer KbdInt :: (if kbd_ok s then [Opened] else [Fail AuthenticationFailed]))
  | _ => Offer Password :: (if pw_ok s then [Opened] else [Fail AuthenticationFailed])
  end.

(* _authenticate of the paramiko and ssh2 transports *)
Definition authenticate (l : lib) (s : scen) : list event :=
  if has_key s then
    Offer PrivateKey ::
      (if key_ok s then [Opened]
       else if negb (has_pw s) || negb (has_user s) then [Fail AuthenticationFailed]
       else pw_phase l s)
  else pw_phase l s.

(* open() of the paramiko and ssh2 transports *)
Definition open_sock (l : lib) (s : scen) : list event :=
  if negb (handshake_ok s) then [KeyExchange; Fail ConnectionNotOpened]
  else KeyExchange ::
       (if strict s then
          let (t, ok) := verify_key s in t ++ (if ok then authenticate l s else [])
        else authenticate l s).

(* user authentication as asyncssh.connect performs it with scrapli's arguments
   (preferred_auth publickey, keyboard-interactive, password); true = authenticated *)
Definition lib_auth (s : scen) : list event * bool :=
  let pw := if has_pw s then ([Offer Password], pw_ok s) else ([], false) in
  if has_key s then
    if key_ok s then ([Offer PrivateKey], true)
    else (Offer PrivateKey :: fst pw, snd pw)
  else pw.

(* asyncssh.connect(known_hosts = file when [pass_kh] and strict, else None) as scrapli wraps it:
   events, and whether a session came back *)
Definition connect_async (pass_kh : bool) (s : scen) : list event * bool :=
  let given := pass_kh && strict s in
  if negb (handshake_ok s) then
    (* KeyExchangeFailed: mapped only in strict mode of the repaired code, raw otherwise *)
    ([KeyExchange; Fail (if given then AuthenticationFailed else LibraryError)], false)
  else
    let after_kex :=
      let (t, ok) := lib_auth s in
      if ok then (t, true) else (t ++ [Fail AuthenticationFailed], false) in
    if given then
      match libv s with
      | Trusted => (KeyExchange :: LibVerify :: fst after_kex, snd after_kex)
      | Untrusted => ([KeyExchange; LibVerify; Fail AuthenticationFailed], false)
      | NoCommonAlg => ([KeyExchange; Fail AuthenticationFailed], false)
      end
    else (KeyExchange :: fst after_kex, snd after_kex).

(* _verify_key_value, after connect() *)
Definition verify_value_async (s : scen) : list event :=
  match entry s with
  | None => [CheckPresent; Fail LibraryError]        (* {}["public_key"] : KeyError *)
  | Some k => if beq k (skey s) then [CheckPresent; CheckValue; Opened]
              else [CheckPresent; CheckValue; Fail AuthenticationFailed]
  end.

(* open() of the asyncssh transport.  [pass_kh] = true is the code as it is now (the resolved
   known-hosts file is handed to asyncssh in strict mode); false is the pinned commit
   (known_hosts=None always). *)
Definition open_async (pass_kh : bool) (s : scen) : list event :=
  let rest :=
    let (t, ok) := connect_async pass_kh s in
    t ++ (if ok then (if strict s then verify_value_async s else [Opened]) else []) in
  if strict s then
    match entry s with
    | None => [CheckPresent; Fail AuthenticationFailed]
    | Some _ => CheckPresent :: rest
    end
  else rest.

Definition open_trace (pass_kh : bool) (l : lib) (s : scen) : list event :=
  match l with
  | Asyncssh => open_async pass_kh s
  | _ => open_sock l s
  end.

(* observations on traces *)
Definition is_offer (e : event) : bool := match e with Offer _ => true | _ => false end.
Definition offers (t : list event) : list event := filter is_offer t.
Definition no_offer (t : list event) : bool := negb (existsb is_offer t).
Definition ends_with (e : exc) (t : list event) : bool :=
  match last t Opened with
  | Fail AuthenticationFailed => match e with AuthenticationFailed => true | _ => false end
  | Fail ConnectionNotOpened => match e with ConnectionNotOpened => true | _ => false end
  | Fail LibraryError => match e with LibraryError => true | _ => false end
  | _ => false
  end.

(* the server's key is missing from, or different to, the entry *)
Definition key_bad (s : scen) : bool :=
  match entry s with None => true | Some k => negb (beq k (skey s)) end.

(* codes used by the correspondence harness *)
Definition cred_code (c : cred) : N := match c with Password => 0 | PrivateKey => 1 | KbdInt => 2 end.
Definition exc_code (e : exc) : N :=
  match e with AuthenticationFailed => 0 | ConnectionNotOpened => 1 | LibraryError => 2 end.
Definition event_code (e : event) : N :=
  match e with
  | KeyExchange => 1 | CheckPresent => 2 | CheckValue => 3 | LibVerify => 4
  | Offer c => 10 + cred_code c | Fail x => 20 + exc_code x | Opened => 30
  end.
Definition trace_code (t : list event) : bytes := map event_code t.

(* projection compared against a real server: final event, password offered?, key offered? *)
Definition offered (c : cred) (t : list event) : bool :=
  existsb (fun e => match e with Offer c' => cred_code c =? cred_code c' | _ => false end) t.
Definition projection (t : list event) : N * bool * bool :=
  (event_code (last t Opened), offered Password t, offered PrivateKey t).

(* ------------------------------------------------------------------------------------------ *)
(* system transport: the argv given to the ssh binary                                          *)
(* ------------------------------------------------------------------------------------------ *)
Definition str := bytes.

(* ssh_known_hosts_file / ssh_config_file as the transport sees them *)
Inductive fileopt := FNone | FMagic | FPath (p : str).

Record sysargs := mkA {
  a_host : str; a_port : str;            (* str(port) *)
  a_tsock : str; a_ttrans : str;         (* str(int(timeout_socket)), str(int(timeout_transport)) *)
  a_key : str; a_user : str;             (* "" = falsy *)
  a_strict : bool;
  a_known : fileopt; a_config : fileopt;
  a_extra : list str                     (* transport_options["open_cmd"] *)
}.

Definition s_ssh : str := [115;115;104].
Definition s_p : str := [45;112].  Definition s_o : str := [45;111].
Definition s_i : str := [45;105].  Definition s_l : str := [45;108].
Definition s_F : str := [45;70].
Definition s_devnull : str := [47;100;101;118;47;110;117;108;108].
Definition s_ConnectTimeout : str := [67;111;110;110;101;99;116;84;105;109;101;111;117;116;61].
Definition s_ServerAlive : str :=
  [83;101;114;118;101;114;65;108;105;118;101;73;110;116;101;114;118;97;108;61].
(* "StrictHostKeyChecking=" *)
Definition s_Strict : str :=
  [83;116;114;105;99;116;72;111;115;116;75;101;121;67;104;101;99;107;105;110;103;61].
Definition s_yes : str := [121;101;115].  Definition s_no : str := [110;111].
(* "UserKnownHostsFile=" *)
Definition s_UKHF : str :=
  [85;115;101;114;75;110;111;119;110;72;111;115;116;115;70;105;108;101;61].

Definition nonempty_s (s : str) : bool := match s with [] => false | _ => true end.

(* the part of the command line scrapli writes before the host-key options *)
Definition argv_head (a : sysargs) : list str :=
  [s_ssh; a_host a; s_p; a_port a; s_o; s_ConnectTimeout ++ a_tsock a; s_o; s_ServerAlive ++ a_ttrans a]
  ++ (if nonempty_s (a_key a) then [s_i; a_key a] else [])
  ++ (if nonempty_s (a_user a) then [s_l; a_user a] else []).

Definition argv_hostkey (a : sysargs) : list str :=
  if negb (a_strict a) then [s_o; s_Strict ++ s_no; s_o; s_UKHF ++ s_devnull]
  else [s_o; s_Strict ++ s_yes] ++
       match a_known a with
       | FPath p => [s_o; s_UKHF ++ p]
       | _ => []
       end.

Definition argv_config (a : sysargs) : list str :=
  match a_config a with
  | FNone => [s_F; s_devnull]
  | FMagic => []
  | FPath p => [s_F; p]
  end.

(* _build_open_cmd *)
Definition build_open_cmd (a : sysargs) : list str :=
  argv_head a ++ argv_hostkey a ++ argv_config a ++ a_extra a.

(* --- how ssh(1) reads it: getopt over the words after argv[0]; a word not starting with '-'
   is the destination (the first one) — ssh then goes on parsing options; a second such word
   starts the remote command and ends option parsing.  For each -o the first value obtained for
   a keyword is the one used (ssh_config(5)); keywords are case-insensitive, '=' or blanks
   separate keyword and value. *)
Definition flags_with_arg : bytes :=   (* bcDEeFIiJLlmOopQRSWwB *)
  [98;99;68;69;101;70;73;105;74;76;108;109;79;111;112;81;82;83;87;119;66].

Inductive word := WOpt (flag : N) (arg : str) | WFlag | WDest (s : str) | WBad.

(* one "-xyz..." cluster: flags without argument until a flag that takes one; the rest of the
   word, or else the next word, is its argument.  Returns the (flag, attached-arg) if any. *)
Fixpoint cluster (w : bytes) : option (N * bytes) :=
  match w with
  | [] => None
  | c :: r => if mem c flags_with_arg then Some (c, r) else cluster r
  end.

Definition lower_s (s : str) : str := lower s.
Definition kw_strict : str := lower_s (removelast s_Strict).   (* "stricthostkeychecking" *)
Definition kw_ukhf : str := lower_s (removelast s_UKHF).       (* "userknownhostsfile" *)

(* value of an "-o" argument for keyword [kw] (lower case): Some value when it assigns kw *)
Definition is_sep (c : N) : bool := (c =? 61) || (c =? 32) || (c =? 9).
Fixpoint strip_prefix (p s : bytes) : option bytes :=
  match p, s with
  | [], _ => Some s
  | x :: p', y :: s' => if x =? lower_byte y then strip_prefix p' s' else None
  | _ :: _, [] => None
  end.
Fixpoint lstrip_sep (s : bytes) : bytes :=
  match s with c :: r => if is_sep c then lstrip_sep r else s | [] => [] end.
Definition assigns (kw : str) (oarg : str) : option str :=
  match strip_prefix kw (lstrip_ws oarg) with
  | Some (c :: r) => if is_sep c then Some (lstrip_sep r) else None
  | _ => None
  end.

(* scan the words after argv[0]; [dest] = a destination was already seen *)
Definition is_nil {A} (l : list A) : bool := match l with [] => true | _ => false end.

Fixpoint first_o (kw : str) (dest : bool) (ws : list str) : option str :=
  match ws with
  | [] => None
  | w :: r =>
      let operand := if dest then None else first_o kw true r in   (* destination, then command *)
      match w with
      | c0 :: c :: w' =>
          if negb (c0 =? 45) then operand
          else if (c =? 45) && is_nil w' then None                  (* "--" ends the options *)
          else
          match cluster (c :: w') with
          | None => first_o kw dest r                       (* only argument-less flags *)
          | Some (f, att) =>
              match att with
              | [] =>
                  match r with
                  | [] => None                              (* missing argument: ssh exits *)
                  | arg :: r' =>
                      if f =? 111 then
                        match assigns kw arg with Some v => Some v | None => first_o kw dest r' end
                      else first_o kw dest r'
                  end
              | _ :: _ =>
                  if f =? 111 then
                    match assigns kw att with Some v => Some v | None => first_o kw dest r end
                  else first_o kw dest r
              end
          end
      | _ => operand                                        (* "" or a single character *)
      end
  end.

Definition effective (kw : str) (argv : list str) : option str := first_o kw false (tl argv).

(* a destination that ssh reads as a host, not as an option *)
Definition host_ok (h : str) : bool := match h with [] => false | c :: _ => negb (c =? 45) end.

(* ------------------------------------------------------------------------------------------ *)
(* shapes the generated definitions (Gen_HostKey.v) are compared with                          *)
(* ------------------------------------------------------------------------------------------ *)
(* the security-relevant calls of open(), in order, with whether they sit under `if strict:` —
   1 key exchange, 2 _verify_key, 3 _verify_key_value, 5 _authenticate, 6 asyncssh.connect,
   7 channel / session opened *)
Definition open_skeleton (l : lib) : list (N * bool) :=
  match l with
  | Asyncssh => [(2, true); (6, false); (3, true); (7, false)]
  | _ => [(1, false); (2, true); (5, false); (7, false)]
  end.

(* literals of the two branches of the system transport's host-key conditional *)
Definition system_off_literals : list str := [s_o; s_Strict ++ s_no; s_o; s_UKHF ++ s_devnull].
Definition system_on_literals : list str := [s_o; s_Strict ++ s_yes; s_o; s_UKHF].

Definition all_true {A} (l : list (A * bool)) : bool := forallb snd l.

(* ------------------------------------------------------------------------------------------ *)
(* more observations on traces (used by the theorems)                                          *)
(* ------------------------------------------------------------------------------------------ *)
(* at the first Offer, has a value check (scrapli's or the library's) already happened? *)
Fixpoint verified_before_offer (seen : bool) (t : list event) : bool :=
  match t with
  | [] => true
  | Offer _ :: _ => seen
  | CheckValue :: r => verified_before_offer true r
  | LibVerify :: r => verified_before_offer true r
  | _ :: r => verified_before_offer seen r
  end.

Definition is_check (e : event) : bool :=
  match e with CheckPresent | CheckValue | LibVerify => true | _ => false end.

Definition path_ok (p : str) : bool := match p with [] => false | c :: _ => negb (is_sep c) end.

(* ------------------------------------------------------------------------------------------ *)
(* one transport object over time: open, close, open again                                     *)
(* ------------------------------------------------------------------------------------------ *)
(* Everything a transport object could have kept from its earlier handshakes: the host keys that
   were presented in the completed key exchanges of its life, most recent first (close() cannot
   un-see them).  The configuration (strictness, credentials) is fixed on the object; what differs
   from one open to the next is the scenario's world part — the key the server presents now, what
   lookup() returns for the known_hosts file as it is now, what the server accepts now. *)
Definition tstate := list bytes.
Definition t_init : tstate := [].
Definition t_record (st : tstate) (s : scen) : tstate := if handshake_ok s then skey s :: st else st.

Inductive hstep := HOpen (s : scen) | HClose.

(* one call of open() on an object in state [st]: its events, and the state afterwards *)
Definition stepfn := tstate -> scen -> list event * tstate.

(* the transports as written: open() builds a new library session and fetches the key from it;
   nothing of [st] is read *)
Definition step_open (pass_kh : bool) (l : lib) : stepfn :=
  fun st s => (open_trace pass_kh l s, t_record st s).

(* the history of an object: every open paired with the scenario it really ran against (whose
   server receives whatever is offered) *)
Fixpoint run_history (f : stepfn) (st : tstate) (h : list hstep) : list (scen * list event) :=
  match h with
  | [] => []
  | HOpen s :: r => let (tr, st') := f st s in (s, tr) :: run_history f st' r
  | HClose :: r => run_history f st r
  end.

Fixpoint opens (h : list hstep) : list scen :=
  match h with [] => [] | HOpen s :: r => s :: opens r | HClose :: r => opens r end.

(* neighbours of the code as written, used only for the refutations: a transport that keeps the
   server key on the object and verifies the remembered one — the first it ever saw, or the one
   of the previous handshake — instead of the key of the session it has just built *)
Definition with_skey (s : scen) (k : bytes) : scen :=
  mkS (strict s) (entry s) k (libv s) (handshake_ok s) (has_key s) (has_pw s) (has_user s)
      (key_ok s) (pw_ok s) (kbd_ok s).
Definition step_open_first_seen (l : lib) : stepfn :=
  fun st s => (open_trace true l (match rev st with k :: _ => with_skey s k | [] => s end), t_record st s).
Definition step_open_prev_seen (l : lib) : stepfn :=
  fun st s => (open_trace true l (match st with k :: _ => with_skey s k | [] => s end), t_record st s).

(* system transport: open() builds the argv only while the object has none (open_cmd is kept) *)
Definition sys_open (cache : list str) (a : sysargs) : list str :=
  if is_nil cache then build_open_cmd a else cache.
Fixpoint sys_history (cache : list str) (a : sysargs) (n : nat) : list (list str) :=
  match n with
  | O => []
  | S n' => let argv := sys_open cache a in argv :: sys_history argv a n'
  end.

(* the attributes a library transport object stores on itself (Gen_HostKey.v lists the ones the
   source assigns): constructor arguments, the socket, the library session and its channel /
   streams — no key, no verdict *)
Definition s_attr_args : str := [112;108;117;103;105;110;95;116;114;97;110;115;112;111;114;116;95;97;114;103;115].
Definition s_attr_socket : str := [115;111;99;107;101;116].
Definition s_attr_session : str := [115;101;115;115;105;111;110].
Definition s_attr_channel : str := [115;101;115;115;105;111;110;95;99;104;97;110;110;101;108].
Definition s_attr_stdin : str := [115;116;100;105;110].
Definition s_attr_stdout : str := [115;116;100;111;117;116].
(* "session.*": a store into the library session of the current open (paramiko: disabled_algorithms) *)
Definition s_attr_session_inner : str := s_attr_session ++ [46;42].
Definition object_state (l : lib) : list str :=
  match l with
  | Asyncssh => [s_attr_args; s_attr_session; s_attr_stdin; s_attr_stdout]
  | Paramiko => [s_attr_args; s_attr_session; s_attr_session_inner; s_attr_channel; s_attr_socket]
  | Ssh2 => [s_attr_args; s_attr_session; s_attr_channel; s_attr_socket]
  end.

(* ------------------------------------------------------------------------------------------ *)
(* the known_hosts file over time, and a memo of what was read from it                         *)
(* ------------------------------------------------------------------------------------------ *)
(* A version of the file as one open finds it at its path: what a stat call would say about it
   (modification time, size is the length of the text) and its content.  Between two opens the file
   may be rewritten in place, with or without the modification time moving, or replaced by rename. *)
Record khver := mkV { v_stamp : N; v_text : bytes }.

(* what a reader of known_hosts could keep from an earlier read (on the class, in the module, ...):
   the version it read and the entry it found in it for the host *)
Definition kmemo := option (khver * option bytes).

Definition with_entry (s : scen) (e : option bytes) : scen :=
  mkS (strict s) e (skey s) (libv s) (handshake_ok s) (has_key s) (has_pw s) (has_user s)
      (key_ok s) (pw_ok s) (kbd_ok s).

Section Memo.
  Variable lookup_text : bytes -> option bytes.   (* parse + lookup for the (fixed) host: the entry in that content *)
  Variable reuse : khver -> khver -> bool.        (* memo of the first version: still used for the second? *)

  Definition memo_lookup (m : kmemo) (v : khver) : option bytes * kmemo :=
    match m with
    | Some (v0, e0) =>
        if reuse v0 v then (e0, m) else (lookup_text (v_text v), Some (v, lookup_text (v_text v)))
    | None => (lookup_text (v_text v), Some (v, lookup_text (v_text v)))
    end.

  (* a history of opens (any objects: the memo is not on the object): per open the version of the file at
     that moment and the rest of the scenario ([entry] of the given scenario is ignored).  Each open is
     paired with the scenario it REALLY ran in — the entry the content of that moment gives — while its
     events are those of the entry the reader came up with *)
  Fixpoint run_memo (l : lib) (m : kmemo) (h : list (khver * scen)) : list (scen * list event) :=
    match h with
    | [] => []
    | (v, s) :: r =>
        (with_entry s (lookup_text (v_text v)), open_trace true l (with_entry s (fst (memo_lookup m v))))
          :: run_memo l (snd (memo_lookup m v)) r
    end.
End Memo.

(* the code as written: SSHKnownHosts(file) reads and parses at every construction (Gen_HostKey.v:
   gen_known_hosts_memo_free) — nothing is ever reused *)
Definition reuse_never : khver -> khver -> bool := fun _ _ => false.
(* neighbours: a memo revalidated by the content, by the modification time, by modification time and size *)
Definition reuse_same_text (a b : khver) : bool := beq (v_text a) (v_text b).
Definition reuse_same_stamp (a b : khver) : bool := v_stamp a =? v_stamp b.
Definition reuse_same_stamp_size (a b : khver) : bool :=
  (v_stamp a =? v_stamp b) && Nat.eqb (length (v_text a)) (length (v_text b)).

(* ------------------------------------------------------------------------------------------ *)
(* known_hosts lines and their MARKERS (sshd(8), SSH_KNOWN_HOSTS FILE FORMAT)                  *)
(* ------------------------------------------------------------------------------------------ *)
(* A line of the file as far as the lookup for ONE host is concerned: its marker ("@revoked", "@cert-authority"
   or none), whether anything follows the key (a trailing comment), whether its host field names the host
   (literal id, member of a comma list, matching |1| hash — the matching itself is KnownHosts.v / C16) and the key.
   Only a line WITHOUT a marker is a trust entry: a revoked key is never accepted, a cert-authority line only
   matters for host certificates (which scrapli never asks for). *)
Inductive marker := MPlain | MRevoked | MCertAuthority.
Record khline := mkL { l_marker : marker; l_comment : bool; l_hit : bool; l_key : bytes }.
Definition is_plain (m : marker) : bool := match m with MPlain => true | _ => false end.

(* which lines a reader files as entries: [r_marker_blind] = strips a leading marker and keeps the rest,
   [r_comments] = accepts text after the key *)
Record reader := mkR { r_marker_blind : bool; r_comments : bool }.
Definition selected (rd : reader) (l : khline) : bool :=
  (r_marker_blind rd || is_plain (l_marker l)) && (r_comments rd || negb (l_comment l)).
(* SSHKnownHosts._parse as written: the line pattern is exactly three fields "host keytype key", so a line with a
   marker in front (four fields) or a comment behind is not selected *)
Definition reader_as_written : reader := mkR false false.

Definition hits (rd : reader) (ls : list khline) : list khline :=
  filter (fun l => selected rd l && l_hit l) ls.
(* lookup among the selected lines naming the host: for literal ids a later line overwrites the earlier one
   ([first] = false), the |1| ids are scanned in file order ([first] = true) *)
Definition lookup_lines (rd : reader) (first : bool) (ls : list khline) : option bytes :=
  match (if first then hits rd ls else rev (hits rd ls)) with
  | [] => None
  | l :: _ => Some (l_key l)
  end.

(* the specification's side: some NON-marker line naming the host carries the key *)
Definition plain_entry_has (ls : list khline) (sk : bytes) : bool :=
  existsb (fun l => is_plain (l_marker l) && l_hit l && beq (l_key l) sk) ls.

Definition opt_beq (a b : option bytes) : bool :=
  match a, b with
  | None, None => true
  | Some x, Some y => beq x y
  | _, _ => false
  end.
