(* Prompt.v — model of prompt classification (_determine_current_priv) and of the decision
   obligations of C05.  Definitions only. *)
From Coq Require Import String.
From Verif Require Import Bytes Regex RegexDeriv RegexDecide RegexSearch.

Record level := mkLevel { l_name : string; l_pat : re; l_ncs : list bytes }.

(* a level matches a prompt when no not_contains entry is a substring and the pattern is found *)
Definition level_conjs (l : level) : list top :=
  map (fun nc => TNot (t_contains nc)) (l_ncs l) ++ [t_search (l_pat l)].
Definition level_top (l : level) : top := t_all (level_conjs l).
Definition level_matches (l : level) (s : bytes) : bool := accepts (level_top l) s.

(* _determine_current_priv: names of all matching levels, in table (dict) order *)
Definition classify (tbl : list level) (s : bytes) : list string :=
  map l_name (filter (fun l => level_matches l s) tbl).

Definition in_class (cls : list string) (l : level) : bool := existsb (String.eqb (l_name l)) cls.
Definition expected (tbl : list level) (cls : list string) : list string :=
  map l_name (filter (in_class cls) tbl).

(* a grammar is a CONJUNCTION given as a list: positive conjuncts (whole-string membership in a
   regex: the line format, a total-length bound) and negative ones (carve-outs: the string does not
   contain a match of a regex) *)
Definition grammar_conjs (pos : list re) (carves : list re) : list top :=
  map t_full pos ++ map (fun c => TNot (t_search c)) carves.
Definition gtop (Gs : list top) : top := t_all Gs.

Definition is_pos (t : top) : bool := match t with TNot _ => false | _ => true end.
(* the grammar without its carve-outs: a superset, with a much smaller automaton *)
Definition weaken (Gs : list top) : top := t_all (filter is_pos Gs).

(* ---- facts decided by the emptiness checker ---- *)
(* [FLevel Gs Rs l pos]: every string of the grammar Gs is matched by level l (pos) / is not (not pos)
   [FDetect Gs Rs r]:    the pattern r is found in every string of the grammar
   [Rs] is a hint for the search, never part of the statement: regexes claimed to contain every string
   of the positive part of Gs (the line format with its length counters relaxed to * / +).  The claim
   is itself decided before it is used. *)
Inductive fact := FLevel (Gs : list top) (Rs : list re) (l : level) (pos : bool)
                | FDetect (Gs : list top) (Rs : list re) (r : re).

(* the relaxed grammar: counter-free line format, same carve-outs *)
Definition relaxed (Gs : list top) (Rs : list re) : top :=
  t_all (map t_full Rs ++ filter (fun g => negb (is_pos g)) Gs).

(* [G ∧ t] is empty; tried first with the weakened grammar (sound: a superset of G) *)
(* NB: written with [if], not [||]: vm_compute is call-by-value, [a || b] would run both searches *)
Definition empty_with (CL : list cset) (atoms : list atom) (fuel : nat) (Gs : list top) (Rs : list re) (t : top) : bool :=
  if decide1 CL atoms fuel (TAnd (weaken Gs) t) then true
  else if (match Rs with
           | [] => false
           | _ => if decide1 CL atoms fuel (TAnd (weaken Gs) (TNot (t_all (map t_full Rs))))
                  then decide1 CL atoms fuel (TAnd (relaxed Gs Rs) t) else false
           end) then true
  else decide1 CL atoms fuel (TAnd (gtop Gs) t).

Definition fact_check (CL : list cset) (atoms : list atom) (fuel : nat) (f : fact) : bool :=
  match f with
  | FLevel Gs Rs l true =>
      (* G inside the conjunction  <=  G inside every conjunct *)
      forallb (fun c => empty_with CL atoms fuel Gs Rs (TNot c)) (level_conjs l)
  | FLevel Gs Rs l false =>
      (* G disjoint from the conjunction  <=  disjoint from the pattern conjunct alone (cheap, and the
         usual reason), or from all conjuncts at once *)
      if empty_with CL atoms fuel Gs Rs (t_search (l_pat l)) then true
      else empty_with CL atoms fuel Gs Rs (level_top l)
  | FDetect Gs Rs r => empty_with CL atoms fuel Gs Rs (TNot (t_search r))
  end.

(* the classes of one fact; atoms are computed from them, so every fact is decided over its own
   (small) alphabet partition *)
Definition fact_classes (f : fact) : list cset :=
  match f with
  | FLevel Gs Rs l _ => top_classes (gtop Gs) ++ flat_map re_classes Rs ++ top_classes (level_top l)
  | FDetect Gs Rs r => top_classes (gtop Gs) ++ flat_map re_classes Rs ++ top_classes (t_search r)
  end.

Definition fact_check_auto (fuel : nat) (f : fact) : bool :=
  let CL := nodup_cs (cset_all :: fact_classes f) [] in
  fact_check CL (mk_atoms CL) fuel f.

Definition fact_holds (f : fact) : Prop :=
  match f with
  | FLevel Gs _ l pos => forall s, all_bytes s = true -> accepts (gtop Gs) s = true -> level_matches l s = pos
  | FDetect Gs _ r => forall s, all_bytes s = true -> accepts (gtop Gs) s = true -> search_b r s = true
  end.

(* structural equality of facts (to look a needed fact up in the list of decided ones) *)
Definition level_eqb (a b : level) : bool :=
  String.eqb (l_name a) (l_name b) && re_eqb (l_pat a) (l_pat b) && lbeq (l_ncs a) (l_ncs b).

Fixpoint ltop_eqb (a b : list top) : bool :=
  match a, b with
  | [], [] => true
  | x :: a', y :: b' => top_eqb x y && ltop_eqb a' b'
  | _, _ => false
  end.

Fixpoint lre_eqb (a b : list re) : bool :=
  match a, b with
  | [], [] => true
  | x :: a', y :: b' => re_eqb x y && lre_eqb a' b'
  | _, _ => false
  end.

Definition fact_eqb (a b : fact) : bool :=
  match a, b with
  | FLevel g1 h1 l1 p1, FLevel g2 h2 l2 p2 => ltop_eqb g1 g2 && lre_eqb h1 h2 && level_eqb l1 l2 && Bool.eqb p1 p2
  | FDetect g1 h1 r1, FDetect g2 h2 r2 => ltop_eqb g1 g2 && lre_eqb h1 h2 && re_eqb r1 r2
  | _, _ => false
  end.

(* one C05 obligation: a grammar (classification form [o_G], detection form [o_D] = newline, prompt,
   trailing blank), the table and combined pattern of a constructed driver, the expected class *)
Record obligation := mkOb {
  o_label : string; o_tbl : list level; o_combined : re; o_G : list top; o_D : list top; o_cls : list string;
  o_GR : list re; o_DR : list re }.    (* relaxed line formats: search hints, see [fact] *)

Definition ob_facts (o : obligation) : list fact :=
  map (fun l => FLevel (o_G o) (o_GR o) l (in_class (o_cls o) l)) (o_tbl o) ++ [FDetect (o_D o) (o_DR o) (o_combined o)].

(* an obligation is discharged when each fact it needs is among the decided facts *)
Definition ob_covered (decided : list fact) (o : obligation) : bool :=
  forallb (fun f => existsb (fact_eqb f) decided) (ob_facts o).

Definition ob_holds (o : obligation) : Prop :=
  forall s, all_bytes s = true ->
    (accepts (gtop (o_G o)) s = true -> classify (o_tbl o) s = expected (o_tbl o) (o_cls o)) /\
    (accepts (gtop (o_D o)) s = true -> search_b (o_combined o) s = true).

(* witness mode (diagnosis when a fact cannot be decided): a shortest string of the grammar on
   which the fact fails, if the search finds one *)
Definition fact_witness (atoms : list atom) (fuel : nat) (f : fact) : option bytes :=
  match f with
  | FLevel Gs _ l true =>
      fold_right (fun c acc => match witness atoms fuel (TAnd (gtop Gs) (TNot c)) with Some w => Some w | None => acc end)
                 None (level_conjs l)
  | FLevel Gs _ l false => witness atoms fuel (TAnd (gtop Gs) (level_top l))
  | FDetect Gs _ r => witness atoms fuel (TAnd (gtop Gs) (TNot (t_search r)))
  end.

Definition fact_witness_auto (fuel : nat) (f : fact) : option bytes :=
  fact_witness (mk_atoms (nodup_cs (cset_all :: fact_classes f) [])) fuel f.

(* the classifier as the driver sees it: an empty list of matching levels is ScrapliPrivilegeError *)
Definition classify_opt (tbl : list level) (s : bytes) : option (list string) :=
  match classify tbl s with [] => None | l => Some l end.
