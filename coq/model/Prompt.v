(* Prompt.v — model of prompt classification (_determine_current_priv) and of the decision
   obligations of C05.  Definitions only. *)
From Coq Require Import String.
From Verif Require Import Bytes Regex RegexDeriv RegexDecide.

Record level := mkLevel { l_name : string; l_pat : re; l_ncs : list bytes }.

(* a level matches a prompt when no not_contains entry is a substring and the pattern is found *)
Definition level_top (l : level) : top :=
  t_all (map (fun nc => TNot (t_contains nc)) (l_ncs l) ++ [t_search (l_pat l)]).

Definition level_matches (l : level) (s : bytes) : bool := accepts (level_top l) s.

(* _determine_current_priv: names of all matching levels, in table (dict) order *)
Definition classify (tbl : list level) (s : bytes) : list string :=
  map l_name (filter (fun l => level_matches l s) tbl).

Definition in_class (cls : list string) (l : level) : bool := existsb (String.eqb (l_name l)) cls.

Definition expected (tbl : list level) (cls : list string) : list string :=
  map l_name (filter (in_class cls) tbl).

(* a grammar: whole-string membership in G, minus the carve-outs *)
Definition grammar_top (G : re) (carves : list re) : top :=
  t_all (t_full G :: map (fun c => TNot (t_search c)) carves).

Definition check_level (CL : list cset) (atoms : list atom) (fuel : nat)
  (tbl : list level) (Gt : top) (cls : list string) : bool :=
  forallb (fun l => if in_class cls l
                    then decide_empty CL atoms fuel (TAnd Gt (TNot (level_top l)))
                    else decide_empty CL atoms fuel (TAnd Gt (level_top l))) tbl.

Definition check_detect (CL : list cset) (atoms : list atom) (fuel : nat)
  (combined : re) (Gt : top) : bool :=
  decide_empty CL atoms fuel (TAnd Gt (TNot (t_search combined))).

(* one C05 obligation: a grammar (classification form [o_G], detection form [o_D] = newline, prompt,
   trailing blank), the table and combined pattern of a constructed driver, the expected class *)
Record obligation := mkOb {
  o_label : string; o_tbl : list level; o_combined : re; o_G : top; o_D : top; o_cls : list string }.

Definition check_ob (CL : list cset) (atoms : list atom) (fuel : nat) (o : obligation) : bool :=
  check_level CL atoms fuel (o_tbl o) (o_G o) (o_cls o) &&
  check_detect CL atoms fuel (o_combined o) (o_D o).

Definition ob_holds (o : obligation) : Prop :=
  forall s, all_bytes s = true ->
    (accepts (o_G o) s = true -> classify (o_tbl o) s = expected (o_tbl o) (o_cls o)) /\
    (accepts (o_D o) s = true -> search_b (o_combined o) s = true).
