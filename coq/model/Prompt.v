(* Prompt.v — model of prompt classification (_determine_current_priv) and of the decision
   obligations of C05.  Definitions only. *)
From Coq Require Import String.
From Verif Require Import Bytes Regex RegexDeriv RegexDecide.

Record level := mkLevel { l_name : string; l_pat : re; l_ncs : list bytes }.

(* a level matches a prompt when no not_contains entry is a substring and the pattern is found *)
Definition level_conjs (l : level) : list top :=
  map (fun nc => TNot (t_contains nc)) (l_ncs l) ++ [t_search (l_pat l)].
Definition level_top (l : level) : top := t_all (level_conjs l).
Definition level_matches (l : level) (s : bytes) : bool := accepts (level_top l) s.

(* _determine_current_priv: names of all matching levels, in table (dict) order *)
Definition classify (tbl : list level) (s : bytes) : list string :=
  map l_name (filter (fun l => level_matches l s) tbl).

Definition in_class (cls : list string) (l : level) : bool := existsb (String.eqb (l_name l)) cls.
Definition expected (tbl : list level) (cls : list string) : list string :=
  map l_name (filter (in_class cls) tbl).

(* a grammar: whole-string membership in G, minus the carve-outs *)
Definition grammar_top (G : re) (carves : list re) : top :=
  t_all (t_full G :: map (fun c => TNot (t_search c)) carves).

(* ---- facts decided by the emptiness checker ---- *)
(* [FLevel Gm l pos]: every string of Gm is matched by level l (pos) / by no means matched (not pos)
   [FDetect Gm r]:    the pattern r is found in every string of Gm *)
Inductive fact := FLevel (Gm : top) (l : level) (pos : bool) | FDetect (Gm : top) (r : re).

Definition fact_check (CL : list cset) (atoms : list atom) (fuel : nat) (f : fact) : bool :=
  match f with
  | FLevel Gm l true =>
      (* Gm inside the conjunction  <=  Gm inside every conjunct *)
      forallb (fun c => decide_empty CL atoms fuel (TAnd Gm (TNot c))) (level_conjs l)
  | FLevel Gm l false =>
      (* Gm disjoint from the conjunction  <=  disjoint from one conjunct, or from all at once *)
      existsb (fun c => decide_empty CL atoms fuel (TAnd Gm c)) (level_conjs l)
      || decide_empty CL atoms fuel (TAnd Gm (level_top l))
  | FDetect Gm r => decide_empty CL atoms fuel (TAnd Gm (TNot (t_search r)))
  end.

Definition fact_holds (f : fact) : Prop :=
  match f with
  | FLevel Gm l pos => forall s, all_bytes s = true -> accepts Gm s = true -> level_matches l s = pos
  | FDetect Gm r => forall s, all_bytes s = true -> accepts Gm s = true -> search_b r s = true
  end.

(* structural equality of facts (to look a needed fact up in the list of decided ones) *)
Definition level_eqb (a b : level) : bool :=
  String.eqb (l_name a) (l_name b) && re_eqb (l_pat a) (l_pat b) && lbeq (l_ncs a) (l_ncs b).

Definition fact_eqb (a b : fact) : bool :=
  match a, b with
  | FLevel g1 l1 p1, FLevel g2 l2 p2 => top_eqb g1 g2 && level_eqb l1 l2 && Bool.eqb p1 p2
  | FDetect g1 r1, FDetect g2 r2 => top_eqb g1 g2 && re_eqb r1 r2
  | _, _ => false
  end.

(* one C05 obligation: a grammar (classification form [o_G], detection form [o_D] = newline, prompt,
   trailing blank), the table and combined pattern of a constructed driver, the expected class *)
Record obligation := mkOb {
  o_label : string; o_tbl : list level; o_combined : re; o_G : top; o_D : top; o_cls : list string }.

Definition ob_facts (o : obligation) : list fact :=
  map (fun l => FLevel (o_G o) l (in_class (o_cls o) l)) (o_tbl o) ++ [FDetect (o_D o) (o_combined o)].

(* an obligation is discharged when each fact it needs is among the decided facts *)
Definition ob_covered (decided : list fact) (o : obligation) : bool :=
  forallb (fun f => existsb (fact_eqb f) decided) (ob_facts o).

Definition ob_holds (o : obligation) : Prop :=
  forall s, all_bytes s = true ->
    (accepts (o_G o) s = true -> classify (o_tbl o) s = expected (o_tbl o) (o_cls o)) /\
    (accepts (o_D o) s = true -> search_b (o_combined o) s = true).

(* witness mode (diagnosis when a fact cannot be decided): a shortest string of the grammar on
   which the fact fails, if the search finds one *)
Definition fact_witness (atoms : list atom) (fuel : nat) (f : fact) : option bytes :=
  match f with
  | FLevel Gm l true =>
      fold_right (fun c acc => match witness atoms fuel (TAnd Gm (TNot c)) with Some w => Some w | None => acc end)
                 None (level_conjs l)
  | FLevel Gm l false => witness atoms fuel (TAnd Gm (level_top l))
  | FDetect Gm r => witness atoms fuel (TAnd Gm (TNot (t_search r)))
  end.
