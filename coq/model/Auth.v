(* Auth.v — model for C09 (in-channel login answers the right prompt, once, and gives up safely).
   Definitions only; proofs are in proofs/Auth_Proofs.v.

   Part 1: the two login loops of scrapli/channel/sync_channel.py and async_channel.py
           (channel_authenticate_telnet, channel_authenticate_ssh) as ONE state machine over the
           sequence of read events; the sync and the asyncio loop differ only in the events they
           can see (the asyncio loop polls: a poll expiry is an iteration with buf = b"").
   Part 2: a causal login server (a list of phases, the next one printed when an answer arrives)
           and the closed loop client x server x chunking schedule.
   Part 3: the side condition of the completion theorems as a Prop (dlg_ok) and as an executable
           test (dlg_okb), the line-based reading of the property's proviso (lines_clean), and the
           concrete instance built from translated regular expressions. *)
From Verif Require Import Bytes Regex RegexDeriv.

(* ------------------------------------------------------------------------------------------ *)
(* Part 1 — the login loops                                                                   *)
(* ------------------------------------------------------------------------------------------ *)

Inductive cred := CUser | CPass | CPhrase.
Inductive lkind := Telnet | Ssh.

Definition cred_eqb (a b : cred) : bool :=
  match a, b with
  | CUser, CUser | CPass, CPass | CPhrase, CPhrase => true
  | _, _ => false
  end.

(* the prompts a loop looks for, in the order of its `if re.search(...)` blocks *)
Definition creds (k : lkind) : list cred :=
  match k with Telnet => [CUser; CPass] | Ssh => [CPass; CPhrase] end.

Definition is_telnet (k : lkind) : bool := match k with Telnet => true | Ssh => false end.
Definition is_ssh (k : lkind) : bool := match k with Telnet => false | Ssh => true end.

Record cfg := mkCfg {
  c_kind : lkind;
  c_pat : cred -> bytes -> bool;   (* re.search(<pattern of the credential>, authenticate_buf) *)
  c_prompt : bytes -> bool;        (* re.search(prompt_pattern, authenticate_buf) *)
  c_fatal : bytes -> bool;         (* _ssh_message_handler(authenticate_buf) raises *)
  c_ans : cred -> bytes;           (* auth_username / auth_password / auth_private_key_passphrase *)
  c_ret : bytes;                   (* comms_return_char *)
  c_interval : N                   (* return_interval, in milliseconds *)
}.

(* what one loop iteration gets from `read`.  t = milliseconds since auth_start_time when the
   iteration looks at the clock (it only does so when buf is empty):
     EData b t  — read() returned b (b may be empty: a chunk of only "\r", EOF on Telnet);
     EExpire t  — asyncio only: wait_for expired, buf = b"";
     EErr       — read() raised ScrapliConnectionError. *)
Inductive ev := EData (b : bytes) (t : N) | EExpire (t : N) | EErr.

(* the history of a login as the device side sees it plus what was read:
     IRead b — an iteration obtained b;  IAns c — credential c was written, followed by a return;
     IRet — a bare return (Telnet kick or the connection-error branch). *)
Inductive item := IRead (b : bytes) | IAns (c : cred) | IRet.

Inductive why := WThird (c : cred) | WFatal.
Inductive outcome :=
  | ODone                   (* prompt seen: returns *)
  | OAuthFailed (w : why)   (* ScrapliAuthenticationFailed *)
  | OConnErr                (* ScrapliConnectionError propagates (ssh loop) *)
  | OBlocks.                (* nothing more to read: waits until the timeout decorator fires *)

Record counts := mkCounts { n_user : nat; n_pass : nat; n_phrase : nat }.
Definition zero : counts := mkCounts 0 0 0.
Definition getc (n : counts) (c : cred) : nat :=
  match c with CUser => n_user n | CPass => n_pass n | CPhrase => n_phrase n end.
Definition incc (n : counts) (c : cred) : counts :=
  match c with
  | CUser => mkCounts (S (n_user n)) (n_pass n) (n_phrase n)
  | CPass => mkCounts (n_user n) (S (n_pass n)) (n_phrase n)
  | CPhrase => mkCounts (n_user n) (n_pass n) (S (n_phrase n))
  end.

Record st := mkSt {
  s_buf : bytes;     (* authenticate_buf *)
  s_cnt : counts;    (* username_count / password_count / passphrase_count *)
  s_att : nat        (* return_attempts *)
}.
Definition init : st := mkSt [] zero 1.

(* result of the chain of `if re.search(pattern, authenticate_buf): ...` blocks *)
Inductive cres := CkGo (buf : bytes) (n : counts) | CkThird (c : cred).

(* each block: on a match clear the buffer, count, raise on the third sighting, else write the
   credential and a return; the NEXT block then looks at the cleared buffer *)
Fixpoint checks (cf : cfg) (cs : list cred) (buf : bytes) (n : counts) : list item * cres :=
  match cs with
  | [] => ([], CkGo buf n)
  | c :: r =>
      if c_pat cf c buf then
        if Nat.ltb 2 (S (getc n c)) then ([], CkThird c)
        else let (its, res) := checks cf r [] (incc n c) in (IAns c :: its, res)
      else checks cf r buf n
  end.

Inductive res := Go (s : st) | Stop (o : outcome).

Definition is_nil {A} (l : list A) : bool := match l with [] => true | _ => false end.

(* the Telnet kick: `if not buf: if (now - start) > return_interval * return_attempts` *)
Definition kicks (cf : cfg) (s : st) (b : bytes) (t : N) : bool :=
  is_telnet (c_kind cf) && is_nil b && (c_interval cf * N.of_nat (s_att s) <? t).

(* the loop body once `buf` is known *)
Definition body (cf : cfg) (s : st) (b : bytes) (t : N) : list item * res :=
  let k := kicks cf s b t in
  let att := if k then S (s_att s) else s_att s in
  let its0 := IRead b :: (if k then [IRet] else []) in
  let cur := s_buf s ++ lower b in
  if is_ssh (c_kind cf) && c_fatal cf cur then (its0, Stop (OAuthFailed WFatal))
  else
    match checks cf (creds (c_kind cf)) cur (s_cnt s) with
    | (its, CkThird c) => (its0 ++ its, Stop (OAuthFailed (WThird c)))
    | (its, CkGo buf n) =>
        if c_prompt cf buf then (its0 ++ its, Stop ODone)
        else (its0 ++ its, Go (mkSt buf n att))
    end.

Definition step (cf : cfg) (s : st) (e : ev) : list item * res :=
  match e with
  | EData b t => body cf s b t
  | EExpire t => body cf s [] t
  | EErr =>
      match c_kind cf with
      | Telnet => ([IRet], Go (mkSt (s_buf s) (s_cnt s) (S (s_att s))))
      | Ssh => ([], Stop OConnErr)
      end
  end.

(* run the loop over a list of events; [Go s]: the events are used up and the loop still runs *)
Fixpoint exec (cf : cfg) (s : st) (evs : list ev) : list item * res :=
  match evs with
  | [] => ([], Go s)
  | e :: r =>
      match step cf s e with
      | (its, Stop o) => (its, Stop o)
      | (its, Go s') => let (its', x) := exec cf s' r in (its ++ its', x)
      end
  end.

Definition outcome_of (r : res) : outcome := match r with Stop o => o | Go _ => OBlocks end.

Definition run (cf : cfg) (evs : list ev) : outcome * list item :=
  let (its, r) := exec cf init evs in (outcome_of r, its).

(* Channel.read(): "\r" is dropped before the login loop sees the chunk *)
Definition prep (e : ev) : ev :=
  match e with EData b t => EData (remove_byte 13 b) t | _ => e end.
Definition run_raw (cf : cfg) (evs : list ev) : outcome * list item := run cf (map prep evs).

(* the asyncio loop's poll expiry seen as the sync loop's empty read *)
Definition as_sync (e : ev) : ev := match e with EExpire t => EData [] t | _ => e end.

(* ---- reading a history ---- *)
Definition writes_of (cf : cfg) (its : list item) : list bytes :=
  flat_map (fun i => match i with
                     | IRead _ => []
                     | IAns c => [c_ans cf c; c_ret cf]
                     | IRet => [c_ret cf]
                     end) its.

Definition answers (its : list item) : list cred :=
  flat_map (fun i => match i with IAns c => [c] | _ => [] end) its.

Definition count_ans (c : cred) (its : list item) : nat :=
  length (filter (cred_eqb c) (answers its)).

Definition count_ret (its : list item) : nat :=
  length (filter (fun i => match i with IRet => true | _ => false end) its).

(* what has been read since the last credential was written — computed from the history alone *)
Fixpoint sc (acc : bytes) (its : list item) : bytes :=
  match its with
  | [] => acc
  | IRead b :: r => sc (acc ++ lower b) r
  | IAns _ :: r => sc [] r
  | IRet :: r => sc acc r
  end.
Definition since_clear (its : list item) : bytes := sc [] its.

Definition ev_time (e : ev) : N := match e with EData _ t => t | EExpire t => t | EErr => 0 end.
Definition is_err (e : ev) : bool := match e with EErr => true | _ => false end.
Definition ev_empty (e : ev) : bool :=
  match e with EData b _ => is_nil b | EExpire _ => true | EErr => false end.

(* ------------------------------------------------------------------------------------------ *)
(* Part 2 — login server and closed loop                                                      *)
(* ------------------------------------------------------------------------------------------ *)

(* what the server is waiting for after printing a phase *)
Inductive expect := XCred (c : cred) | XShell | XFatal.

Definition expect_eqb (a b : expect) : bool :=
  match a, b with
  | XCred c, XCred d => cred_eqb c d
  | XShell, XShell | XFatal, XFatal => true
  | _, _ => false
  end.

(* a phase = decoration (banner, echo, MOTD, ssh client warnings: whole lines) + the text of the
   prompt or fatal message it ends with *)
Record phase := mkPhase { p_deco : bytes; p_text : bytes; p_exp : expect }.
Definition p_all (p : phase) : bytes := p_deco p ++ p_text p.

(* how the loop body reacts to a buffer when nothing matches the empty buffer *)
Definition react (cf : cfg) (b : bytes) : option expect :=
  if is_ssh (c_kind cf) && c_fatal cf b then Some XFatal
  else match find (fun c => c_pat cf c b) (creds (c_kind cf)) with
       | Some c => Some (XCred c)
       | None => if c_prompt cf b then Some XShell else None
       end.

(* the server prints the next phase for every answer (credential + return) it receives *)
Fixpoint advance (n : nat) (pend : bytes) (phs : list phase) : bytes * list phase :=
  match n with
  | O => (pend, phs)
  | S n' =>
      match phs with
      | [] => (pend, [])
      | _ :: later =>
          match later with
          | [] => advance n' pend []
          | ph :: _ => advance n' (pend ++ p_all ph) later
          end
      end
  end.

(* closed loop: pend = printed by the server and not yet read; phs = phases not yet answered (the
   text of the first one is already in pend).  A schedule entry (n, t): the next read delivers at
   most n bytes (n = 0: an empty read / poll expiry) at time t.  A read of n > 0 bytes with nothing
   pending blocks: the server is waiting for the client. *)
Inductive clres := ClMore (s : st) (pend : bytes) (phs : list phase) | ClStop (o : outcome).

Fixpoint cl_exec (cf : cfg) (s : st) (pend : bytes) (phs : list phase) (sched : list (nat * N))
  : list item * clres :=
  match sched with
  | [] => ([], ClMore s pend phs)
  | (n, t) :: r =>
      if negb (Nat.eqb n 0) && is_nil pend then ([], ClStop OBlocks)
      else
        match body cf s (firstn n pend) t with
        | (its, Stop o) => (its, ClStop o)
        | (its, Go s') =>
            let (pend', phs') := advance (length (answers its)) (skipn n pend) phs in
            let (its', x) := cl_exec cf s' pend' phs' r in (its ++ its', x)
        end
  end.

Definition cl_start (phs : list phase) : bytes :=
  match phs with [] => [] | ph :: _ => p_all ph end.

Definition cl_run (cf : cfg) (phs : list phase) (sched : list (nat * N)) : list item * clres :=
  cl_exec cf init (cl_start phs) phs sched.

(* the events the closed loop feeds to the login loop *)
Fixpoint cl_events (cf : cfg) (s : st) (pend : bytes) (phs : list phase) (sched : list (nat * N))
  : list ev :=
  match sched with
  | [] => []
  | (n, t) :: r =>
      if negb (Nat.eqb n 0) && is_nil pend then []
      else EData (firstn n pend) t ::
        match body cf s (firstn n pend) t with
        | (_, Stop _) => []
        | (its, Go s') =>
            let (pend', phs') := advance (length (answers its)) (skipn n pend) phs in
            cl_events cf s' pend' phs' r
        end
  end.

(* what a dialogue must lead to: the credentials that are written, in order, and how it ends *)
Fixpoint expected (n : counts) (phs : list phase) : outcome * list cred :=
  match phs with
  | [] => (OBlocks, [])
  | ph :: later =>
      match p_exp ph with
      | XShell => (ODone, [])
      | XFatal => (OAuthFailed WFatal, [])
      | XCred c =>
          if Nat.leb 2 (getc n c) then (OAuthFailed (WThird c), [])
          else let (o, l) := expected (incc n c) later in (o, c :: l)
      end
  end.

(* how much text the server prints until the dialogue ends that way *)
Fixpoint needed (n : counts) (phs : list phase) : nat :=
  match phs with
  | [] => 0
  | ph :: later =>
      length (p_all ph) +
      match p_exp ph with
      | XCred c => if Nat.leb 2 (getc n c) then 0 else needed (incc n c) later
      | _ => 0
      end
  end.
Definition later_len (n : counts) (phs : list phase) : nat :=
  match phs with
  | [] => 0
  | ph :: later =>
      match p_exp ph with
      | XCred c => if Nat.leb 2 (getc n c) then 0 else needed (incc n c) later
      | _ => 0
      end
  end.

Definition occ (c : cred) (cs : list cred) : nat := length (filter (cred_eqb c) cs).
Definition addc (n : counts) (cs : list cred) : counts := fold_left incc cs n.

Definition count_pos (sched : list (nat * N)) : nat :=
  length (filter (fun x => negb (Nat.eqb (fst x) 0)) sched).
Definition total_len (phs : list phase) : nat := length (flat_map p_all phs).

(* ------------------------------------------------------------------------------------------ *)
(* Part 3 — side conditions                                                                   *)
(* ------------------------------------------------------------------------------------------ *)

(* nothing matches the empty buffer *)
Definition empties (cf : cfg) : Prop :=
  (forall c, c_pat cf c [] = false) /\ c_prompt cf [] = false /\ c_fatal cf [] = false.
Definition emptiesb (cf : cfg) : bool :=
  negb (c_pat cf CUser []) && negb (c_pat cf CPass []) && negb (c_pat cf CPhrase []) &&
  negb (c_prompt cf []) && negb (c_fatal cf []).

(* the rest of a text is read without any reaction *)
Definition quiet (cf : cfg) (buf rem : bytes) : Prop :=
  forall x y, rem = x ++ y -> react cf (buf ++ lower x) = None.

(* "no chunk-prefix looks like a prompt": with buf read since the last answer and rem still to be
   read before the server waits for e, every read boundary inside rem leaves a buffer that either
   provokes nothing or is taken for e itself (then the same must hold for the next phase, which
   starts with the unread rest y); and rem read completely is taken for e. *)
Fixpoint ok (cf : cfg) (later : list phase) (e : expect) (buf rem : bytes) {struct later} : Prop :=
  react cf (buf ++ lower rem) = Some e /\
  forall x y, rem = x ++ y ->
    react cf (buf ++ lower x) = None \/
    (react cf (buf ++ lower x) = Some e /\
     match e with
     | XCred _ =>
         match later with
         | [] => quiet cf [] y
         | ph :: later' => ok cf later' (p_exp ph) [] (y ++ p_all ph)
         end
     | _ => True
     end).

Definition dlg_ok (cf : cfg) (phs : list phase) : Prop :=
  match phs with [] => True | ph :: later => ok cf later (p_exp ph) [] (p_all ph) end.

(* ---- the same, executable ---- *)
Fixpoint splits (s : bytes) : list (bytes * bytes) :=
  ([], s) :: match s with
             | [] => []
             | c :: r => map (fun p => (c :: fst p, snd p)) (splits r)
             end.

Definition oexp_eqb (a b : option expect) : bool :=
  match a, b with
  | None, None => true
  | Some x, Some y => expect_eqb x y
  | _, _ => false
  end.

Definition quietb (cf : cfg) (buf rem : bytes) : bool :=
  forallb (fun p => oexp_eqb (react cf (buf ++ lower (fst p))) None) (splits rem).

Fixpoint okb (cf : cfg) (later : list phase) (e : expect) (buf rem : bytes) {struct later} : bool :=
  oexp_eqb (react cf (buf ++ lower rem)) (Some e) &&
  forallb (fun p =>
    match react cf (buf ++ lower (fst p)) with
    | None => true
    | Some e' =>
        expect_eqb e' e &&
        match e with
        | XCred _ =>
            match later with
            | [] => quietb cf [] (snd p)
            | ph :: later' => okb cf later' (p_exp ph) [] (snd p ++ p_all ph)
            end
        | _ => true
        end
    end) (splits rem).

Definition dlg_okb (cf : cfg) (phs : list phase) : bool :=
  match phs with [] => true | ph :: later => okb cf later (p_exp ph) [] (p_all ph) end.

(* ---- the proviso of the property read line by line: no complete line of a banner / MOTD looks
   like a prompt, and the prompt text on its own is an accepted spelling ---- *)
Definition lines_of (s : bytes) : list bytes := splitlines s.

Definition phase_lines_clean (cf : cfg) (p : phase) : bool :=
  forallb (fun l => oexp_eqb (react cf (lower l)) None) (lines_of (p_deco p)) &&
  oexp_eqb (react cf (lower (p_text p))) (Some (p_exp p)) &&
  (is_nil (p_deco p) || match last (p_deco p) 0 with 10 => true | _ => false end).

Definition lines_clean (cf : cfg) (phs : list phase) : bool := forallb (phase_lines_clean cf) phs.

(* schedules *)
Definition no_kick_sched (cf : cfg) (sched : list (nat * N)) : Prop :=
  Forall (fun x => snd x <= c_interval cf) sched.
Definition no_kick_schedb (cf : cfg) (sched : list (nat * N)) : bool :=
  forallb (fun x => snd x <=? c_interval cf) sched.
Definition bytewise (n : nat) : list (nat * N) := repeat (1%nat, 0) n.

(* ---- concrete instance: patterns are translated regular expressions, fatal messages literals -- *)
Definition any_infix (lits : list bytes) (b : bytes) : bool := existsb (fun l => infixb l b) lits.

Definition re_cfg (k : lkind) (ru rp rk rprompt : re) (fatal_lower fatal_raw : list bytes)
           (user pass phrase ret : bytes) (interval : N) : cfg :=
  mkCfg k
    (fun c => match c with CUser => search_b ru | CPass => search_b rp | CPhrase => search_b rk end)
    (search_b rprompt)
    (* `lit in output.lower()` for the first list, `lit in output` for the second *)
    (fun b => any_infix fatal_lower (lower b) || any_infix fatal_raw b)
    (fun c => match c with CUser => user | CPass => pass | CPhrase => phrase end)
    ret interval.

(* a small instance with literal "patterns" (suffix tests), used by the static examples *)
Fixpoint suffixb (p s : bytes) : bool :=
  beq p s || match s with [] => false | _ :: r => suffixb p r end.

Definition lit_cfg (k : lkind) (pu pp pk pprompt : bytes) (fatal_lits : list bytes) (interval : N) : cfg :=
  mkCfg k
    (fun c => match c with CUser => suffixb pu | CPass => suffixb pp | CPhrase => suffixb pk end)
    (suffixb pprompt)
    (fun b => any_infix fatal_lits b)
    (fun c => match c with CUser => [117] | CPass => [112] | CPhrase => [107] end)
    [10] interval.

(* canonical codes for the correspondence run *)
Definition cred_code (c : cred) : N := match c with CUser => 1 | CPass => 2 | CPhrase => 3 end.
Definition outcome_code (o : outcome) : N :=
  match o with
  | ODone => 0
  | OAuthFailed (WThird c) => cred_code c
  | OAuthFailed WFatal => 4
  | OConnErr => 5
  | OBlocks => 6
  end.
Definition clres_code (r : clres) : N :=
  match r with ClStop o => outcome_code o | ClMore _ _ _ => 7 end.

(* interleaved history as the harness records it: 0 :: read bytes / 1 :: written bytes *)
Definition history (cf : cfg) (its : list item) : list bytes :=
  flat_map (fun i => match i with
                     | IRead b => [0 :: b]
                     | IAns c => [1 :: c_ans cf c; 1 :: c_ret cf]
                     | IRet => [1 :: c_ret cf]
                     end) its.

(* ------------------------------------------------------------------------------------------ *)
(* Part 4 — the shape of the loops as gen/gen_auth.py reads it from the source (Gen_Auth.v)     *)
(* ------------------------------------------------------------------------------------------ *)
(* one `if re.search(pattern, authenticate_buf):` block.  b_pat: which pattern (1 login, 2 password,
   3 passphrase, 4 prompt); b_limit: K of `if count > K: raise`; b_ordered: count += 1 before the
   limit test before write before send_return; b_writes: the argument written (1 username,
   2 password, 3 passphrase); b_returns: the block is `return` (prompt seen) *)
Record block := mkBlock {
  b_pat : N; b_clear : bool; b_count : bool; b_limit : nat; b_ordered : bool;
  b_writes : N; b_ret : bool; b_returns : bool
}.
(* k_steps: the while-loop body in order: 1 read, 2 kick test, 3 authenticate_buf += buf.lower(),
   4 _ssh_message_handler(authenticate_buf), 5 a pattern block (asyncio sleeps left out) *)
Record skel := mkSkel {
  k_steps : list N; k_blocks : list block;
  k_handler : bool; k_acc_lower : bool; k_kick : bool;
  k_catches : bool; k_err_return : bool; k_err_counts : bool; k_expire_empty : bool
}.

Definition cred_block (c : cred) : block := mkBlock (cred_code c) true true 2 true (cred_code c) true false.
Definition prompt_block : block := mkBlock 4 false false 0 false 0 false true.

(* the shape the model above stands for *)
Definition skeleton (k : lkind) : skel :=
  mkSkel
    ([1] ++ (if is_telnet k then [2] else []) ++ [3] ++ (if is_ssh k then [4] else []) ++
     map (fun _ => 5) (creds k) ++ [5])
    (map cred_block (creds k) ++ [prompt_block])
    (is_ssh k) true (is_telnet k) (is_telnet k) (is_telnet k) (is_telnet k) true.

Definition block_eqb (a b : block) : bool :=
  (b_pat a =? b_pat b) && Bool.eqb (b_clear a) (b_clear b) && Bool.eqb (b_count a) (b_count b) &&
  Nat.eqb (b_limit a) (b_limit b) && Bool.eqb (b_ordered a) (b_ordered b) && (b_writes a =? b_writes b) &&
  Bool.eqb (b_ret a) (b_ret b) && Bool.eqb (b_returns a) (b_returns b).

Fixpoint blocks_eqb (a b : list block) : bool :=
  match a, b with
  | [], [] => true
  | x :: a', y :: b' => block_eqb x y && blocks_eqb a' b'
  | _, _ => false
  end.

Definition skel_eqb (a b : skel) : bool :=
  beq (k_steps a) (k_steps b) && blocks_eqb (k_blocks a) (k_blocks b) &&
  Bool.eqb (k_handler a) (k_handler b) && Bool.eqb (k_acc_lower a) (k_acc_lower b) &&
  Bool.eqb (k_kick a) (k_kick b) && Bool.eqb (k_catches a) (k_catches b) &&
  Bool.eqb (k_err_return a) (k_err_return b) && Bool.eqb (k_err_counts a) (k_err_counts b) &&
  Bool.eqb (k_expire_empty a) (k_expire_empty b).

(* ------------------------------------------------------------------------------------------ *)
(* Part 5 — histories: several logins on ONE channel / driver object (open, close, open, ...)  *)
(* ------------------------------------------------------------------------------------------ *)
(* Where the prompt counters, the login buffer and return_attempts live decides what a login call
   inherits from the earlier ones on the same object:
     CsLocal  — they are locals of the login function, initialised by every call (the shape
                gen/gen_auth.py reads from the source: Gen_Auth.gen_counter_scope);
     CsObject — the counters are attributes of the channel object, initialised with it and never
                reset: a call starts from what the earlier calls have counted. *)
Inductive cscope := CsLocal | CsObject.

Definition start_of (sc : cscope) (carried : counts) : st :=
  match sc with CsLocal => init | CsObject => mkSt [] carried 1 end.

(* open loop: one list of read events per login; carried = prompts answered by the earlier logins *)
Fixpoint hist_run (sc : cscope) (cf : cfg) (carried : counts) (logins : list (list ev))
  : list (outcome * list item) :=
  match logins with
  | [] => []
  | evs :: rest =>
      let r := exec cf (start_of sc carried) evs in
      (outcome_of (snd r), fst r) :: hist_run sc cf (addc carried (answers (fst r))) rest
  end.

(* closed loop: every login talks to a fresh server session (its dialogue and chunking schedule) *)
Fixpoint hist_cl (sc : cscope) (cf : cfg) (carried : counts) (ss : list (list phase * list (nat * N)))
  : list (list item * clres) :=
  match ss with
  | [] => []
  | s :: rest =>
      let r := cl_exec cf (start_of sc carried) (cl_start (fst s)) (fst s) (snd s) in
      r :: hist_cl sc cf (addc carried (answers (fst r))) rest
  end.

(* a session in which the server accepts the credentials: it asks for se_cs (each at most twice: one
   re-prompt), then prints the MOTD and the shell prompt; the schedule delivers all of it *)
Record session := mkSession {
  se_asked : list phase; se_ph : phase; se_rest : list phase; se_cs : list cred; se_sched : list (nat * N)
}.
Definition se_phs (s : session) : list phase := se_asked s ++ se_ph s :: se_rest s.
Definition se_io (s : session) : list phase * list (nat * N) := (se_phs s, se_sched s).

Definition session_ok (cf : cfg) (s : session) : Prop :=
  map p_exp (se_asked s) = map XCred (se_cs s) /\ p_exp (se_ph s) = XShell /\
  (forall c, occ c (se_cs s) <= 2)%nat /\
  dlg_ok cf (se_phs s) /\ no_kick_sched cf (se_sched s) /\
  (total_len (se_asked s ++ [se_ph s]) < count_pos (se_sched s))%nat.

(* the login of this session returned, having written exactly one answer per prompt *)
Definition login_done (s : session) (r : list item * clres) : Prop :=
  snd r = ClStop ODone /\ answers (fst r) = se_cs s /\ count_ret (fst r) = 0%nat.

(* "with valid credentials login completes", for EVERY login of EVERY history on one object *)
Definition history_completes_for (sc : cscope) : Prop :=
  forall cf ss, empties cf -> Forall (session_ok cf) ss ->
    Forall2 login_done ss (hist_cl sc cf zero (map se_io ss)).

Definition cscope_eqb (a b : cscope) : bool :=
  match a, b with CsLocal, CsLocal | CsObject, CsObject => true | _, _ => false end.
