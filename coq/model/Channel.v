(* Channel.v — executable model of scrapli's channel read loops and of the Generic driver's
   send_command / send_commands / send_interactive / get_prompt on top of them, closed over a causal
   line-oriented device and an arbitrary chunker (C01).  Definitions only; proofs in
   proofs/Channel_Proofs.v.

   Mirrors scrapli/channel/{base,sync,async}_channel.py as the code is in the worktree:
     read                    remove CR; carry over a trailing partial escape sequence; strip ANSI iff ESC present
                             (no ESC in what was read: handed on verbatim, whatever 0x9b / 0x9d bytes it has)
     _read_until_input       strict mode: lower, drop BS, squash white space, substring test
     _process_read_buf       last [depth] bytes, partition at the first newline, fall back to the head
     _read_until_prompt / _read_until_explicit_prompt / get_prompt / send_input / send_inputs_interact
     _process_output         splitlines / rstrip / join / re.sub(prompt) / lstrip(return char) / rstrip
   The regular-expression matcher is a record of three functions (search, group(0), sub): the general
   theorems quantify over it; [re_matcher] instantiates it with the priority engine on a pattern
   generated from the source.  A read with nothing pending is the outcome [Blocks]. *)
From Verif Require Import Bytes Regex RegexPrio Response.

Inductive outcome (A : Type) : Type := Ok (a : A) | Blocks | OutOfFuel.
Arguments Ok {A} a.
Arguments Blocks {A}.
Arguments OutOfFuel {A}.

Definition bind {A B} (o : outcome A) (f : A -> outcome B) : outcome B :=
  match o with Ok a => f a | Blocks => Blocks | OutOfFuel => OutOfFuel end.

(* ---------------------------------------------------------------------------------------------- *)
(* the matcher: re.search(prompt_pattern, .) as a bool, .group(0) of the first match, re.sub(.., b"") *)
Record matcher := mkM {
  m_search : bytes -> bool;
  m_group0 : bytes -> option bytes;
  m_sub : bytes -> bytes }.

Definition re_matcher (r : re) : matcher := mkM (search_bool r) (group0 r) (sub_all r).

(* _get_prompt_pattern(class_pattern, pattern): "" -> the class pattern; "^...$" -> compiled with
   re.M | re.I; anything else -> re.escape, i.e. a literal, case-sensitive substring search *)
Inductive xpat := XLit (l : bytes) | XClass | XRe (r : re).

Definition xsearch (M : matcher) (p : xpat) (b : bytes) : bool :=
  match p with XLit l => infixb l b | XClass => m_search M b | XRe r => search_bool r b end.

Definition is_class (p : xpat) : bool := match p with XClass => true | _ => false end.

Record cfg := mkCfg {
  c_M : matcher;
  c_depth : nat;                       (* comms_prompt_search_depth *)
  c_ret : bytes;                       (* comms_return_char, encoded *)
  c_hold : bytes -> bytes * bytes;     (* _hold_back_partial_ansi on a buffer that contains ESC: (kept, held back) *)
  c_strip : bytes -> bytes }.          (* _strip_ansi *)

(* ---------------------------------------------------------------------------------------------- *)
(* the device (twin of harness/c01_dev.py FramingDevice) *)
Definition stage := (bytes * bytes * bool)%type.      (* text, question, answer echoed? *)
Inductive reply := RPlain (out : bytes) | RDialog (stages : list stage) (final : bytes).
Inductive dmode := Ready | Asking (echo : bool) (rest : list stage) (final : bytes).

Record dev := mkDev {
  d_line : bytes;                      (* input line being typed *)
  d_skip : bool;                       (* a CR was just taken as return: swallow the LF that follows *)
  d_mode : dmode;
  d_count : nat;                       (* lines executed at the prompt so far *)
  d_log : list (bytes * bytes) }.      (* (line as received, clean text printed in answer) *)

Record env := mkEnv {
  e_ch : nat -> nat -> bytes -> nat;   (* chunker: read index, bytes delivered so far, pending bytes -> size *)
  e_prompt : bytes;
  e_nl : bytes;                        (* the device's line terminator *)
  e_reply : nat -> bytes -> reply }.   (* execution index, stripped line -> what the device does *)

Definition crlf (nl s : bytes) : bytes := flat_map (fun c => if c =? 10 then nl else [c]) s.
Definition dbody (nl text : bytes) : bytes := match text with [] => [] | _ => crlf nl text ++ nl end.
Definition body (text : bytes) : bytes := match text with [] => [] | _ => text ++ [10] end.

(* what a return does, given the line typed so far: (new mode, new count, new log, text emitted) *)
Definition ret_stage (e : env) (log : list (bytes * bytes)) (raw : bytes) (count : nat) (stages : list stage)
  (final : bytes) : dmode * nat * list (bytes * bytes) * bytes :=
  match stages with
  | (t, q, ec) :: rest =>
      (Asking ec rest final, count, log ++ [(raw, body t ++ q)], e_nl e ++ dbody (e_nl e) t ++ q)
  | [] =>
      (Ready, count, log ++ [(raw, final)], e_nl e ++ dbody (e_nl e) final ++ e_prompt e)
  end.

Definition ret_core (e : env) (raw : bytes) (mode : dmode) (count : nat) (log : list (bytes * bytes))
  : dmode * nat * list (bytes * bytes) * bytes :=
  match mode with
  | Asking _ rest final => ret_stage e log raw count rest final
  | Ready =>
      match strip_ws raw with
      | [] => (Ready, count, log, e_nl e ++ e_prompt e)
      | key =>
          match e_reply e count key with
          | RPlain out => ret_stage e log raw (S count) [] out
          | RDialog stages final => ret_stage e log raw (S count) stages final
          end
      end
  end.

Definition dev_return (e : env) (dv : dev) : dev * bytes :=
  let '(mode, count, log, out) := ret_core e (d_line dv) (d_mode dv) (d_count dv) (d_log dv) in
  (mkDev [] (d_skip dv) mode count log, out).

Definition set_skip (b : bool) (dv : dev) : dev :=
  mkDev (d_line dv) b (d_mode dv) (d_count dv) (d_log dv).

Definition dev_echo (dv : dev) : bool :=
  match d_mode dv with Ready => true | Asking ec _ _ => ec end.

Definition dev_feed1 (e : env) (st : dev * bytes) (c : N) : dev * bytes :=
  let (dv, em) := st in
  if c =? 13 then let (dv', o) := dev_return e (set_skip true dv) in (dv', em ++ o)
  else if c =? 10 then
    if d_skip dv then (set_skip false dv, em)
    else let (dv', o) := dev_return e dv in (dv', em ++ o)
  else (mkDev (d_line dv ++ [c]) false (d_mode dv) (d_count dv) (d_log dv),
        if dev_echo dv then em ++ [c] else em).

Definition dev_feed (e : env) (dv : dev) (data : bytes) : dev * bytes :=
  fold_left (dev_feed1 e) data (dv, []).

(* ---------------------------------------------------------------------------------------------- *)
(* the world: device + scripted transport + the channel's carried-over partial escape sequence *)
Record world := mkW {
  w_pending : bytes;                   (* printed by the device, not yet read *)
  w_delivered : nat;
  w_reads : nat;
  w_partial : bytes;                   (* channel._ansi_partial *)
  w_dev : dev;
  w_written : bytes }.

Definition t_write (e : env) (data : bytes) (w : world) : world :=
  let (dv, em) := dev_feed e (w_dev w) data in
  mkW (w_pending w ++ em) (w_delivered w) (w_reads w) (w_partial w) dv (w_written w ++ data).

Definition take (e : env) (w : world) : nat :=
  let p := length (w_pending w) in
  Nat.max 1 (Nat.min p (e_ch e (w_reads w) (w_delivered w) (w_pending w))).

Definition rm13 (s : bytes) : bytes := remove_byte 13 s.

(* Channel.read over Transport.read *)
Definition ch_read (c : cfg) (e : env) (w : world) : outcome (bytes * world) :=
  match w_pending w with
  | [] => Blocks
  | _ =>
      let n := take e w in
      let b1 := w_partial w ++ rm13 (firstn n (w_pending w)) in
      let '(keep, held) := if mem 27 b1 then c_hold c b1 else (b1, []) in
      let out := if mem 27 keep then c_strip c keep else keep in
      Ok (out, mkW (skipn n (w_pending w)) (w_delivered w + n) (S (w_reads w)) held (w_dev w) (w_written w))
  end.

(* "buf += read(); if <test on buf>: return" — the shape of all four read loops *)
Fixpoint rloop {R} (c : cfg) (e : env) (Q : bytes -> option R) (fuel : nat) (acc : bytes) (w : world)
  : outcome (R * world) :=
  match fuel with
  | O => OutOfFuel
  | S f =>
      match ch_read c e w with
      | Ok (b, w') =>
          let acc' := acc ++ b in
          match Q acc' with Some r => Ok (r, w') | None => rloop c e Q f acc' w' end
      | Blocks => Blocks
      | OutOfFuel => OutOfFuel
      end
  end.

Definition fuel_of (w : world) : nat := S (length (w_pending w)).

Definition test (b : bool) (buf : bytes) : option bytes := if b then Some buf else None.

(* _read_until_input, strict mode *)
Definition proc_echo (buf : bytes) : bytes := squash_ws (remove_byte 8 (lower buf)).
Definition q_input (pin buf : bytes) : option bytes := test (infixb pin (proc_echo buf)) buf.
Definition read_until_input (c : cfg) (e : env) (input : bytes) (w : world) : outcome (bytes * world) :=
  match input with
  | [] => Ok ([], w)
  | _ => rloop c e (q_input (squash_ws (lower input))) (fuel_of w) [] w
  end.

(* _process_read_buf *)
Definition prb (d : nat) (b : bytes) : bytes :=
  let '(h, _, t) := partition_byte 10 (lastn d b) in
  match t with [] => h | _ => t end.

Definition q_prompt (c : cfg) (buf : bytes) : option bytes :=
  test (m_search (c_M c) (prb (c_depth c) buf)) buf.
Definition read_until_prompt (c : cfg) (e : env) (w : world) : outcome (bytes * world) :=
  rloop c e (q_prompt c) (fuel_of w) [] w.

Definition q_explicit (c : cfg) (pats : list xpat) (buf : bytes) : option bytes :=
  test (existsb (fun p => xsearch (c_M c) p (prb (c_depth c) buf)) pats) buf.
Definition read_until_explicit (c : cfg) (e : env) (pats : list xpat) (w : world) : outcome (bytes * world) :=
  rloop c e (q_explicit c pats) (fuel_of w) [] w.

(* get_prompt: send return; search the WHOLE buffer; group(0).decode().strip() *)
Definition q_getprompt (c : cfg) (buf : bytes) : option bytes :=
  match m_group0 (c_M c) buf with Some g => Some (strip_ws g) | None => None end.
Definition get_prompt (c : cfg) (e : env) (w : world) : outcome (bytes * world) :=
  let w1 := t_write e (c_ret c) w in
  rloop c e (q_getprompt c) (fuel_of w1) [] w1.

(* _process_output *)
Definition process_output (c : cfg) (buf : bytes) (strip : bool) : bytes :=
  let j := join [10] (map rstrip_ws (splitlines buf)) in
  let j' := if strip then m_sub (c_M c) j else j in
  rstrip_ws (lstrip_chars (c_ret c) j').

(* send_input *)
Definition send_input (c : cfg) (e : env) (input : bytes) (strip eager eager_input : bool) (w : world)
  : outcome (bytes * bytes * world) :=
  let w1 := t_write e input w in
  bind (if eager_input then Ok ([], w1) else read_until_input c e input w1) (fun r1 =>
  let w3 := t_write e (c_ret c) (snd r1) in
  bind (if eager then Ok ([], w3) else read_until_prompt c e w3) (fun r2 =>
  Ok (fst r2, process_output c (fst r2) strip, snd r2))).

(* send_inputs_interact *)
Record event := mkEv { ev_input : bytes; ev_resp : xpat; ev_hidden : bool }.

Definition interaction_complete (c : cfg) (eb : bytes) (resp : xpat) (complete : list xpat) : bool :=
  match complete with
  | [] => false
  | _ => let sb := prb (c_depth c) eb in
         if xsearch (c_M c) resp sb then false else existsb (fun p => xsearch (c_M c) p sb) complete
  end.

Fixpoint interact_events (c : cfg) (e : env) (evs : list event) (complete : list xpat) (buf : bytes) (w : world)
  : outcome (bytes * world) :=
  match evs with
  | [] => Ok (buf, w)
  | ev :: rest =>
      let w1 := t_write e (ev_input ev) w in
      bind (if negb (is_class (ev_resp ev)) && negb (ev_hidden ev)
            then read_until_input c e (ev_input ev) w1 else Ok ([], w1)) (fun r1 =>
      let w3 := t_write e (c_ret c) (snd r1) in
      bind (read_until_explicit c e (ev_resp ev :: complete) w3) (fun r2 =>
      let buf' := buf ++ fst r1 ++ fst r2 in
      if interaction_complete c (fst r2) (ev_resp ev) complete then Ok (buf', snd r2)
      else interact_events c e rest complete buf' (snd r2)))
  end.

Definition send_inputs_interact (c : cfg) (e : env) (evs : list event) (complete : list xpat) (w : world)
  : outcome (bytes * bytes * world) :=
  bind (interact_events c e evs complete [] w) (fun r =>
  Ok (fst r, process_output c (fst r) false, snd r)).

(* ---------------------------------------------------------------------------------------------- *)
(* the Generic driver on top (scrapli/driver/generic/*_driver.py, scrapli/response.py) *)
Record resp := mkResp { rs_raw : bytes; rs_result : bytes; rs_failed : bool }.

(* _pre_send_command ; channel.send_input ; _post_send_command (record_response, then raw_result) *)
Definition post_send (input raw processed : bytes) : resp :=
  let r := record_response (new_response input FNone) processed in
  mkResp raw (r_result r) (r_failed r).

Definition send_command (c : cfg) (e : env) (cmd : bytes) (strip eager : bool) (w : world) : outcome (resp * world) :=
  bind (send_input c e cmd strip eager false w) (fun r =>
  Ok (post_send cmd (fst (fst r)) (snd (fst r)), snd r)).

(* send_commands: all but the last with the caller's eager flag, the last one never eager *)
Fixpoint send_commands (c : cfg) (e : env) (cmds : list bytes) (strip eager : bool) (w : world)
  : outcome (list resp * world) :=
  match cmds with
  | [] => Ok ([], w)
  | [x] => bind (send_command c e x strip false w) (fun r => Ok ([fst r], snd r))
  | x :: rest =>
      bind (send_command c e x strip eager w) (fun r =>
      bind (send_commands c e rest strip eager (snd r)) (fun rs => Ok (fst r :: fst rs, snd rs)))
  end.

Definition join_inputs (evs : list event) : bytes := join [44; 32] (map ev_input evs).

Definition send_interactive (c : cfg) (e : env) (evs : list event) (complete : list xpat) (w : world)
  : outcome (resp * world) :=
  bind (send_inputs_interact c e evs complete w) (fun r =>
  Ok (post_send (join_inputs evs) (fst (fst r)) (snd (fst r)), snd r)).

Inductive op :=
| OCmd (cmd : bytes) (strip : bool)
| OCmds (cmds : list bytes) (strip eager : bool)
| OInter (evs : list event) (complete : list xpat)
| OPrompt.

Inductive opres := PCmd (r : resp) | PCmds (rs : list resp) | PInter (r : resp) | PPrompt (p : bytes).

Definition run_op (c : cfg) (e : env) (o : op) (w : world) : outcome (opres * world) :=
  match o with
  | OCmd cmd strip => bind (send_command c e cmd strip false w) (fun r => Ok (PCmd (fst r), snd r))
  | OCmds cmds strip eager => bind (send_commands c e cmds strip eager w) (fun r => Ok (PCmds (fst r), snd r))
  | OInter evs complete => bind (send_interactive c e evs complete w) (fun r => Ok (PInter (fst r), snd r))
  | OPrompt => bind (get_prompt c e w) (fun r => Ok (PPrompt (fst r), snd r))
  end.

(* a history: stops at the first operation that does not return *)
Fixpoint run_ops (c : cfg) (e : env) (ops : list op) (w : world) : list opres * outcome world :=
  match ops with
  | [] => ([], Ok w)
  | o :: rest =>
      match run_op c e o w with
      | Ok (r, w') => let (rs, fin) := run_ops c e rest w' in (r :: rs, fin)
      | Blocks => ([], Blocks)
      | OutOfFuel => ([], OutOfFuel)
      end
  end.

(* ---------------------------------------------------------------------------------------------- *)
(* concrete pieces of the executable instance *)

(* _hold_back_partial_ansi: leftmost position from which [r] (ANSI_ESCAPE_PARTIAL_PATTERN without its
   final \Z) matches up to the very end of the buffer *)
Definition at_end (c : cursor) : option cursor := match snd c with [] => Some c | _ => None end.

Fixpoint hold_from (r : re) (pre : bytes) (c : cursor) (fuel : nat) : bytes * bytes :=
  match m r c at_end with
  | Some _ => (rev pre, snd c)
  | None =>
      match fuel, snd c with
      | S f, x :: rest => hold_from r (x :: pre) (x =? 10, rest) f
      | _, _ => (rev pre ++ snd c, [])
      end
  end.

Definition hold_back (r : re) (b : bytes) : bytes * bytes := hold_from r [] (true, b) (length b).

(* the same after the follow-up repair: the buffer is walked as re.finditer(ANSI | (?P<partial>PARTIAL)) walks
   it — at every position a whole escape sequence first (skipped, it stays in the buffer), failing that the start
   of one that reaches the end of the buffer (held back), failing that one character further *)
Fixpoint hold_scan (ansi partial : re) (pre : bytes) (c : cursor) (fuel : nat) : bytes * bytes :=
  match fuel with
  | O => (rev pre ++ snd c, [])
  | S f =>
      let step (_ : unit) :=
        match snd c with
        | x :: rest => hold_scan ansi partial (x :: pre) (x =? 10, rest) f
        | [] => (rev pre, [])
        end in
      match match_at ansi c with
      | Some e =>
          let n := (length (snd c) - length (snd e))%nat in
          if Nat.ltb 0 n then hold_scan ansi partial (rev (firstn n (snd c)) ++ pre) e f else step tt
      | None =>
          match m partial c at_end with
          | Some _ => (rev pre, snd c)
          | None => step tt
          end
      end
  end.

Definition hold_back_scan (ansi partial : re) (b : bytes) : bytes * bytes :=
  hold_scan ansi partial [] (true, b) (S (length b)).

Definition re_cfg (prompt ansi partial : re) (scan : bool) (depth : nat) (ret : bytes) : cfg :=
  mkCfg (re_matcher prompt) depth ret
        (if scan then hold_back_scan ansi partial else hold_back partial) (sub_all ansi).

(* chunk policies of the correspondence run (harness/c01_dev.py PolicyChunker) *)
Inductive policy := PWhole | PBytes (n : nat) | PTakes (l : list nat) | PBlank | PLines | PCuts (l : list nat)
                  | PTail (k : nat).   (* all but the last k pending bytes at once, then byte by byte *)

Definition is_blank (c : N) : bool := (c =? 32) || (c =? 9).

Fixpoint count_lead (p : N -> bool) (s : bytes) : nat :=
  match s with c :: r => if p c then S (count_lead p r) else O | [] => O end.

Fixpoint first_cut (cuts : list nat) (lo hi : nat) : option nat :=
  match cuts with
  | [] => None
  | x :: r => if Nat.ltb lo x && Nat.ltb x hi then Some x else first_cut r lo hi
  end.

Definition policy_ch (p : policy) : nat -> nat -> bytes -> nat := fun k delivered pending =>
  let n := length pending in
  match p with
  | PWhole => n
  | PBytes x => x
  | PTakes l => match l with [] => 1%nat | _ => nth (Nat.modulo k (length l)) l 1%nat end
  | PBlank => let tb := count_lead is_blank (rev pending) in
              if Nat.ltb 0 tb && Nat.ltb tb n then (n - tb)%nat else n
  | PLines => match find_byte 10 pending with Some i => S i | None => n end
  | PCuts l => match first_cut l delivered (delivered + n) with Some x => (x - delivered)%nat | None => n end
  | PTail k => if Nat.ltb k n then (n - k)%nat else 1%nat
  end.

Definition script_reply (script : list reply) : nat -> bytes -> reply := fun k _ => nth k script (RPlain []).

Definition dev0 : dev := mkDev [] false Ready 0 [].
Definition world0 (pending : bytes) (delivered : nat) : world := mkW pending delivered 0 [] dev0 [].

(* one Channel.read on one transport chunk, as observed on the real read() by gen/gen_channel.py (_read_probes): what was
   carried over before, the chunk the transport hands out; [ch_read] is to return [out] and to carry over [held].  The
   ANSI pattern is applied only to a chunk that (after the hold-back) contains ESC: bytes 0x9b / 0x9d, which the pattern
   would also start at, are ordinary UTF-8 continuation bytes and pass verbatim when no ESC was read. *)
Definition probe_env : env := mkEnv (fun _ _ p => length p) [] [10] (fun _ _ => RPlain []).
Definition read_probe_ok (c : cfg) (partial chunk out held : bytes) : bool :=
  match ch_read c probe_env (mkW chunk 0 0 partial dev0 []) with
  | Ok (b, w') => (beq b out && beq (w_partial w') held && beq (w_pending w') [])%bool
  | _ => false
  end.

(* ---------------------------------------------------------------------------------------------- *)
(* specification side: what "exactly the text the device printed" means *)
Fixpoint split10 (s : bytes) : list bytes :=
  match s with
  | [] => [[]]
  | c :: r => if c =? 10 then [] :: split10 r
              else match split10 r with h :: t => (c :: h) :: t | [] => [[c]] end
  end.

Fixpoint drop_empty (l : list bytes) : list bytes :=
  match l with [] :: r => drop_empty r | _ => l end.

Definition trim_blank (l : list bytes) : list bytes := rev (drop_empty (rev (drop_empty l))).

(* trailing white space of every line trimmed, surrounding blank lines trimmed *)
Definition normalise (s : bytes) : bytes := join [10] (trim_blank (map rstrip_ws (split10 s))).

(* ---------------------------------------------------------------------------------------------- *)
(* interface of the correspondence run (harness/c01.py): a scenario, what the real driver showed, the check *)
Record scen := mkScen {
  s_pat : re; s_depth : nat; s_ret : bytes;
  s_prompt : bytes; s_nl : bytes; s_script : list reply;
  s_policy : policy; s_pending0 : bytes; s_delivered0 : nat;
  s_ops : list op }.

Record obs := mkObs {
  o_res : list opres;
  o_code : N;                          (* 0: every operation returned; 1: the last one starved *)
  o_residue : bytes; o_log : list (bytes * bytes); o_written : bytes; o_ready : bool }.

Definition scen_cfg (ansi partial : re) (scan : bool) (s : scen) : cfg :=
  re_cfg (s_pat s) ansi partial scan (s_depth s) (s_ret s).
Definition scen_env (s : scen) : env := mkEnv (policy_ch (s_policy s)) (s_prompt s) (s_nl s) (script_reply (s_script s)).

Definition run_scen (ansi partial : re) (scan : bool) (s : scen) : list opres * outcome world :=
  run_ops (scen_cfg ansi partial scan s) (scen_env s) (s_ops s) (world0 (s_pending0 s) (s_delivered0 s)).

Definition resp_beq (a b : resp) : bool :=
  beq (rs_raw a) (rs_raw b) && beq (rs_result a) (rs_result b) && Bool.eqb (rs_failed a) (rs_failed b).

Fixpoint list_beq {A} (f : A -> A -> bool) (a b : list A) : bool :=
  match a, b with
  | [], [] => true
  | x :: a', y :: b' => f x y && list_beq f a' b'
  | _, _ => false
  end.

Definition opres_beq (a b : opres) : bool :=
  match a, b with
  | PCmd x, PCmd y => resp_beq x y
  | PCmds x, PCmds y => list_beq resp_beq x y
  | PInter x, PInter y => resp_beq x y
  | PPrompt x, PPrompt y => beq x y
  | _, _ => false
  end.

Definition pair_beq (a b : bytes * bytes) : bool := beq (fst a) (fst b) && beq (snd a) (snd b).

Definition dev_ready (dv : dev) : bool :=
  match d_mode dv, d_line dv with Ready, [] => true | _, _ => false end.

Definition check_scen (ansi partial : re) (scan : bool) (s : scen) (o : obs) : bool :=
  let (rs, fin) := run_scen ansi partial scan s in
  list_beq opres_beq rs (o_res o) &&
  match fin with
  | Ok w => (o_code o =? 0) && beq (w_pending w) (o_residue o) && list_beq pair_beq (d_log (w_dev w)) (o_log o)
            && beq (w_written w) (o_written o) && Bool.eqb (dev_ready (w_dev w)) (o_ready o)
  | Blocks => o_code o =? 1
  | OutOfFuel => false
  end.

(* ---------------------------------------------------------------------------------------------- *)
(* a history in segments: the prompt pattern is CHANGED between operations (conn.comms_prompt_pattern = ..., the
   channel's arguments, update_privilege_levels() after editing a level pattern).  Every segment runs under the
   pattern in force - the channel reads the pattern text at each use - on the world the previous one left: device,
   transport (read index, bytes delivered, unread residue) and carried-over escape sequence go on *)
Definition seg := (re * list op)%type.

Fixpoint run_segs (mk : re -> cfg) (e : env) (segs : list seg) (w : world) : list opres * outcome world :=
  match segs with
  | [] => ([], Ok w)
  | (r, ops) :: rest =>
      match run_ops (mk r) e ops w with
      | (rs, Ok w') => let (rs', fin) := run_segs mk e rest w' in (rs ++ rs', fin)
      | (rs, fin) => (rs, fin)
      end
  end.

(* correspondence interface for such histories: [s_pat] / [s_ops] of the scenario are not used, the segments are *)
Definition check_segs (ansi partial : re) (scan : bool) (s : scen) (segs : list seg) (o : obs) : bool :=
  let (rs, fin) := run_segs (fun r => re_cfg r ansi partial scan (s_depth s) (s_ret s)) (scen_env s) segs
                            (world0 (s_pending0 s) (s_delivered0 s)) in
  list_beq opres_beq rs (o_res o) &&
  match fin with
  | Ok w => (o_code o =? 0) && beq (w_pending w) (o_residue o) && list_beq pair_beq (d_log (w_dev w)) (o_log o)
            && beq (w_written w) (o_written o) && Bool.eqb (dev_ready (w_dev w)) (o_ready o)
  | Blocks => o_code o =? 1
  | OutOfFuel => false
  end.
