(* OpenHist.v — (1) SystemTransport.open() over SEVERAL transport objects living in one process
   (scrapli/transport/plugins/system/transport.py: __init__ gives every object its own `open_cmd`
   list, open() builds it only while it is empty, _build_open_cmd() rebinds a non-empty one) and the
   broken twin in which `open_cmd` is a class-level list shared by all objects; (2) the keyword
   arguments the asyncssh transport hands to asyncssh.connect, read the way the library reads them:
   an ABSENT keyword is resolved by the library itself (ssh config / local login name), a present
   one — the empty string included — is taken as it is.  Definitions only. *)
From Coq Require Import String.
From Verif Require Import Bytes Resolve SshArgv.

(* ---- (1) histories of opens ---- *)
(* what one transport object holds: its own BaseTransportArgs / plugin arguments *)
Record sys_obj := mkSO {
  so_b : base_targs; so_tsock : N; so_ttrans : N; so_p : plugin_targs; so_extra : list str
}.
Definition obj_argv (o : sys_obj) : list str :=
  build_open_cmd (so_b o) (so_tsock o) (so_ttrans o) (so_p o) (so_extra o).

(* open() / close() of object i, and a direct call of object i's _build_open_cmd() *)
Inductive hop := HOpen (i : nat) | HClose (i : nat) | HBuild (i : nat).

(* `if self.open_cmd:` *)
Definition cmd_set (c : list str) : bool := match c with [] => false | _ => true end.

Fixpoint upd {A} (i : nat) (x : A) (l : list A) : list A :=
  match l, i with
  | [], _ => []
  | _ :: r, O => x :: r
  | y :: r, S j => y :: upd j x r
  end.

(* the code as it is: one `open_cmd` per object; an event (i, argv) = object i spawned argv *)
Definition hstate := list (list str).
Definition hstep (objs : list sys_obj) (st : hstate) (op : hop) : hstate * list (nat * list str) :=
  match op with
  | HOpen i =>
      match nth_error objs i, nth_error st i with
      | Some o, Some c =>
          let c' := if cmd_set c then c else obj_argv o in (upd i c' st, [(i, c')])
      | _, _ => (st, [])
      end
  | HBuild i =>
      match nth_error objs i with
      | Some o => (upd i (obj_argv o) st, [])
      | None => (st, [])
      end
  | HClose _ => (st, [])
  end.
Fixpoint hrun (objs : list sys_obj) (st : hstate) (ops : list hop) : list (nat * list str) :=
  match ops with
  | [] => []
  | op :: r => let '(st', ev) := hstep objs st op in ev ++ hrun objs st' r
  end.
Definition hist_spawns (objs : list sys_obj) (ops : list hop) : list (nat * list str) :=
  hrun objs (map (fun _ => []) objs) ops.

(* what every open must spawn: a function of the opened object's own record only *)
Definition spawn_of (objs : list sys_obj) (op : hop) : list (nat * list str) :=
  match op with
  | HOpen i => match nth_error objs i with Some o => [(i, obj_argv o)] | None => [] end
  | _ => []
  end.

(* the broken twin: `open_cmd` declared on the class.  An object reads its own attribute if it has
   one (after a rebinding `self.open_cmd = []`), else the class-level list; `.extend` mutates
   whichever list was read. *)
Record shstate := mkSH { sh_cls : list str; sh_inst : list (option (list str)) }.
Definition sh_read (s : shstate) (i : nat) : list str :=
  match nth_error (sh_inst s) i with Some (Some c) => c | _ => sh_cls s end.
Definition sh_build (o : sys_obj) (s : shstate) (i : nat) : shstate :=
  if cmd_set (sh_read s i) then mkSH (sh_cls s) (upd i (Some (obj_argv o)) (sh_inst s))
  else match nth_error (sh_inst s) i with
       | Some (Some _) => mkSH (sh_cls s) (upd i (Some (obj_argv o)) (sh_inst s))
       | _ => mkSH (obj_argv o) (sh_inst s)
       end.
Definition shstep (objs : list sys_obj) (s : shstate) (op : hop) : shstate * list (nat * list str) :=
  match op with
  | HOpen i =>
      match nth_error objs i with
      | Some o => let s' := if cmd_set (sh_read s i) then s else sh_build o s i in (s', [(i, sh_read s' i)])
      | None => (s, [])
      end
  | HBuild i => match nth_error objs i with Some o => (sh_build o s i, []) | None => (s, []) end
  | HClose _ => (s, [])
  end.
Fixpoint shrun (objs : list sys_obj) (s : shstate) (ops : list hop) : list (nat * list str) :=
  match ops with
  | [] => []
  | op :: r => let '(s', ev) := shstep objs s op in ev ++ shrun objs s' r
  end.
Definition shared_spawns (objs : list sys_obj) (ops : list hop) : list (nat * list str) :=
  shrun objs (mkSH [] (map (fun _ => None) objs)) ops.

(* ---- (2) keyword arguments of a library connect call ---- *)
(* None = the keyword is absent *)
Record conn_kwargs := mkK { k_host : option str; k_port : option N; k_user : option str }.
(* what the library takes for an absent keyword (asyncssh: the ssh config file it is given, else the
   local login name / port 22) — unknown to the driver, hence a parameter *)
Record lib_env := mkL { l_host : str; l_port : N; l_user : str }.
Definition okw {A} (d : A) (k : option A) : A := match k with Some x => x | None => d end.
Definition lib_resolve (l : lib_env) (k : conn_kwargs) : str * N * str :=
  (okw (l_host l) (k_host k), okw (l_port l) (k_port k), okw (l_user l) (k_user k)).

(* AsyncsshTransport.open: common_args host / port / username are always present *)
Definition asyncssh_kwargs (b : base_targs) (p : plugin_targs) : conn_kwargs :=
  mkK (Some (b_host b)) (Some (b_port b)) (Some (p_user p)).
(* the twin that passes `username` only when the driver has one *)
Definition asyncssh_kwargs_user_if_any (b : base_targs) (p : plugin_targs) : conn_kwargs :=
  mkK (Some (b_host b)) (Some (b_port b)) (if nonempty_s (p_user p) then Some (p_user p) else None).

(* ---- (3) several asyncssh objects of one process; the dict the user passed as
   transport_options["asyncssh"] may be ONE object held by several of them ---- *)
(* a user dict, as far as the connection parameters go: the host / port / username keys it holds
   (None = key absent).  The site-wide keys (kex / cipher lists, keepalive ...) pass through to the
   library untouched and are not modelled. *)
Definition udict := conn_kwargs.
Definition kw_empty : udict := mkK None None None.
Definition kw_free (u : udict) : Prop := k_host u = None /\ k_port u = None /\ k_user u = None.
Definition oor {A} (a b : option A) : option A := match a with Some _ => a | None => b end.
(* `common_args.update(user dict)` / `user_dict.setdefault(key, ours)`: the user's keys win *)
Definition kw_over (u k : conn_kwargs) : conn_kwargs :=
  mkK (oor (k_host u) (k_host k)) (oor (k_port u) (k_port k)) (oor (k_user u) (k_user k)).

(* an object: its own arguments + the ADDRESS (index into the heap of user dicts) of the dict it was
   constructed with.  Two objects with the same address hold the same dict object: the aliasing. *)
Record as_obj := mkAO { ao_b : base_targs; ao_p : plugin_targs; ao_d : nat }.
Definition uheap := list udict.
Definition shares_dict (o1 o2 : as_obj) : Prop := ao_d o1 = ao_d o2.
Definition own_kwargs (o : as_obj) (u : udict) : conn_kwargs :=
  kw_over u (asyncssh_kwargs (ao_b o) (ao_p o)).

Definition as_stepper := list as_obj -> uheap -> nat -> uheap * list (nat * conn_kwargs).
(* the code as it is: open() builds a fresh dict, the user's dict is only read;
   an event (i, k) = object i called asyncssh.connect with the keywords k *)
Definition as_open : as_stepper := fun objs hp i =>
  match nth_error objs i with
  | Some o => match nth_error hp (ao_d o) with
              | Some u => (hp, [(i, own_kwargs o u)])
              | None => (hp, [])
              end
  | None => (hp, [])
  end.
(* the twin that setdefault()s its arguments INTO the user's dict and connects with that dict *)
Definition as_open_setdefault : as_stepper := fun objs hp i =>
  match nth_error objs i with
  | Some o => match nth_error hp (ao_d o) with
              | Some u => let u' := own_kwargs o u in (upd (ao_d o) u' hp, [(i, u')])
              | None => (hp, [])
              end
  | None => (hp, [])
  end.
(* a history = the order in which the objects are opened (re-opens included); result = the user's
   dicts afterwards + the connect calls *)
Fixpoint as_run (step : as_stepper) (objs : list as_obj) (hp : uheap) (opens : list nat)
  : uheap * list (nat * conn_kwargs) :=
  match opens with
  | [] => (hp, [])
  | i :: r => let '(hp', ev) := step objs hp i in
              let '(hp'', evs) := as_run step objs hp' r in (hp'', ev ++ evs)
  end.
(* what every open must hand to the library: a function of the opened object's own record and of its
   dict AS THE USER WROTE IT *)
Definition as_dial (objs : list as_obj) (hp : uheap) (i : nat) : list (nat * conn_kwargs) :=
  snd (as_open objs hp i).
(* n devices given ONE dict / each its own copy of it *)
Definition devs_shared (devs : list (base_targs * plugin_targs)) : list as_obj :=
  map (fun d => mkAO (fst d) (snd d) 0) devs.
Fixpoint devs_copied_from (n : nat) (devs : list (base_targs * plugin_targs)) : list as_obj :=
  match devs with [] => [] | d :: r => mkAO (fst d) (snd d) n :: devs_copied_from (S n) r end.
