(* Lifecycle.v — executable model of the connection lifecycle of scrapli's drivers
   (scrapli/driver/base/sync_driver.py, async_driver.py: open / close / __enter__ / __exit__ and
   their asyncio twins; scrapli/channel/base_channel.py open/close; the Telnet transports' open()).
   Definitions only; proofs are in proofs/Lifecycle_Proofs.v.

   The four driver methods are *programs* of a small statement language (sequence, try/finally,
   try/except Exception, atoms).  gen/gen_lifecycle.py translates the current source into the same
   language (Gen_Lifecycle.v), so the theorems are applied to what the code says now; the
   hand-written programs below are the code as it is after the C11 repairs, the [_baseline] ones the
   pinned commit.  The interpreter gives the statements Python's semantics: an exception is the
   result [Raised e] (never a default), a finally block runs on both exits and its own exception wins. *)
From Verif Require Import Bytes Telnet.

(* exception classes (only the class is ever compared) *)
Inductive exc :=
| ENotOpened     (* ScrapliConnectionNotOpened *)
| EConnError     (* ScrapliConnectionError *)
| ETimeout       (* ScrapliTimeout *)
| EAuthFailed    (* ScrapliAuthenticationFailed *)
| EOther (n : N) (* any other Exception subclass (user hook / with-body / OSError of the log file) *).

Inductive res := Normal | Raised (e : exc).

(* what the driver holds: the transport's handles (session / socket / pty child / worker thread are
   owned by the transport object and released together by transport.close()), the channel-log file
   handle, and the Telnet transport's protocol state (meaningful for the two Telnet transports). *)
Record conn := mkC { t_open : bool; log_open : bool; tn : tstate }.

Definition released (c : conn) : Prop := t_open c = false /\ log_open c = false.
Definition releasedb (c : conn) : bool := negb (t_open c) && negb (log_open c).

(* one interaction with the device (or a raise of the hook / body itself).  The Telnet state the
   interaction leaves behind is arbitrary: it is a parameter of the step. *)
Inductive step :=
| SOk (t : tstate)     (* the interaction completes *)
| SDrop (t : tstate)   (* the device is gone: the transport raises ScrapliConnectionError *)
| SStall (t : tstate)  (* the device is silent: the timeout fires; decorators._handle_timeout closes
                          the transport and raises ScrapliTimeout *)
| SFail (e : exc)      (* the hook / the with-body raises by itself *)
| SStallOpen (t : tstate).  (* the device is silent under Settings.NO_TERMINATE_ON_TIMEOUT: _handle_timeout
                          raises ScrapliTimeout and does NOT close the transport *)

Definition run_step (s : step) (c : conn) : conn * res :=
  match s with
  | SFail e => (c, Raised e)
  | _ =>
    if negb (t_open c) then (c, Raised ENotOpened)   (* read/write on a closed transport *)
    else match s with
         | SOk t => (mkC true (log_open c) t, Normal)
         | SDrop t => (mkC true (log_open c) t, Raised EConnError)
         | SStall t => (mkC false (log_open c) t, Raised ETimeout)
         | SFail e => (c, Raised e)
         | SStallOpen t => (mkC true (log_open c) t, Raised ETimeout)
         end
  end.

Fixpoint run_steps (ss : list step) (c : conn) : conn * res :=
  match ss with
  | [] => (c, Normal)
  | s :: r => match run_step s c with
              | (c', Normal) => run_steps r c'
              | (c', Raised e) => (c', Raised e)
              end
  end.

(* which attributes the Telnet transport's open() puts back to their constructor values
   (generated from the source: Gen_Lifecycle.gen_resets_sync, gen_resets_async) *)
Record resets := mkR { r_eof : bool; r_raw : bool; r_cooked : bool; r_cbuf : bool; r_counter : bool }.
Definition resets_all : resets := mkR true true true true true.
Definition resets_none : resets := mkR false false false false false.   (* the pinned commit *)
Definition resets_allb (r : resets) : bool := r_eof r && r_raw r && r_cooked r && r_cbuf r && r_counter r.

(* transport.open() of a Telnet transport on the protocol state; a new socket has sent nothing *)
Definition tn_open (r : resets) (t : tstate) : tstate :=
  mkT (if r_raw r then [] else raw t) (if r_cooked r then [] else cooked t)
      (if r_cbuf r then [] else cbuf t) (if r_counter r then 0%nat else counter t)
      (if r_eof r then false else eof t) [].

(* everything outside the driver that one open / close / with-block meets *)
Record env := mkE {
  e_logcfg : bool;                   (* a channel log is configured *)
  e_topen : res;                     (* transport.open(): connects or raises *)
  e_copen : res;                     (* channel.open(): opening the log file can raise *)
  e_auth : list step;                (* in-channel authentication *)
  e_on_open : option (list step);    (* on_open hook, None = not set *)
  e_on_close : option (list step)    (* on_close hook, None = not set *)
}.

(* ---- statement language ---- *)
Inductive stmt (A : Type) :=
| Atom (a : A)
| Skip
| Seq (s1 s2 : stmt A)
| TryFinally (body fin : stmt A)
| TryExcept (body handler : stmt A).   (* except Exception: every modelled exception is one *)
Arguments Atom {A} a. Arguments Skip {A}. Arguments Seq {A} s1 s2.
Arguments TryFinally {A} body fin. Arguments TryExcept {A} body handler.

Fixpoint exec {A} (sem : A -> env -> conn -> conn * res) (s : stmt A) (e : env) (c : conn) : conn * res :=
  match s with
  | Atom a => sem a e c
  | Skip => (c, Normal)
  | Seq s1 s2 => match exec sem s1 e c with
                 | (c1, Normal) => exec sem s2 e c1
                 | (c1, Raised x) => (c1, Raised x)
                 end
  | TryFinally b f => match exec sem b e c with
                      | (c1, r1) => match exec sem f e c1 with
                                    | (c2, Normal) => (c2, r1)
                                    | (c2, Raised x) => (c2, Raised x)
                                    end
                      end
  | TryExcept b h => match exec sem b e c with
                     | (c1, Normal) => (c1, Normal)
                     | (c1, Raised _) => exec sem h e c1
                     end
  end.

(* atoms of Driver.open / Driver.close (logging statements are dropped by the translator) *)
Inductive matom :=
| ATOpen       (* [await] self.transport.open() *)
| ACOpen       (* self.channel.open() *)
| AAuth        (* the channel_authenticate_* block *)
| AHookOpen    (* if self.on_open: [await] self.on_open(self) *)
| AHookClose   (* if self.on_close: [await] self.on_close(self) *)
| ATClose      (* self.transport.close() *)
| ACClose.     (* self.channel.close() *)

Definition run_hook (h : option (list step)) (c : conn) : conn * res :=
  match h with None => (c, Normal) | Some ss => run_steps ss c end.

Definition msem (rs : resets) (a : matom) (e : env) (c : conn) : conn * res :=
  match a with
  | ATOpen => let t0 := tn_open rs (tn c) in
              match e_topen e with
              | Normal => (mkC true (log_open c) t0, Normal)
              | Raised x => (mkC (t_open c) (log_open c) t0, Raised x)
              end
  | ACOpen => if e_logcfg e
              then match e_copen e with
                   | Normal => (mkC (t_open c) true (tn c), Normal)
                   | Raised x => (c, Raised x)
                   end
              else (c, Normal)
  | AAuth => run_steps (e_auth e) c
  | AHookOpen => run_hook (e_on_open e) c
  | AHookClose => run_hook (e_on_close e) c
  | ATClose => (mkC false (log_open c) (tn c), Normal)
  | ACClose => (mkC (t_open c) false (tn c), Normal)
  end.

(* atoms of __enter__ / __exit__ (and __aenter__ / __aexit__) *)
Inductive catom :=
| CCallOpen     (* [await] self.open() *)
| CCallClose    (* [await] self.close() *)
| CTClose       (* self.transport.close() *)
| CCClose       (* self.channel.close() *)
| CRaiseConn.   (* raise ScrapliConnectionError(exc) from exc *)

Record progs := mkP {
  p_open : stmt matom; p_close : stmt matom; p_enter : stmt catom; p_exit : stmt catom;
  p_resets : resets }.

Definition do_open (P : progs) := exec (msem (p_resets P)) (p_open P).
Definition do_close (P : progs) := exec (msem (p_resets P)) (p_close P).

Definition csem (P : progs) (a : catom) (e : env) (c : conn) : conn * res :=
  match a with
  | CCallOpen => do_open P e c
  | CCallClose => do_close P e c
  | CTClose => (mkC false (log_open c) (tn c), Normal)
  | CCClose => (mkC (t_open c) false (tn c), Normal)
  | CRaiseConn => (c, Raised EConnError)
  end.

(* `with driver as conn: body` — Python's protocol: __exit__ is not called when __enter__ raises;
   it is called on every exit of the body; it returns None, so a body exception propagates unless
   __exit__ itself raises *)
Definition with_block (P : progs) (e : env) (body : list step) (c : conn) : conn * res :=
  match exec (csem P) (p_enter P) e c with
  | (c1, Raised x) => (c1, Raised x)
  | (c1, Normal) =>
      match run_steps body c1 with
      | (c2, rb) => match exec (csem P) (p_exit P) e c2 with
                    | (c3, Normal) => (c3, rb)
                    | (c3, Raised x) => (c3, Raised x)
                    end
      end
  end.

(* ---- histories ---- *)
Inductive op :=
| OOpen (e : env)
| OOperate (ss : list step)
| OClose (e : env)
| OWith (e : env) (body : list step).

Definition run_op (P : progs) (o : op) (c : conn) : conn * res :=
  match o with
  | OOpen e => do_open P e c
  | OOperate ss => run_steps ss c
  | OClose e => do_close P e c
  | OWith e body => with_block P e body c
  end.

Definition closing (o : op) : bool :=
  match o with OClose _ | OWith _ _ => true | _ => false end.

Fixpoint run_hist (P : progs) (h : list op) (c : conn) : conn :=
  match h with [] => c | o :: r => run_hist P r (fst (run_op P o c)) end.

(* the trace the correspondence check compares: state and result after every operation *)
Fixpoint trace (P : progs) (h : list op) (c : conn) : list (bool * bool * res) :=
  match h with
  | [] => []
  | o :: r => let (c', x) := run_op P o c in (t_open c', log_open c', x) :: trace P r c'
  end.

(* ---- the code as it is after the repairs ---- *)
Definition open_prog : stmt matom :=
  Seq (Atom ATOpen) (Seq (Atom ACOpen) (Seq (Atom AAuth) (Atom AHookOpen))).
Definition close_prog : stmt matom :=
  TryFinally (Atom AHookClose) (Seq (Atom ATClose) (Atom ACClose)).
Definition enter_prog : stmt catom :=
  TryExcept (Atom CCallOpen) (Seq (Atom CTClose) (Seq (Atom CCClose) (Atom CRaiseConn))).
Definition exit_prog : stmt catom := Atom CCallClose.
Definition progs_now : progs := mkP open_prog close_prog enter_prog exit_prog resets_all.

(* ---- the pinned commit: no try/finally in close(), no reset in the Telnet open() ---- *)
Definition close_prog_baseline : stmt matom :=
  Seq (Atom AHookClose) (Seq (Atom ATClose) (Atom ACClose)).
Definition progs_baseline : progs := mkP open_prog close_prog_baseline enter_prog exit_prog resets_none.

(* ---- abstract interpretation: which handles are certainly released on each exit ---- *)
(* (a, b): a = the transport is certainly closed, b = the channel log is certainly closed.
   None = that exit cannot be taken. *)
Definition abs := (bool * bool)%type.
Definition ajoin (x y : option abs) : option abs :=
  match x, y with
  | None, z | z, None => z
  | Some (a, b), Some (a', b') => Some (a && a', b && b')
  end.
Definition aclosed (x : option abs) : bool :=
  match x with None => true | Some (a, b) => a && b end.

Fixpoint ai {A} (asem : A -> abs -> option abs * option abs) (s : stmt A) (x : abs)
  : option abs * option abs :=
  match s with
  | Atom a => asem a x
  | Skip => (Some x, None)
  | Seq s1 s2 =>
      match ai asem s1 x with
      | (None, r1) => (None, r1)
      | (Some y, r1) => let (n2, r2) := ai asem s2 y in (n2, ajoin r1 r2)
      end
  | TryFinally b f =>
      let (n1, r1) := ai asem b x in
      let viaN := match n1 with None => (None, None) | Some y => ai asem f y end in
      let viaR := match r1 with None => (None, None) | Some y => ai asem f y end in
      (* normal exit: body normal, finally normal.  raising exits: finally raised (either way), or
         body raised and finally completed (the body's exception is re-raised) *)
      (fst viaN, ajoin (snd viaN) (ajoin (snd viaR) (fst viaR)))
  | TryExcept b h =>
      let (n1, r1) := ai asem b x in
      match r1 with
      | None => (n1, None)
      | Some y => let (nh, rh) := ai asem h y in (ajoin n1 nh, rh)
      end
  end.

(* steps never open anything: what is certainly closed stays so, on both exits *)
Definition masem (a : matom) (x : abs) : option abs * option abs :=
  match a with
  | ATOpen => (Some (false, snd x), Some x)
  | ACOpen => (Some (fst x, false), Some x)
  | AAuth | AHookOpen | AHookClose => (Some x, Some x)
  | ATClose => (Some (true, snd x), None)
  | ACClose => (Some (fst x, true), None)
  end.

Definition casem (P : progs) (a : catom) (x : abs) : option abs * option abs :=
  match a with
  | CCallOpen => ai masem (p_open P) x
  | CCallClose => ai masem (p_close P) x
  | CTClose => (Some (true, snd x), None)
  | CCClose => (Some (fst x, true), None)
  | CRaiseConn => (None, Some x)
  end.

Definition bot : abs := (false, false).

(* close() releases on both exits *)
Definition close_ok (P : progs) : bool :=
  let (n, r) := ai masem (p_close P) bot in aclosed n && aclosed r.
(* __enter__ releases when it raises; __exit__ releases on both exits *)
Definition with_ok (P : progs) : bool :=
  aclosed (snd (ai (casem P) (p_enter P) bot)) &&
  (let (n, r) := ai (casem P) (p_exit P) bot in aclosed n && aclosed r).

(* close() contains no opening atom (so it cannot re-acquire anything) *)
Fixpoint no_open_atoms (s : stmt matom) : bool :=
  match s with
  | Atom ATOpen | Atom ACOpen | Atom AAuth | Atom AHookOpen => false
  | Atom _ | Skip => true
  | Seq a b | TryFinally a b | TryExcept a b => no_open_atoms a && no_open_atoms b
  end.

Definition lifecycle_ok (P : progs) : bool := close_ok P && with_ok P && no_open_atoms (p_close P).

(* ---- default platform on_close hooks (generated: Gen_Lifecycle.gen_on_close_hooks) ---- *)
Inductive hcall :=
| HAcquirePriv                 (* conn.acquire_priv(desired_priv=conn.default_desired_privilege_level) *)
| HWrite (s : bytes)           (* conn.channel.write(channel_input=s) *)
| HSendReturn.                 (* conn.channel.send_return() *)

(* a platform hook as model steps: every call is a device interaction with its own outcome *)
Definition is_dev (s : step) : bool := match s with SFail _ => false | _ => true end.
Definition hook_shape_ok (h : list hcall) : bool :=
  match h with HAcquirePriv :: HWrite _ :: HSendReturn :: [] => true | _ => false end.

(* [ss] can be the outcomes of the calls of hook [h]: one device interaction per call *)
Definition hook_models (h : list hcall) (ss : list step) : bool :=
  Nat.eqb (length h) (length ss) && forallb is_dev ss.

(* steps that all complete, and the Telnet state they leave *)
Definition step_ok (s : step) : bool := match s with SOk _ => true | _ => false end.
Definition all_ok (ss : list step) : bool := forallb step_ok ss.
Definition hook_all_ok (h : option (list step)) : bool :=
  match h with None => true | Some ss => all_ok ss end.
Definition steps_tn (ss : list step) (t : tstate) : tstate :=
  fold_left (fun t s => match s with SOk t' | SDrop t' | SStall t' | SStallOpen t' => t' | SFail _ => t end) ss t.
Definition hook_steps (h : option (list step)) : list step := match h with None => [] | Some ss => ss end.
(* an environment in which the device answers and nothing fails while opening *)
Definition env_opens (e : env) : bool :=
  match e_topen e, e_copen e with
  | Normal, Normal => all_ok (e_auth e) && hook_all_ok (e_on_open e)
  | _, _ => false
  end.

(* ---- Telnet across close()/open(): successive sessions on one transport object ---- *)
Fixpoint tn_sessions (rs : resets) (counting : bool) (limit : nat) (st : tstate)
  (ss : list (list bytes)) : list (bytes * bytes * (nat * bool)) :=
  match ss with
  | [] => []
  | chunks :: r =>
      let st0 := tn_open rs st in
      let (outs, st1) := session true counting limit (S (length chunks)) st0 chunks in
      (concat outs, concat (sent st1), (counter st1, eof st1)) :: tn_sessions rs counting limit st1 r
  end.

Definition run_from (counting : bool) (limit : nat) (st : tstate) (chunks : list bytes) : bytes * bytes :=
  let (outs, st') := session true counting limit (S (length chunks)) st chunks in
  (concat outs, concat (sent st')).

(* ---- the pty child of the system transport (scrapli/transport/plugins/system/ptyprocess.py) ----
   PtyProcess.close() and the parent part of PtyProcess.spawn() are translated from the source
   (Gen_Lifecycle.gen_pty_close, gen_pty_spawn; the force argument close() gives to terminate() is part of
   the translation); isalive() / terminate() are modelled by hand (the translator checks the signal sequence
   of terminate(): SIGHUP, SIGCONT, SIGINT, and SIGKILL under `if force`). *)
Inductive child :=
| CRunning     (* the forked child runs *)
| CExited      (* it has exited and nobody has waited for it: defunct, still in the process table *)
| CReaped.     (* waitpid has collected it (self.terminated) *)

(* what a PtyProcess object owns / knows: the child, the pty master fd, self.closed, self.flag_eof *)
Record pty := mkPty { y_child : child; y_fd : bool; y_closed : bool; y_eof : bool }.

Inductive pres :=
| PDone
| PRaised      (* PtyProcessError("Could not terminate the child.") *)
| PBlocks.     (* never returns: isalive() uses the BLOCKING waitpid once flag_eof is set *)

(* outside the object: does closing the master fd (hang-up: SIGHUP from the kernel, end of input) make the child
   exit; do the polite signals of terminate() (SIGHUP, SIGCONT, SIGINT) end it (false: a child that ignores SIGHUP
   and SIGINT, e.g. a wedged ssh / ProxyCommand wrapper); does SIGKILL, which terminate() sends only with force=True *)
Record penv := mkPE { hup_exits : bool; polite_works : bool; kill_works : bool }.

Definition child_eqb (a b : child) : bool :=
  match a, b with CRunning, CRunning | CExited, CExited | CReaped, CReaped => true | _, _ => false end.

(* isalive(): terminated -> False; else waitpid(pid, 0 if flag_eof else WNOHANG).  None = blocks *)
Definition isalive (s : pty) : pty * option bool :=
  match y_child s with
  | CReaped => (s, Some false)
  | CExited => (mkPty CReaped (y_fd s) (y_closed s) (y_eof s), Some false)
  | CRunning => if y_eof s then (s, None) else (s, Some true)
  end.

(* terminate(force): SIGHUP, SIGCONT, SIGINT, then SIGKILL if force; True when the child is gone (and reaped),
   False when it survives (the signal sequence is checked against the source by the translator) *)
Definition terminate (force : bool) (E : penv) (s : pty) : pty * option bool :=
  match isalive s with
  | (s1, None) => (s1, None)
  | (s1, Some false) => (s1, Some true)
  | (s1, Some true) =>
      if polite_works E || (force && kill_works E) then (mkPty CReaped (y_fd s1) (y_closed s1) (y_eof s1), Some true) else (s1, Some false)
  end.

Inductive pcond :=
| PNotClosed    (* not self.closed *)
| PIsAlive      (* self.isalive() *)
| PEofSeen      (* self.flag_eof / self.eof() *)
| PNotEofSeen.  (* not self.flag_eof *)

Inductive pstmt :=
| PSkip
| PSeq (a b : pstmt)
| PIf (c : pcond) (body : pstmt)
| PDelFileobj         (* with suppress(AttributeError): del self.fileobj  — closes the master fd *)
| PNop                (* time.sleep(...), self.fd = -1, self.pid = None *)
| PMarkClosed         (* self.closed = True *)
| PTerminateOrRaise (force : bool).  (* if not self.terminate(force=...): raise PtyProcessError(...) *)

Definition pcond_eval (c : pcond) (s : pty) : pty * option bool :=
  match c with
  | PNotClosed => (s, Some (negb (y_closed s)))
  | PIsAlive => isalive s
  | PEofSeen => (s, Some (y_eof s))
  | PNotEofSeen => (s, Some (negb (y_eof s)))
  end.

Fixpoint prun (E : penv) (p : pstmt) (s : pty) : pty * pres :=
  match p with
  | PSkip | PNop => (s, PDone)
  | PSeq a b => match prun E a s with
                | (s1, PDone) => prun E b s1
                | (s1, r) => (s1, r)
                end
  | PIf c body => match pcond_eval c s with
                  | (s1, None) => (s1, PBlocks)
                  | (s1, Some true) => prun E body s1
                  | (s1, Some false) => (s1, PDone)
                  end
  | PDelFileobj =>
      (mkPty (match y_child s with CRunning => if hup_exits E then CExited else CRunning | x => x end)
             false (y_closed s) (y_eof s), PDone)
  | PMarkClosed => (mkPty (y_child s) (y_fd s) true (y_eof s), PDone)
  | PTerminateOrRaise force => match terminate force E s with
                         | (s1, None) => (s1, PBlocks)
                         | (s1, Some true) => (s1, PDone)
                         | (s1, Some false) => (s1, PRaised)
                         end
  end.

(* PtyProcess.close() as it is in the source now *)
Definition pty_close_now : pstmt :=
  PIf PNotClosed
      (PSeq PDelFileobj (PSeq PNop (PSeq (PIf PIsAlive (PTerminateOrRaise true)) (PSeq PNop (PSeq PMarkClosed PNop))))).

Definition pty_released (s : pty) : bool := child_eqb (y_child s) CReaped && negb (y_fd s) && y_closed s.

(* the region in which close() is total: when an EOF has been read while the child still runs, closing the
   master (SIGHUP) makes the child exit (true of ssh).  Outside it — a child that closed its tty, ignores SIGHUP
   and keeps running — the blocking waitpid of isalive() waits for the child (confirmed on the real code) *)
Definition in_region (E : penv) (s : pty) : bool :=
  negb (y_eof s && child_eqb (y_child s) CRunning && negb (hup_exits E)).

(* decided by running close() from every state (the state space is finite) *)
Definition all_children := [CRunning; CExited; CReaped].
Definition all_bools := [true; false].
Definition all_pty : list pty :=
  flat_map (fun c => flat_map (fun f => flat_map (fun cl => map (fun e => mkPty c f cl e) all_bools) all_bools) all_bools) all_children.
Definition all_penv : list penv :=
  flat_map (fun h => flat_map (fun q => map (fun k => mkPE h q k) all_bools) all_bools) all_bools.

Definition close_case_ok (p : pstmt) (E : penv) (s : pty) : bool :=
  if y_closed s then
    (* a closed object: close() does nothing (and cannot raise) *)
    match prun E p s with (s', PDone) => child_eqb (y_child s') (y_child s) && Bool.eqb (y_fd s') (y_fd s) && y_closed s' | _ => false end
  else if in_region E s then
    match prun E p s with
    | (s', PDone) => pty_released s'
    | (_, PRaised) => negb (kill_works E)
    | (_, PBlocks) => false
    end
  else true.

Definition pty_close_ok (p : pstmt) : bool :=
  forallb (fun E => forallb (close_case_ok p E) all_pty) all_penv.

(* the full statement: from every state of an un-closed object close() returns with the child reaped *)
Definition pty_close_full (p : pstmt) : Prop :=
  forall E s, y_closed s = false -> exists s', prun E p s = (s', PDone) /\ pty_released s' = true.

(* parent part of PtyProcess.spawn() after pty.fork() *)
Inductive satom :=
| SWrap        (* inst = cls(pid, fd): from here on a PtyProcess object owns the child and the master fd *)
| SPipe        (* os.close / os.read on the exec-error pipe *)
| SExecCheck   (* if len(exec_err_data) != 0: ... raise <the child's exec error> *)
| SMayRaise    (* inst.setwinsize(...) with a re-raising handler, _setonlcr(fd, True) *)
| SReturn.     (* return inst *)

Definition can_raise (a : satom) : bool := match a with SExecCheck | SMayRaise => true | _ => false end.

(* [fails]: for each statement whether it raises (only statements that can raise do).
   result: (pid and fd are owned by a PtyProcess object, spawn raised) *)
Fixpoint srun (prog : list satom) (fails : list bool) (owned : bool) : bool * bool :=
  match prog with
  | [] => (owned, false)
  | a :: r =>
      if can_raise a && hd false fails then (owned, true)
      else match a with
           | SReturn => (owned, false)
           | SWrap => srun r (tl fails) true
           | _ => srun r (tl fails) owned
           end
  end.

Fixpoint spawn_ok_from (owned : bool) (prog : list satom) : bool :=
  match prog with
  | [] => owned
  | SWrap :: r => spawn_ok_from true r
  | SReturn :: _ => owned
  | a :: r => (negb (can_raise a) || owned) && spawn_ok_from owned r
  end.
Definition spawn_ok (prog : list satom) : bool := spawn_ok_from false prog.

Definition pty_spawn_now : list satom := [SWrap; SPipe; SPipe; SPipe; SExecCheck; SMayRaise; SMayRaise; SReturn].
