(* PromptCache.v — the memoisation of prompt classification (functools.lru_cache on
   _determine_current_priv) as state, and the operations that change the privilege table
   (register_configuration_session / a user edit of privilege_levels followed by
   update_privilege_levels).  Definitions only.  The classifier is a parameter. *)
From Verif Require Import Bytes.

Section Cache.
  Variables (T R : Type).                       (* privilege table, classification result *)
  Variable classify : T -> bytes -> option R.   (* None = ScrapliPrivilegeError (never cached) *)
  Variable cap : nat.                           (* lru_cache(maxsize=...) *)
  Variable clears : bool.                       (* does update_privilege_levels call cache_clear()? (generated fact) *)

  Record cst := mkC { c_tbl : T; c_cache : list (bytes * R) }.   (* most recently used first *)

  Inductive cop :=
  | Query (p : bytes)
  | Update (t : T).     (* table replaced, then update_privilege_levels() *)

  Fixpoint lookup (p : bytes) (l : list (bytes * R)) : option R :=
    match l with
    | [] => None
    | (k, v) :: r => if beq k p then Some v else lookup p r
    end.

  Fixpoint remove (p : bytes) (l : list (bytes * R)) : list (bytes * R) :=
    match l with
    | [] => []
    | (k, v) :: r => if beq k p then r else (k, v) :: remove p r
    end.

  (* a hit moves the entry to the front; a miss computes, stores at the front and evicts the least
     recently used entry beyond the capacity *)
  Definition cstep (s : cst) (o : cop) : cst * option (option R) :=
    match o with
    | Query p =>
        match lookup p (c_cache s) with
        | Some v => (mkC (c_tbl s) ((p, v) :: remove p (c_cache s)), Some (Some v))
        | None =>
            match classify (c_tbl s) p with
            | Some v => (mkC (c_tbl s) (firstn cap ((p, v) :: c_cache s)), Some (Some v))
            | None => (s, Some None)
            end
        end
    | Update t => (mkC t (if clears then [] else c_cache s), None)
    end.

  Fixpoint crun (s : cst) (ops : list cop) : cst * list (option (option R)) :=
    match ops with
    | [] => (s, [])
    | o :: r => let (s', out) := cstep s o in let (s'', outs) := crun s' r in (s'', out :: outs)
    end.

  (* the specification: no cache at all *)
  Fixpoint cspec (t : T) (ops : list cop) : list (option (option R)) :=
    match ops with
    | [] => []
    | Query p :: r => Some (classify t p) :: cspec t r
    | Update t' :: r => None :: cspec t' r
    end.
End Cache.

Arguments mkC {T R}. Arguments c_tbl {T R}. Arguments c_cache {T R}.
Arguments Query {T}. Arguments Update {T}.
Arguments lookup {R}. Arguments remove {R}.
Arguments cstep {T R}. Arguments crun {T R}. Arguments cspec {T R}.
