(* Resolve.v — executable model of how a scrapli driver resolves its connection parameters
   (scrapli/driver/base/base_driver.py: BaseDriver.__init__, _setup_host, _setup_auth,
   _setup_ssh_file_args, _resolve_ssh_config, _resolve_ssh_known_hosts,
   _update_ssh_args_from_ssh_config, _transport_factory).  Definitions only; proofs are in
   proofs/Resolve_Proofs.v.

   A python str is a list of code points (N).  Everything outside the constructor is an explicit
   environment [env]: the file system as seen through pathlib (is_file / expanduser) and the result
   of the ssh-config lookup for a (config file, host) pair (the lookup itself is property C16).

   [fx] selects the code as it is now (true) or as it was at the pinned commit (false):
     - pinned: BaseTransportArgs is built from the RAW host / port before _setup_host strips the host,
       the ssh-config Port overrides the driver's port unconditionally and is never written to the
       transport arguments, and a host starting with '-' is accepted;
     - now: BaseTransportArgs is built from the stripped host, a host starting with '-' raises
       ScrapliValueError, the ssh-config Port is used only when no port argument was given and is
       written to driver.port and _base_transport_args.port alike. *)
From Coq Require Import String Ascii.
From Verif Require Import Bytes.

Definition str := list N.
Definition lit (s : string) : str := map N_of_ascii (list_ascii_of_string s).

(* characters removed by str.strip() : exactly those with str.isspace() (tied to CPython by
   Gen_Resolve.gen_str_whitespace) *)
Definition str_ws : list N :=
  [9; 10; 11; 12; 13; 28; 29; 30; 31; 32; 133; 160; 5760; 8192; 8193; 8194; 8195; 8196; 8197; 8198;
   8199; 8200; 8201; 8202; 8232; 8233; 8239; 8287; 12288].
Definition is_sws (c : N) : bool := mem c str_ws.
Fixpoint lstrip_s (s : str) : str :=
  match s with
  | c :: r => if is_sws c then lstrip_s r else s
  | [] => []
  end.
Definition rstrip_s (s : str) : str := rev (lstrip_s (rev s)).
Definition strip_s (s : str) : str := lstrip_s (rstrip_s s).

Definition DASH : N := 45.
Definition starts_dash (s : str) : bool := match s with c :: _ => c =? DASH | [] => false end.
Definition nonempty_s (s : str) : bool := match s with [] => false | _ => true end.

(* ---- transports ---- *)
Inductive transport := System | Paramiko | Asyncssh | Ssh2 | Telnet | Asynctelnet.
Definition all_transports : list transport := [Telnet; System; Ssh2; Paramiko; Asynctelnet; Asyncssh].
Definition transport_name (t : transport) : str :=
  match t with
  | System => lit "system" | Paramiko => lit "paramiko" | Asyncssh => lit "asyncssh"
  | Ssh2 => lit "ssh2" | Telnet => lit "telnet" | Asynctelnet => lit "asynctelnet"
  end.
(* `"telnet" in transport` *)
Definition is_telnet (t : transport) : bool := infixb (lit "telnet") (transport_name t).
(* `self.transport_name in ("asyncssh", "ssh2", "paramiko")` *)
Definition uses_ssh_config (t : transport) : bool :=
  existsb (beq (transport_name t)) [lit "asyncssh"; lit "ssh2"; lit "paramiko"].
(* PluginTransportArgs of the transport has auth_username / auth_private_key / auth_strict_key /
   ssh_config_file / ssh_known_hosts_file (the two Telnet ones have no fields at all) *)
Definition has_ssh_fields (t : transport) : bool :=
  match t with Telnet | Asynctelnet => false | _ => true end.
Definition default_port (t : transport) : N := if is_telnet t then 23 else 22.

Definition MAGIC_CFG : str := lit "SYSTEM_TRANSPORT_SSH_CONFIG_TRUE".
Definition MAGIC_KH : str := lit "SYSTEM_TRANSPORT_KNOWN_HOSTS_TRUE".
Definition USER_CFG : str := lit "~/.ssh/config".
Definition SYS_CFG : str := lit "/etc/ssh/ssh_config".
Definition USER_KH : str := lit "~/.ssh/known_hosts".
Definition SYS_KH : str := lit "/etc/ssh/ssh_known_hosts".

(* ---- inputs ---- *)
Inductive pyport := PNone | PInt (n : N) | PNotInt.
(* ssh_config_file / ssh_known_hosts_file : False | True | "path" | neither str nor bool *)
Inductive farg := FFalse | FTrue | FPath (p : str) | FBad.

(* ssh_config.Host as consulted by the driver: port (Optional[int]), user, identity_file ("" for
   None: only truthiness is used) *)
Record cfg_entry := mkC { c_port : option N; c_user : str; c_identity : str }.

Record env := mkE {
  e_file : str -> option str;    (* Path(p).expanduser().is_file() -> Some (str(Path(p).expanduser())) *)
  e_plain : str -> option str;   (* Path(p).is_file() -> Some (str(Path(p))) *)
  e_lookup : str -> str -> cfg_entry  (* ssh_config_factory(file).lookup(host) *)
}.

Record args := mkA {
  a_transport : transport; a_host : str; a_port : pyport; a_user : str; a_key : str;
  a_strict : bool; a_cfg : farg; a_kh : farg
}.

(* ---- outputs ---- *)
Inductive exn := EValue | EType.   (* ScrapliValueError | ScrapliTypeError *)
(* what the driver reports: driver.host / port / auth_username / auth_private_key / auth_strict_key /
   ssh_config_file / ssh_known_hosts_file *)
Record reported := mkR {
  r_host : str; r_port : N; r_user : str; r_key : str; r_strict : bool; r_cfg : str; r_kh : str
}.
(* what the transport dials with: _base_transport_args.host / .port and the plugin arguments *)
Record base_targs := mkB { b_host : str; b_port : N }.
Record plugin_targs := mkP { p_user : str; p_key : str; p_strict : bool; p_cfg : str; p_kh : str }.
Inductive outcome :=
| Built (r : reported) (b : base_targs) (p : option plugin_targs)
| Raised (e : exn).

(* ---- helpers of the constructor ---- *)
(* helper.resolve_file *)
Definition resolve_file (e : env) (f : str) : option str :=
  match e_plain e f with
  | Some p => Some p
  | None => e_file e f
  end.

(* _setup_auth (the key part) : "" stays "", otherwise the file must resolve *)
Definition setup_key (e : env) (k : str) : option str :=
  if nonempty_s k then resolve_file e k else Some [].

Fixpoint first_file (e : env) (cands : list str) : str :=
  match cands with
  | [] => []
  | c :: r => match e_file e c with Some p => p | None => first_file e r end
  end.

(* _resolve_ssh_config / _resolve_ssh_known_hosts *)
Definition resolve_ssh_config (e : env) (t : transport) (f : str) : str :=
  if negb (nonempty_s f) && beq (transport_name t) (lit "system") then MAGIC_CFG
  else first_file e [f; USER_CFG; SYS_CFG].
Definition resolve_known_hosts (e : env) (t : transport) (f : str) : str :=
  if negb (nonempty_s f) && beq (transport_name t) (lit "system") then MAGIC_KH
  else first_file e [f; USER_KH; SYS_KH].

Definition farg_bad (f : farg) : bool := match f with FBad => true | _ => false end.

(* _setup_ssh_file_args ; None = ScrapliTypeError *)
Definition setup_files (e : env) (t : transport) (cf kh : farg) : option (str * str) :=
  if is_telnet t then Some ([], [])
  else if farg_bad cf || farg_bad kh then None
  else
    let c := match cf with
             | FFalse | FBad => [] | FTrue => resolve_ssh_config e t [] | FPath p => resolve_ssh_config e t p
             end in
    let k := match kh with
             | FFalse | FBad => [] | FTrue => resolve_known_hosts e t [] | FPath p => resolve_known_hosts e t p
             end in
    Some (c, k).

(* the driver's mutable attributes while __init__ runs *)
Record dstate := mkD {
  d_host : str; d_port : N; d_user : str; d_key : str; d_base : base_targs
}.

Definition port_truthy (p : option N) : option N :=
  match p with Some n => if n =? 0 then None else Some n | None => None end.

(* _update_ssh_args_from_ssh_config ; [explicit] = a port argument was given (used only when fx) *)
Definition update_from_cfg (fx explicit : bool) (c : cfg_entry) (d : dstate) : dstate :=
  let d1 :=
    match port_truthy (c_port c) with
    | Some n =>
        if fx then
          if explicit then d
          else mkD (d_host d) n (d_user d) (d_key d) (mkB (b_host (d_base d)) n)
        else mkD (d_host d) n (d_user d) (d_key d) (d_base d)
    | None => d
    end in
  let d2 :=
    if nonempty_s (c_user c) && negb (nonempty_s (d_user d1))
    then mkD (d_host d1) (d_port d1) (c_user c) (d_key d1) (d_base d1) else d1 in
  if nonempty_s (c_identity c) && negb (nonempty_s (d_key d2))
  then mkD (d_host d2) (d_port d2) (d_user d2) (c_identity c) (d_base d2) else d2.

(* BaseDriver.__init__ *)
Definition resolve (fx : bool) (e : env) (a : args) : outcome :=
  let t := a_transport a in
  let explicit := match a_port a with PNone => false | _ => true end in
  let port := match a_port a with PNone => PInt (default_port t) | p => p end in
  (* _setup_host *)
  match a_host a with
  | [] => Raised EValue
  | _ =>
    match port with
    | PNone | PNotInt => Raised EType
    | PInt pn =>
      let h := strip_s (a_host a) in
      if fx && starts_dash h then Raised EValue
      else
        let base := if fx then mkB h pn else mkB (a_host a) pn in
        (* _setup_auth *)
        match setup_key e (a_key a) with
        | None => Raised EValue
        | Some key =>
          (* _setup_ssh_file_args *)
          match setup_files e t (a_cfg a) (a_kh a) with
          | None => Raised EType
          | Some (cfg, kh) =>
            let d0 := mkD h pn (a_user a) key base in
            let d := if uses_ssh_config t
                     then update_from_cfg fx explicit (e_lookup e cfg h) d0 else d0 in
            (* _transport_factory: plugin arguments copied from the driver attributes by field name *)
            Built (mkR (d_host d) (d_port d) (d_user d) (d_key d) (a_strict a) cfg kh)
                  (d_base d)
                  (if has_ssh_fields t
                   then Some (mkP (d_user d) (d_key d) (a_strict a) cfg kh) else None)
          end
        end
    end
  end.

(* ---- specification: the fixed precedence, field by field (independent of the order of the
   assignments in __init__) ---- *)
Definition spec_port (e : env) (a : args) (cfg : str) (h : str) : N :=
  match a_port a with
  | PInt n => n                                             (* explicit argument *)
  | _ =>
    match (if uses_ssh_config (a_transport a)
           then port_truthy (c_port (e_lookup e cfg h)) else None) with
    | Some n => n                                           (* ssh config, where consulted *)
    | None => if is_telnet (a_transport a) then 23 else 22  (* default *)
    end
  end.
Definition spec_user (e : env) (a : args) (cfg : str) (h : str) : str :=
  if nonempty_s (a_user a) then a_user a
  else if uses_ssh_config (a_transport a) then c_user (e_lookup e cfg h) else [].
(* the explicit key argument counts when the path it resolved to is non-empty (`not self.auth_private_key`
   is evaluated on the resolved path; pathlib never yields "" for a file) *)
Definition spec_key (e : env) (a : args) (cfg : str) (h : str) : str :=
  let k := if nonempty_s (a_key a)
           then match resolve_file e (a_key a) with Some k => k | None => [] end else [] in
  if nonempty_s k then k
  else if uses_ssh_config (a_transport a) then c_identity (e_lookup e cfg h) else [].
Definition spec_file (e : env) (t : transport) (f : farg) (magic user_default sys_default : str) : str :=
  if is_telnet t then []
  else match f with
       | FFalse | FBad => []
       | FTrue | FPath [] =>
           match t with System => magic | _ => first_file e [[]; user_default; sys_default] end
       | FPath p => first_file e [p; user_default; sys_default]
       end.
