(* Send.v — executable model of the send paths of scrapli's drivers
   (scrapli/driver/generic/{sync,async}_driver.py send_command(s)/_from_file,
    scrapli/driver/network/{sync,async,base}_driver.py send_command(s)/send_config(s)/_from_file,
    the five _abort_config of scrapli/driver/core/*/{sync,async}_driver.py,
    scrapli/channel/{sync,async}_channel.py send_input: write(input) then send_return()).
   Definitions only; proofs are in proofs/Send_Proofs.v.

   Strings are their UTF-8 encodings.  What is observable of a call is the list of events:
     EW b      one transport.write(b) issued by channel.write outside privilege navigation
     ENav t    one call acquire_priv(desired_priv=t) (its own writes are C04's subject)
   [dev i l] is the processed output the channel returns for the i-th line [l] of the call when it
   reads up to the prompt — the device is arbitrary (Section variable without hypotheses).

   [ver] selects the code as it is now (all true) or as it was at the pinned commit (all false):
     v_guard_cmds   send_commands returns the empty MultiResponse for an empty list
     v_guard_cfg    _post_send_config builds an empty Response for an empty MultiResponse
   The Junos "pass the current level to the abort's send_configs" repair is the field
   [a_keep_level] of the abort shape (regenerated from the source by gen/gen_send.py). *)
From Coq Require Import Strings.String Strings.Ascii.
From Verif Require Import Bytes Response.

Fixpoint bs (s : string) : bytes :=
  match s with EmptyString => [] | String a r => N_of_ascii a :: bs r end.

Definition RET : bytes := [10].                       (* comms_return_char "\n" *)
Definition lv_configuration : bytes := bs "configuration"%string.

Inductive ev := EW (b : bytes) | ENav (target : bytes).
Inductive exn := IndexError | PrivilegeError.
Inductive outcome (A : Type) := Ok (a : A) | Raised (e : exn).
Arguments Ok {A} a.
Arguments Raised {A} e.

Record ver := mkV { v_guard_cmds : bool; v_guard_cfg : bool }.
Definition v_now : ver := mkV true true.
Definition v_pinned : ver := mkV false false.

(* ---- str.splitlines() on UTF-8: boundaries \n \r \r\n \v \f \x1c \x1d \x1e \x85     ---- *)
Definition single_boundary (c : N) : bool :=
  (c =? 10) || (c =? 11) || (c =? 12) || (c =? 28) || (c =? 29) || (c =? 30).

Fixpoint usl (cur : bytes) (s : bytes) : list bytes :=
  match s with
  | [] => match cur with [] => [] | _ => [rev cur] end
  | c :: r =>
      if single_boundary c then rev cur :: usl [] r
      else if c =? 13 then
        match r with
        | c2 :: r' => if c2 =? 10 then rev cur :: usl [] r' else rev cur :: usl [] r
        | [] => rev cur :: usl [] r
        end
      else if c =? 194 then                                   (* U+0085 = C2 85 *)
        match r with
        | c2 :: r' => if c2 =? 133 then rev cur :: usl [] r' else usl (c :: cur) r
        | [] => usl (c :: cur) r
        end
      else if c =? 226 then                                   (* U+2028/9 = E2 80 A8/A9 *)
        match r with
        | c2 :: r' =>
            if c2 =? 128 then
              match r' with
              | c3 :: r'' => if (c3 =? 168) || (c3 =? 169) then rev cur :: usl [] r''
                             else usl (c :: cur) r
              | [] => usl (c :: cur) r
              end
            else usl (c :: cur) r
        | [] => usl (c :: cur) r
        end
      else usl (c :: cur) r
  end.
Definition usplitlines (s : bytes) : list bytes := usl [] s.

(* ---- abort shapes and driver data (the concrete values are regenerated: Gen_Send.v) ---- *)
Record abort_shape := mkA {
  a_guard : bool;            (* only if the current level's pattern contains "config\-s" *)
  a_lines : list bytes;      (* the lines of the abort / rollback step *)
  a_via_configs : bool;      (* sent through self.send_configs (true) or channel.send_input (false) *)
  a_keep_level : bool;       (* send_configs is given privilege_level=self._current_priv_level.name *)
  a_after : option bytes     (* level the driver believes in afterwards; None: unchanged *)
}.

Record drv := mkD {
  d_abort : abort_shape;
  d_levels : list (bytes * bool);   (* privilege level names, flag "pattern contains config\-s" *)
  d_default_priv : bytes;           (* default_desired_privilege_level *)
  d_markers : list bytes            (* the driver's failed_when_contains *)
}.

Definition has_level (d : drv) (n : bytes) : bool := existsb (fun p => beq (fst p) n) (d_levels d).
Definition is_session (d : drv) (n : bytes) : bool :=
  existsb (fun p => beq (fst p) n && snd p) (d_levels d).

Section Send.
Variable dev : nat -> bytes -> bytes.

(* channel.send_input: write(channel_input) ; [read the echo] ; send_return() ; [read to the prompt] *)
Definition send_input (line : bytes) : list ev := [EW line; EW RET].

(* GenericDriver._send_command: Response(...); channel.send_input; record_response.
   With eager the channel returns b"" (nothing is read after the return). *)
Definition send_command (f : fwc) (eager : bool) (i : nat) (line : bytes) : list ev * response :=
  (send_input line, record_response (new_response line f) (if eager then [] else dev i line)).

(* the for loop over commands[:-1] with its break: (events, responses, broke) *)
Fixpoint loop (f : fwc) (stop eager : bool) (i : nat) (ls : list bytes)
  : list ev * list response * bool :=
  match ls with
  | [] => ([], [], false)
  | l :: rest =>
      let (e, r) := send_command f eager i l in
      if stop && r_failed r then (e, [r], true)
      else let '(es, rs, b) := loop f stop eager (S i) rest in (e ++ es, r :: rs, b)
  end.

(* GenericDriver.send_commands: all-but-last loop; the for's else clause sends commands[-1]
   with eager=False.  Events are returned also when the call raises. *)
Definition send_commands (guard : bool) (f : fwc) (stop eager : bool) (ls : list bytes)
  : list ev * outcome (list response) :=
  match ls with
  | [] => if guard then ([], Ok []) else ([], Raised IndexError)
  | _ =>
      let '(es, rs, broke) := loop f stop eager 0 (removelast ls) in
      if broke then (es, Ok rs)
      else let (e, r) := send_command f false (length ls - 1) (last ls []) in
           (es ++ e, Ok (rs ++ [r]))
  end.

(* _acquire_appropriate_privilege_level / the level check of send_configs *)
Definition acquire (cur target : bytes) : list ev * bytes :=
  if beq cur target then ([], cur) else ([ENav target], target).

(* NetworkDriver.send_command / send_commands (also reached by send_commands_from_file) *)
Definition net_send_command (d : drv) (cur : bytes) (f : fwc) (line : bytes)
  : list ev * response * bytes :=
  let (en, cur') := acquire cur (d_default_priv d) in
  let (e, r) := send_command (net_fwc (d_markers d) f) false 0 line in
  (en ++ e, r, cur').

Definition net_send_commands (v : ver) (d : drv) (cur : bytes) (f : fwc) (stop eager : bool)
  (ls : list bytes) : list ev * outcome (list response) * bytes :=
  let (en, cur') := acquire cur (d_default_priv d) in
  let (es, o) := send_commands (v_guard_cmds v) (net_fwc (d_markers d) f) stop eager ls in
  (en ++ es, o, cur').

(* _pre_send_configs: the level *)
Definition resolve_level (d : drv) (priv : bytes) : outcome bytes :=
  match priv with
  | [] => Ok lv_configuration
  | _ => if has_level d priv then Ok priv else Raised PrivilegeError
  end.

(* send_configs up to (not including) the abort step *)
Definition send_configs_core (v : ver) (d : drv) (cur : bytes) (f : fwc) (stop eager : bool)
  (priv : bytes) (ls : list bytes) : list ev * outcome (list response) * bytes :=
  match resolve_level d priv with
  | Raised e => ([], Raised e, cur)
  | Ok lvl =>
      let (en, cur1) := acquire cur lvl in
      let (es, o) := send_commands (v_guard_cmds v) (net_fwc (d_markers d) f) stop eager ls in
      (en ++ es, o, cur1)
  end.

(* the platform's _abort_config, interpreted from its shape *)
Definition abort (v : ver) (d : drv) (cur : bytes) : list ev * option exn * bytes :=
  let a := d_abort d in
  let after := match a_after a with Some x => x | None => cur end in
  if a_guard a && negb (is_session d cur) then ([], None, cur)
  else if a_via_configs a then
    let '(es, o, _) := send_configs_core v d cur FNone false false
                         (if a_keep_level a then cur else []) (a_lines a) in
    match o with
    | Raised e => (es, Some e, cur)
    | Ok _ => (es, None, after)
    end
  else (flat_map send_input (a_lines a), None, after).

(* NetworkDriver.send_configs (also reached by send_configs_from_file) *)
Definition send_configs (v : ver) (d : drv) (cur : bytes) (f : fwc) (stop eager : bool)
  (priv : bytes) (ls : list bytes) : list ev * outcome (list response) * bytes :=
  let '(es, o, cur1) := send_configs_core v d cur f stop eager priv ls in
  match o with
  | Raised e => (es, Raised e, cur1)
  | Ok rs =>
      if stop && multi_failed rs then
        let '(ea, x, cur2) := abort v d cur1 in
        (es ++ ea, match x with Some e => Raised e | None => Ok rs end, cur2)
      else (es, Ok rs, cur1)
  end.

(* _post_send_config: one Response out of the MultiResponse *)
Definition post_send_config (guard : bool) (cfg : bytes) (rs : list response) : outcome response :=
  match rs with
  | [] => if guard then Ok (record_response (new_response cfg FNone) []) else Raised IndexError
  | r0 :: _ => Ok (mkR cfg (join [10] (map r_result rs)) (r_markers r0) (existsb r_failed rs))
  end.

(* NetworkDriver.send_config: splitlines, send_configs, merge *)
Definition send_config (v : ver) (d : drv) (cur : bytes) (f : fwc) (stop eager : bool)
  (priv : bytes) (cfg : bytes) : list ev * outcome response * bytes :=
  let '(es, o, cur') := send_configs v d cur f stop eager priv (usplitlines cfg) in
  (es, match o with Raised e => Raised e | Ok rs => post_send_config (v_guard_cfg v) cfg rs end, cur').

(* the from-file variants: the lines are the splitlines of the file's text *)
Definition send_commands_from_file (guard : bool) (f : fwc) (stop eager : bool) (text : bytes) :=
  send_commands guard f stop eager (usplitlines text).
Definition net_send_commands_from_file (v : ver) (d : drv) (cur : bytes) (f : fwc)
  (stop eager : bool) (text : bytes) :=
  net_send_commands v d cur f stop eager (usplitlines text).
Definition send_configs_from_file (v : ver) (d : drv) (cur : bytes) (f : fwc) (stop eager : bool)
  (priv : bytes) (text : bytes) :=
  send_configs v d cur f stop eager priv (usplitlines text).

End Send.

(* ---- the device side: what a line-oriented device whose mode only the navigation changes
   receives: bytes accumulate until a return; [acc] is the pending line, reversed ---- *)
Fixpoint feed (mode acc : bytes) (b : bytes) : list (bytes * bytes) * bytes :=
  match b with
  | [] => ([], acc)
  | c :: r => if c =? 10 then let (l, a) := feed mode [] r in ((mode, rev acc) :: l, a)
              else feed mode (c :: acc) r
  end.

Fixpoint dlog (mode acc : bytes) (es : list ev) : list (bytes * bytes) :=
  match es with
  | [] => []
  | ENav t :: r => dlog t acc r
  | EW b :: r => let (l, a) := feed mode acc b in l ++ dlog mode a r
  end.

(* all bytes written outside navigation *)
Fixpoint written (es : list ev) : bytes :=
  match es with [] => [] | EW b :: r => b ++ written r | ENav _ :: r => written r end.

(* ---- specification side ---- *)
(* the bytes a list of lines must put on the wire *)
Definition wire (ls : list bytes) : bytes := flat_map (fun l => l ++ RET) ls.

(* result the i-th of n lines gets: nothing is read for the eager all-but-last lines *)
Definition result_of (dev : nat -> bytes -> bytes) (eager : bool) (n i : nat) (l : bytes) : bytes :=
  if eager && Nat.ltb (S i) n then [] else dev i l.

(* ---- canonical forms compared with the implementation by the correspondence run ---- *)
Definition exn_code (e : exn) : N := match e with IndexError => 1 | PrivilegeError => 2 end.
Definition flags (rs : list response) : list bool := map r_failed rs.

Fixpoint ev_beq (a b : list ev) : bool :=
  match a, b with
  | [], [] => true
  | EW x :: a', EW y :: b' => beq x y && ev_beq a' b'
  | ENav x :: a', ENav y :: b' => beq x y && ev_beq a' b'
  | _, _ => false
  end.
Fixpoint bools_beq (a b : list bool) : bool :=
  match a, b with
  | [], [] => true
  | x :: a', y :: b' => Bool.eqb x y && bools_beq a' b'
  | _, _ => false
  end.
