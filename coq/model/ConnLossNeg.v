(* ConnLossNeg.v — the writes that happen INSIDE a read (C08): Telnet option negotiation.
   Definitions only; the proofs are in proofs/ConnLossNeg_Proofs.v.  Extends model/ConnLoss.v.

   Both Telnet transports (scrapli/transport/plugins/telnet/transport.py, asynctelnet/transport.py) answer the
   server's option requests from inside read(): after every _read() (until the tenth option has been answered)
   _handle_control_chars() walks the raw buffer byte by byte through _handle_control_chars_response(), which
   starts with a not-opened guard and, on the third byte of every IAC <cmd> <option>, writes a three-byte reply.
   A device that sends its opening option burst and hangs up makes those replies the first low-level call that
   meets the lost connection.  Read off the source (Gen_ConnLoss.v, an [ncfg] per transport):
     - whether the per-byte guard is the truth value of the Socket object (base_socket.Socket.__bool__ =
       isalive() = a zero-length send: a liveness probe) -- sync telnet -- or a plain None test;
     - the try/except tables between the low-level send of a reply and the caller of read(), innermost first:
       those of the transport's own write() when the reply goes through it, none when it is a bare send. *)
From Verif Require Import Bytes ConnLoss.

Record ncfg := mkNcfg {
  n_probe : bool;
  n_reply : list table
}.

(* what the library's send can raise for a reply: a socket, as for any write; an asyncio StreamWriter buffers
   and never raises for a lost connection (cf. [alost]: "the asynctelnet transport learns nothing there") *)
Definition neg_may_raise (tr : transport) : list cls :=
  match tr with Telnet => os_family | _ => [] end.

(* every exception the reply's send can raise ends as a scrapli exception at the caller of read() *)
Definition neg_ok (c : cfg) (n : ncfg) (tr : transport) : bool :=
  forallb (fun x => flow_raised_scrapli c (chain c (n_reply n) x)) (neg_may_raise tr).

(* the guard at the top of _handle_control_chars_response, once per byte *)
Definition neg_guard (c : cfg) (n : ncfg) (tr : transport) (st : tst) (e : env) : option cls * tst * env :=
  match tr with
  | Telnet =>
      if n_probe n then
        match sock_probe c st e with
        | (ABool true, st1, e1) => (None, st1, e1)
        | (ABool false, st1, e1) => (Some SNotOpened, st1, e1)
        | (AExc x, st1, e1) => (Some x, st1, e1)
        end
      else (None, st, e)
  | _ => (None, st, e)
  end.

Fixpoint neg_guards (c : cfg) (n : ncfg) (tr : transport) (k : nat) (st : tst) (e : env)
  : option cls * tst * env :=
  match k with
  | O => (None, st, e)
  | S k' => match neg_guard c n tr st e with
            | (None, st1, e1) => neg_guards c n tr k' st1 e1
            | r => r
            end
  end.

(* the reply: one low-level send, under the tables of the reply site *)
Definition neg_reply (c : cfg) (n : ncfg) (st : tst) (e : env) : option cls * tst * env :=
  let '(w, e1) := match werr st with Some x => (WRaise x, e) | None => pop_send e end in
  match w with
  | WOk => (None, st, e1)
  | WRaise x =>
      let st1 := if is_timeout x then st
                 else mkT (attached st) (teof st) (leof st) (lerr st) (Some x) (pdead st) in
      match chain c (n_reply n) x with
      | FRaised y => (Some y, st1, e1)
      | _ => (None, st1, e1)
      end
  end.

(* a burst of k complete option requests in the raw buffer: three guarded bytes and one reply each; the first
   exception ends read() *)
Fixpoint neg_burst (c : cfg) (n : ncfg) (tr : transport) (k : nat) (st : tst) (e : env)
  : option cls * tst * env :=
  match k with
  | O => (None, st, e)
  | S k' =>
      match neg_guards c n tr 3 st e with
      | (None, st1, e1) =>
          match neg_reply c n st1 e1 with
          | (None, st2, e2) => neg_burst c n tr k' st2 e2
          | r => r
          end
      | r => r
      end
  end.

(* read() of a session whose next low-level read delivers a burst of k (< 10) option requests and nothing else:
   the guards of read(), _read(), the guard of _handle_control_chars() ([t_read_step] on a chunk without
   payload), the burst; nothing is cooked yet, so the loop reads again: the next low-level event decides *)
Definition t_read_neg (c : cfg) (n : ncfg) (tr : transport) (k : nat) (st : tst) (e : env) (rs : list rev)
  : xres * tst * env * list rev :=
  match t_read_pre c tr st e with
  | PreStop r st1 e1 => (r, st1, e1, rs)
  | PreGo st1 e1 =>
      match t_read_step c tr st1 e1 (RData []) with
      | (XBytes _, st2, e2) =>
          match neg_burst c n tr k st2 e2 with
          | (Some x, st3, e3) => (XExc x, st3, e3, rs)
          | (None, st3, e3) =>
              match rs with
              | [] => let '(r, st4, e4) := t_read_step c tr st3 e3 RBlock in (r, st4, e4, [])
              | v :: rs' => let '(r, st4, e4) := t_read_step c tr st3 e3 v in (r, st4, e4, rs')
              end
          end
      | (r, st2, e2) => (r, st2, e2, rs)
      end
  end.

(* the write events (and a write side already broken) are within what the reply's send can raise *)
Definition neg_env_ok (tr : transport) (st : tst) (e : env) : bool :=
  forallb (fun w => match w with WRaise x => mem_cls x (neg_may_raise tr) | WOk => true end) (sends e)
  && match werr st with Some x => mem_cls x (neg_may_raise tr) | None => true end.

(* a history that starts with such a transport.read(), for the correspondence run: the observation of the
   read (as [OpRead] of [run_op]), isalive(), then any further operations *)
Definition run_neg_ops (c : cfg) (n : ncfg) (tr : transport) (To Ti : N) (k : nat) (os : list op)
           (st : tst) (e : env) (rs : list rev) : list obs :=
  let '(r, st1, e1, rs1) := t_read_neg c n tr k st e rs in
  let '(out, st2, e2, rs2) :=
    match r with
    | XBytes _ => (ODone, st1, e1, rs1)
    | XExc x => (ORaised x, st1, e1, rs1)
    | XBlock =>
        if tc_read_decorated (tcf c tr) && negb (Ti =? 0) then
          match fire c tr st1 e1 rs1 with
          | LStop o' st2 e2 rs2 => (o', st2, e2, rs2)
          | _ => (OHang, st1, e1, rs1)
          end
        else (OHang, st1, e1, rs1)
    end in
  let '(al, st3, e3) := t_isalive c tr st2 e2 in
  mkObs out false false false (attached st) (lost st) (doomedb tr st) (lost st2) (alost tr st2) al
    :: run_ops c tr To Ti os st3 e3 rs2.
